"""C15 — copies of PSyIR subtrees are independent and equal.

For generated programs (module with imported symbols, routines and functions with local parameters
used as kinds, array bounds and initial values, nested loops/ifs whose bodies get their own
symbols) and a random node: `c = node.copy()`; then on the REAL objects
  * `c == node`;
  * no node object and no symbol object of a copied scope is shared (identity), including the
    expression nodes inside the declarations (array bounds, initial values, default initialisers of
    the components of derived types defined in the copied scopes);
  * the copy left the original alone: nothing in the original points at a symbol of the copy;
  * every symbol reachable from the copy (references, loop variables, kinds of literals, table
    entries, datatypes / initial values / interfaces of the declared symbols) that belongs to a
    copied scope of the original is a failure (must be the copy's own symbol);
  * after <= 10 random edits of one side (rename, new datatype, add/remove symbol, re-point a
    reference, detach / re-attach statements) the FortranWriter output of the OTHER side is
    unchanged.
Correspondence: the whole object graph (node identities, symbol identities, tables, datatype
dependencies) is exported before the copy, after the copy and after the edits and compared with
`C15.copy` / `C15.run` of the Lean model (driver), which is in the mode `C15.deployed` (= the code
with fixes/C15-deepcopy-datatype-refs.patch).  Interface objects of symbols are identities in that
export too; a few edits change the access of an argument's interface: these are the known finding
C15-shared-interface (the model shares the object exactly where the real copy methods do)."""
import json
import os

import common
from common import driver, sx
from props import c15_gen, c15_psykal, c15_holders

MODE = "deployed"


# ---------------------------------------------------------------------------------------------
# the real world: registry of node / symbol identities, export to the model's format
# ---------------------------------------------------------------------------------------------
class Ctx:
    def __init__(self, src, tweaks):
        from psyclone.psyir.frontend.fortran import FortranReader
        from psyclone.psyir.nodes import Node
        self.src, self.tweaks = src, tweaks
        self.root = FortranReader().psyir_from_source(src)
        self.notes = []
        apply_tweaks(self.root, tweaks)
        self.nodes = {}        # id(obj) -> (int, obj)
        self.syms = {}         # id(obj) -> (int, obj)
        self.names = {}        # name -> int (1-based)
        self.kinds = {}
        self.roots = [self.root]
        for n in self.root.walk(Node):
            self.nodes[id(n)] = (len(self.nodes), n)
        self.T = len(self.nodes)       # nodes of the tree proper
        self.discover(self.root)
        self.M = len(self.syms)
        # the expression nodes inside the declarations (array bounds, component initialisers, initial values)
        for _, s in sorted(self.syms.values(), key=lambda t: t[0]):
            for n in decl_nodes(s):
                self.nodes.setdefault(id(n), (len(self.nodes), n))
        self.N = len(self.nodes)
        self.next_node = 2 * self.N
        self.orig_nodes = [n for _, n in self.nodes.values()]
        self.nsym, self.nnode = self.M, self.N
        self.orig_syms = [s for _, s in self.syms.values()]
        self.copy = None
        self.extra = 0
        self.ifaces = {}       # id(interface object) -> (int, obj)
        for _, s in sorted(self.syms.values(), key=lambda t: t[0]):
            if id(s.interface) not in self.ifaces:
                self.ifaces[id(s.interface)] = (len(self.ifaces), s.interface)
        self.F = len(self.ifaces)
        self.nif = self.F

    # -- symbols -------------------------------------------------------------------------------
    def reg(self, sym, idx=None):
        if id(sym) not in self.syms:
            if idx is None:
                idx = len(self.syms)
            self.syms[id(sym)] = (idx, sym)
        return self.syms[id(sym)][0]

    def discover(self, root):
        """register every symbol reachable from `root`: tables first (pre-order), then the rest"""
        from psyclone.psyir.nodes import ScopingNode, Node
        for n in root.walk(ScopingNode):
            for s in n.symbol_table.symbols:
                self.reg(s)
        pending = [s for _, s in list(self.syms.values())]
        for n in root.walk(Node):
            pending += node_syms(n)
        while pending:
            s = pending.pop(0)
            self.reg(s)
            for d in sym_deps(s):
                if id(d) not in self.syms:
                    self.reg(d)
                    pending.append(d)

    def sid(self, sym):
        """identity number of a symbol; unknown objects get numbers the model cannot produce"""
        if id(sym) not in self.syms:
            self.extra += 1
            self.syms[id(sym)] = (900000 + self.extra, sym)
        return self.syms[id(sym)][0]

    def iid(self, sym):
        """identity number of the interface object of a symbol"""
        o = sym.interface
        if id(o) not in self.ifaces:
            self.extra += 1
            self.ifaces[id(o)] = (900000 + self.extra, o)
        return self.ifaces[id(o)][0]

    def reg_decl_nodes(self, sym):
        """new expression objects in the declaration of `sym` (after an edit) get new identities"""
        for n in decl_nodes(sym):
            if id(n) not in self.nodes:
                self.nodes[id(n)] = (self.next_node, n)
                self.next_node += 1

    def decl(self, sym):
        """[links, datatype expression forest, initial value forest] of a symbol in the model's format"""
        return [[self.sid(d) for d in sym_links(sym)], [self.tree(n) for n in bounds_roots(sym)],
                [self.tree(n) for n in init_roots(sym)]]

    def nid(self, node):
        if id(node) not in self.nodes:
            self.extra += 1
            self.nodes[id(node)] = (900000 + self.extra, node)
        return self.nodes[id(node)][0]

    def name_id(self, name):
        if name not in self.names:
            self.names[name] = len(self.names) + 1
        return self.names[name]

    def lower_table(self):
        """SymbolTable._normalize on name ids: entry i = id of the normalised form of name i (entry 0 unused)"""
        from psyclone.psyir.symbols import SymbolTable
        norm = SymbolTable._normalize   # pylint: disable=protected-access
        for name in list(self.names):
            self.name_id(norm(name))
        tab = [0] * (len(self.names) + 1)
        for name, i in self.names.items():
            tab[i] = self.names[norm(name)]
        return tab

    def kind_id(self, node):
        k = type(node).__name__
        if k not in self.kinds:
            self.kinds[k] = len(self.kinds)
        return self.kinds[k]

    def node_by(self, i):
        for j, n in self.nodes.values():
            if j == i:
                return n
        raise KeyError(i)

    def sym_by(self, i):
        for j, s in self.syms.values():
            if j == i:
                return s
        raise KeyError(i)

    # -- export --------------------------------------------------------------------------------
    def tree(self, node):
        from psyclone.psyir.nodes import ScopingNode
        s, t = node_sym(node), node_tsym(node)
        tab = "-"
        if isinstance(node, ScopingNode):
            tab = [self.sid(x) for x in node.symbol_table.symbols]
        return [self.nid(node), self.kind_id(node), -1 if s is None else self.sid(s),
                -1 if t is None else self.sid(t), tab, [self.tree(c) for c in node.children]]

    def export(self):
        trees = [self.tree(r) for r in self.roots]
        recs = {}

        def rec(s):
            return [self.name_id(s.name)] + self.decl(s) + [self.iid(s), fresh_iface(s)]
        for i, s in list(self.syms.values()):
            recs[i] = rec(s)
        # dependencies may have registered unknown objects
        for i, s in list(self.syms.values()):
            if i not in recs:
                recs[i] = rec(s)
        table = [recs.get(i, [0, [], [], [], 0, 0]) for i in range(self.nsym)]
        stray = sorted(i for i in recs if i >= self.nsym)
        acc = {i: access_of(o) for i, o in self.ifaces.values()}
        stray += sorted(900000 + i for i in acc if i >= self.nif)
        accs = [acc.get(i, 0) for i in range(self.nif)]
        return [[self.nsym, self.nnode, self.nif], table, accs, trees], stray


def fresh_iface(sym):
    """does copying the symbol (copy() + deep_copy) give the copy an interface object of its own?"""
    from psyclone.psyir.symbols import Symbol, ContainerSymbol
    # pylint: disable=unidiomatic-typecheck
    return 1 if (type(sym) is Symbol or isinstance(sym, ContainerSymbol) or sym.is_import) else 0


def access_of(iface):
    """the mutable state of an interface object as a number"""
    a = getattr(iface, "access", None)
    return 0 if a is None else int(a.value)


def local(table, name):
    """the symbol of that name declared in this very table, or None"""
    return table.symbols_dict.get(name.lower())


def node_sym(node):
    from psyclone.psyir.nodes import Reference, Loop, Routine
    if isinstance(node, Reference):
        return node.symbol
    if isinstance(node, Loop):
        return node._variable   # pylint: disable=protected-access
    if isinstance(node, Routine):
        return node.return_symbol
    return None


def node_tsym(node):
    from psyclone.psyir.nodes import Literal
    from psyclone.psyir.symbols import DataSymbol
    if isinstance(node, Literal):
        p = getattr(node.datatype, "precision", None)
        if isinstance(p, DataSymbol):
            return p
    return None


def node_syms(node):
    return [s for s in (node_sym(node), node_tsym(node)) if s is not None]


def expr_syms(expr):
    from psyclone.psyir.nodes import Node
    out = []
    for n in expr.walk(Node):
        out += node_syms(n)
    return out


def type_links(dt):
    """the symbols a datatype refers to directly (not through an expression node)"""
    from psyclone.psyir.symbols import DataTypeSymbol, DataSymbol, ScalarType, ArrayType, StructureType
    if isinstance(dt, DataTypeSymbol):
        return [dt]
    if isinstance(dt, ScalarType):
        return [dt.precision] if isinstance(dt.precision, DataSymbol) else []
    if isinstance(dt, ArrayType):
        out = type_links(dt.datatype)
        if isinstance(dt.intrinsic, DataTypeSymbol) and not any(dt.intrinsic is x for x in out):
            out.append(dt.intrinsic)
        if isinstance(dt.precision, DataSymbol) and not any(dt.precision is x for x in out):
            out.append(dt.precision)
        return out
    if isinstance(dt, StructureType):
        out = []
        for c in dt.components.values():
            out += type_links(c.datatype)
        return out
    return []


def type_roots(dt):
    """the root expression nodes held by a datatype object: array bounds, default initialisers of components"""
    from psyclone.psyir.symbols import ArrayType, StructureType, DataType
    out = []
    if isinstance(dt, ArrayType):
        if isinstance(dt.datatype, DataType):
            out += type_roots(dt.datatype)
        for dim in dt._shape:   # pylint: disable=protected-access
            if isinstance(dim, ArrayType.ArrayBounds):
                out += [dim.lower, dim.upper]
    elif isinstance(dt, StructureType):
        for c in dt.components.values():
            if isinstance(c.datatype, DataType):
                out += type_roots(c.datatype)
            if c.initial_value is not None:
                out.append(c.initial_value)
    return out


def sym_links(sym):
    from psyclone.psyir.symbols import ImportInterface, GenericInterfaceSymbol, DataTypeSymbol
    out = []
    dt = getattr(sym, "datatype", None)
    if dt is not None and not (isinstance(sym, DataTypeSymbol) and dt is sym):
        out += type_links(dt)
    if isinstance(sym.interface, ImportInterface):
        out.append(sym.interface.container_symbol)
    if isinstance(sym, GenericInterfaceSymbol):
        out += [r.symbol for r in sym.routines]
    return out


def bounds_roots(sym):
    from psyclone.psyir.symbols import DataType
    dt = getattr(sym, "datatype", None)
    return type_roots(dt) if isinstance(dt, DataType) else []


def init_roots(sym):
    from psyclone.psyir.symbols import DataSymbol
    if isinstance(sym, DataSymbol) and sym.initial_value is not None:
        return [sym.initial_value]
    return []


def sym_deps(sym):
    """the symbols that the declaration of `sym` uses: direct links (kind, type symbol, import container,
    generic-interface routines), then those used by the datatype's expressions, then by the initial value"""
    out = sym_links(sym)
    for n in bounds_roots(sym) + init_roots(sym):
        out += expr_syms(n)
    return out


def apply_tweaks(root, tweaks):
    from psyclone.psyir.nodes import Schedule, Routine, Reference, Assignment, Literal, ArrayReference
    from psyclone.psyir.symbols import DataSymbol, ArrayType, ScalarType, INTEGER_TYPE
    for tw in tweaks:
        if tw[0] == "ltype":
            define_type(root, tw)
        if tw[0] == "case":
            respell_symbols(root, tw)
        if tw[0] == "apisym":
            api_symbols(root, tw)
        if tw[0] != "inner":
            continue
        scheds = [s for s in root.walk(Schedule) if not isinstance(s, Routine)]
        if not scheds:
            continue
        sched = scheds[tw[1] % len(scheds)]
        rt = sched.ancestor(Routine)
        k = local(rt.symbol_table, "k") if tw[3] else None
        m = local(rt.symbol_table, "m") if tw[4] else None
        prec = k if isinstance(k, DataSymbol) else ScalarType.Precision.SINGLE
        bound = Reference(m) if isinstance(m, DataSymbol) else Literal("4", INTEGER_TYPE)
        sym = sched.symbol_table.new_symbol(tw[2], symbol_type=DataSymbol,
                                            datatype=ArrayType(ScalarType(ScalarType.Intrinsic.REAL, prec), [bound]))
        sched.addchild(Assignment.create(ArrayReference.create(sym, [Literal("1", INTEGER_TYPE)]),
                                         Literal("0.0", ScalarType(ScalarType.Intrinsic.REAL, prec))))


def respell_symbols(root, tw):
    """["case", "all" | "some", seed, style]: every (a seeded half of the) symbol(s) of every table of the
    tree gets a mixed-case name through `rename_symbol` (which refuses arguments, imports, containers ...:
    those keep their names).  The symbols keep the spelling, the tables are keyed by the lower-cased name."""
    import random
    from psyclone.psyir.nodes import ScopingNode, Routine
    from psyclone.psyir.symbols import RoutineSymbol
    pick = random.Random(tw[2])
    routines = {r.name.lower() for r in root.walk(Routine)}
    for n in root.walk(ScopingNode):
        tab = n.symbol_table
        for k, s in enumerate(list(tab.symbols)):
            if tw[1] != "all" and pick.random() < 0.5:
                continue
            if isinstance(s, RoutineSymbol) and s.name.lower() in routines:
                # Routine.name is a separate attribute of the node: renaming its symbol through the table
                # alone leaves the tree inconsistent (not a matter of copying)
                continue
            try:
                tab.rename_symbol(s, c15_gen.respell(s.name, tw[3] + (k if tw[1] != "all" else 0)))
            except Exception:   # pylint: disable=broad-except
                pass


def api_symbols(root, tw):
    """["apisym", r, style]: `new_symbol` with mixed-case names in routine r (an integer used as the variable
    of a new loop and as a subscript, a real assigned in the loop), as a transformation would create them"""
    from psyclone.psyir.nodes import Routine, Reference, Assignment, Literal, Loop, BinaryOperation
    from psyclone.psyir.symbols import DataSymbol, INTEGER_TYPE, REAL_TYPE
    routines = root.walk(Routine)
    if not routines:
        return
    rt = routines[tw[1] % len(routines)]
    tab = rt.symbol_table
    try:
        # with tags, as transformations create them (`deep_copy` re-builds the tag dict by name)
        ivar = tab.new_symbol(c15_gen.respell("icell", tw[2]), tag="c15_index", symbol_type=DataSymbol,
                              datatype=INTEGER_TYPE)
        tmp = tab.new_symbol(c15_gen.respell("tmp", tw[2] + 1), tag="c15_tmp", symbol_type=DataSymbol,
                             datatype=REAL_TYPE)
        body = [Assignment.create(Reference(tmp), BinaryOperation.create(
            BinaryOperation.Operator.ADD, Reference(tmp), Literal("1.0", REAL_TYPE))),
                Assignment.create(Reference(tmp), BinaryOperation.create(
                    BinaryOperation.Operator.MUL, Reference(tmp), Reference(ivar)))]
        rt.addchild(Loop.create(ivar, Literal("1", INTEGER_TYPE), Literal("4", INTEGER_TYPE),
                                Literal("1", INTEGER_TYPE), body))
    except Exception:   # pylint: disable=broad-except
        pass


def define_type(root, tw):
    """["ltype", r, name]: a derived type defined in routine r (module if r < 0); its components use
    parameters of that very scope as kind, array bound and in default initialisers"""
    from psyclone.psyir.nodes import Routine, Container, FileContainer, Reference, Literal, BinaryOperation
    from psyclone.psyir.symbols import (DataSymbol, DataTypeSymbol, ArrayType, ScalarType, StructureType, Symbol,
                                        INTEGER_TYPE)
    if tw[1] < 0:
        scopes = [c for c in root.walk(Container) if not isinstance(c, FileContainer)]
        kn, bn = "gk", "gn"
    else:
        scopes = root.walk(Routine)
        kn, bn = "k", "m"
    if not scopes:
        return
    tab = scopes[tw[1] % len(scopes)].symbol_table
    k, m = local(tab, kn), local(tab, bn)
    if not isinstance(k, DataSymbol) or not isinstance(m, DataSymbol):
        return
    real_k = ScalarType(ScalarType.Intrinsic.REAL, k)
    pub = Symbol.Visibility.PUBLIC
    st = StructureType.create([
        ("a", real_k, pub, Literal("1.5", real_k)),
        ("b", ArrayType(real_k, [Reference(m)]), pub, None),
        ("c", INTEGER_TYPE, pub, BinaryOperation.create(BinaryOperation.Operator.ADD, Reference(m),
                                                        Literal("1", INTEGER_TYPE)))])
    ts = tab.new_symbol(tw[2], symbol_type=DataTypeSymbol, datatype=st)
    tab.new_symbol(tw[2] + "_v", symbol_type=DataSymbol, datatype=ts)
    tab.new_symbol(tw[2] + "_vs", symbol_type=DataSymbol, datatype=ArrayType(ts, [Reference(m)]))


def decl_nodes(sym):
    """the expression nodes that belong to the declaration of a symbol (datatype, then initial value), pre-order"""
    from psyclone.psyir.nodes import Node
    out = []
    for n in bounds_roots(sym) + init_roots(sym):
        out += n.walk(Node)
    return out


def frontend_broken(root):
    """programs on which the frontend itself produced an inconsistent table (a constant without an
    initial value) cannot be copied at all; not a C15 matter (reported in the evidence)"""
    from psyclone.psyir.nodes import ScopingNode
    from psyclone.psyir.symbols import DataSymbol
    for n in root.walk(ScopingNode):
        for s in n.symbol_table.symbols:
            if isinstance(s, DataSymbol) and s.is_constant and s.initial_value is None \
                    and not (s.is_import or s.is_unresolved):
                return True
    return False


def write(node):
    from psyclone.psyir.backend.fortran import FortranWriter
    try:
        return FortranWriter()(node)
    except Exception as e:   # pylint: disable=broad-except
        return f"EXC {type(e).__name__}: {e}"


# ---------------------------------------------------------------------------------------------
# the copy and the property clauses on the real objects
# ---------------------------------------------------------------------------------------------
def do_copy(ctx, r):
    """copies node number r; registers the new objects under the identities the model gives them.
    -> failure dict or None"""
    from psyclone.psyir.nodes import Node, ScopingNode
    node = ctx.node_by(r)
    ctx.sub = node
    try:
        c = node.copy()
    except Exception as e:   # pylint: disable=broad-except
        return {"clause": "copy", "observed": f"copy() raised {type(e).__name__}: {e}",
                "expected": "a copy"}
    ctx.copy = c
    ctx.roots.append(c)
    on, cn = node.walk(Node), c.walk(Node)
    fail = None
    if len(on) != len(cn) or any(type(a) is not type(b) for a, b in zip(on, cn)):
        fail = {"clause": "equal", "observed": "the copy has a different shape: "
                f"{[type(x).__name__ for x in cn][:20]}", "expected": f"{[type(x).__name__ for x in on][:20]}"}
    for a, b in zip(on, cn):
        if id(b) in ctx.nodes and fail is None:
            fail = {"clause": "disjoint", "observed": f"node {ctx.nodes[id(b)][0]} ({type(b).__name__}) of the "
                    "original is also a node of the copy", "expected": "no shared node"}
        ctx.nodes.setdefault(id(b), (ctx.nodes[id(a)][0] + ctx.N, b))
        if isinstance(a, ScopingNode) and isinstance(b, ScopingNode):
            for s in b.symbol_table.symbols:
                o = local(a.symbol_table, s.name)
                if id(s) in ctx.syms:
                    if fail is None:
                        fail = {"clause": "disjoint", "observed": f"symbol '{s.name}' (#{ctx.syms[id(s)][0]}) of a "
                                f"copied scope is shared by the table of the copy", "expected": "a new symbol"}
                elif o is not None:
                    ctx.syms[id(s)] = (ctx.syms[id(o)][0] + ctx.M, s)
                    if id(s.interface) not in ctx.ifaces and id(o.interface) in ctx.ifaces:
                        ctx.ifaces[id(s.interface)] = (ctx.ifaces[id(o.interface)][0] + ctx.F, s.interface)
                    for x, y in zip(decl_nodes(o), decl_nodes(s)):
                        if id(y) not in ctx.nodes and id(x) in ctx.nodes:
                            ctx.nodes[id(y)] = (ctx.nodes[id(x)][0] + ctx.N, y)
    ctx.nsym, ctx.nnode, ctx.nif = 2 * ctx.M, 2 * ctx.N, 2 * ctx.F
    ctx.copy_nodes = cn
    ctx.sub_owned = [s for n in node.walk(ScopingNode) for s in n.symbol_table.symbols]
    ctx.copy_owned = [s for n in c.walk(ScopingNode) for s in n.symbol_table.symbols]
    if fail is None:
        try:
            eq = (c == node)
        except Exception as e:   # pylint: disable=broad-except
            eq = f"raised {type(e).__name__}: {e}"
        if eq is not True:
            fail = {"clause": "equal", "observed": f"c == node is {eq}", "expected": "True"}
    if fail is None:
        fail = refs_internal(ctx)
    if fail is None:
        fail = decl_nodes_disjoint(ctx)
    if fail is None:
        fail = original_untouched(ctx)
    if fail is None:
        fail = generic_leak(ctx, skip=tuple(a.split(".")[1].split(" ")[0] for a in c15_holders.KNOWN_DEFECT))
    # holders that exist only through a listed defect are reported apart (they must not mask anything)
    ctx.known_leak = generic_leak(ctx, only=tuple(a.split(".")[1].split(" ")[0] for a in c15_holders.KNOWN_DEFECT))
    return fail


def generic_leak(ctx, skip=(), only=None):
    """the generic form of disjoint + internal, by introspection: NO attribute path at all leads from the copy to
    a symbol of the original's copied scopes or to a node of the original subtree / of its declarations"""
    from psyclone.psyir.nodes import Node
    own_nodes = list(ctx.sub.walk(Node))
    for s in ctx.sub_owned:
        own_nodes += decl_nodes(s)
    lk = c15_holders.leaks(ctx.copy, ctx.sub_owned, own_nodes, skip=skip, only=only)
    if lk is None:
        return None
    path, obj = lk
    what = f"symbol '{obj.name}'" if hasattr(obj, "interface") else f"node {type(obj).__name__}"
    return {"clause": "leak", "observed": f"the copy reaches {what} of the ORIGINAL's copied subtree through the "
            f"attribute path {path}", "expected": "nothing of the original's copied subtree is reachable from the copy"}


def decl_nodes_disjoint(ctx):
    """no expression node inside the declarations (array bounds, initial values, default initialisers of
    derived-type components) of the copied scopes is shared by the two trees"""
    mine = {}
    for s in ctx.sub_owned:
        for n in decl_nodes(s):
            mine[id(n)] = (s, n)
    for s in ctx.copy_owned:
        for n in decl_nodes(s):
            if id(n) in mine:
                o = mine[id(n)][0]
                try:
                    txt = n.debug_string().strip()
                except Exception:   # pylint: disable=broad-except
                    txt = type(n).__name__
                return {"clause": "disjoint",
                        "observed": f"the declaration of '{s.name}' in the copy and of '{o.name}' in the original share "
                                    f"the expression node {type(n).__name__} '{txt}'",
                        "expected": "no shared node"}
    return None


def original_untouched(ctx):
    """copy() must not re-point anything in the original at the copy's symbols"""
    own_copy = {id(s) for s in ctx.copy_owned}
    from psyclone.psyir.nodes import ScopingNode
    for s, how in reachable_syms(ctx, ctx.root, [x for n in ctx.root.walk(ScopingNode)
                                                 for x in n.symbol_table.symbols]):
        if id(s) in own_copy:
            return {"clause": "refs_internal",
                    "observed": f"after the copy the ORIGINAL uses symbol '{s.name}' (#{ctx.syms[id(s)][0]}) of the "
                                f"copy through: {how}",
                    "expected": "the original keeps using its own symbol"}
    return None


def reachable_syms(ctx, root, owned):
    """(symbol, how) for every symbol the written code of `root` reads"""
    from psyclone.psyir.nodes import Node
    out = []
    for n in root.walk(Node):
        s, t = node_sym(n), node_tsym(n)
        if s is not None:
            out.append((s, f"{type(n).__name__} node"))
        if t is not None:
            out.append((t, f"kind of {type(n).__name__} '{getattr(n, 'value', '')}'"))
    for s in owned:
        out.append((s, "table entry"))
        for d in sym_deps(s):
            out.append((d, f"declaration of '{s.name}'"))
    from psyclone.psyir.nodes import ScopingNode
    for n in root.walk(ScopingNode):
        for s in n.symbol_table.argument_list:
            out.append((s, f"argument list of {type(n).__name__}"))
        for tag, s in n.symbol_table.get_tags(scope_limit=n).items():
            out.append((s, f"tag '{tag}' of {type(n).__name__}"))
    return out


def refs_internal(ctx):
    own_orig = {id(s) for s in ctx.sub_owned}
    for s, how in reachable_syms(ctx, ctx.copy, ctx.copy_owned):
        if id(s) in own_orig:
            return {"clause": "refs_internal",
                    "observed": f"the copy uses symbol '{s.name}' (#{ctx.syms[id(s)][0]}) of the ORIGINAL's copied "
                                f"scope through: {how}",
                    "expected": "the copy's own symbol of that name"}
    return None


def closed(ctx):
    own = {id(s) for s in ctx.sub_owned}
    return all(id(s) in own for s, _ in reachable_syms(ctx, ctx.sub, ctx.sub_owned))


def shared_attrs(ctx, acc):
    """object-graph walk: attributes of corresponding nodes / symbols that are the same (mutable) object"""
    import enum
    from psyclone.psyir.nodes import Node

    def immut(v):
        return v is None or isinstance(v, (str, int, float, bool, enum.Enum, frozenset, type)) or \
            (isinstance(v, tuple) and all(immut(x) for x in v))
    for a, b in zip(ctx.sub.walk(Node), ctx.copy_nodes):
        for k, v in vars(a).items():
            w = vars(b).get(k)
            if w is v and not immut(v):
                key = f"{type(a).__name__}.{k}:{type(v).__name__}"
                acc[key] = acc.get(key, 0) + 1
    byname = {}
    for s in ctx.sub_owned:
        byname.setdefault(s.name, s)
    for b in ctx.copy_owned:
        a = byname.get(b.name)
        if a is None:
            continue
        for k, v in vars(a).items():
            w = vars(b).get(k)
            if w is v and not immut(v):
                key = f"{type(a).__name__}.{k}:{type(v).__name__}"
                acc[key] = acc.get(key, 0) + 1


# ---------------------------------------------------------------------------------------------
# edits
# ---------------------------------------------------------------------------------------------
def owner_table(ctx, sym):
    from psyclone.psyir.nodes import ScopingNode
    for r in ctx.roots:
        for n in r.walk(ScopingNode):
            if any(s is sym for s in n.symbol_table.symbols):
                return n
    return None


def mk_type(ctx, kind_sid, bound_sids):
    from psyclone.psyir.nodes import Reference
    from psyclone.psyir.symbols import ScalarType, ArrayType
    prec = ScalarType.Precision.SINGLE if kind_sid < 0 else ctx.sym_by(kind_sid)
    st = ScalarType(ScalarType.Intrinsic.REAL, prec)
    if not bound_sids:
        return st
    return ArrayType(st, [Reference(ctx.sym_by(b)) for b in bound_sids])


def apply_real(ctx, ed):
    """apply one edit descriptor to the real objects; -> the model's edit, or None if the real code
    refused it (an exception)"""
    from psyclone.psyir.symbols import DataSymbol, Symbol
    try:
        if ed[0] == "rename":
            s = ctx.sym_by(ed[1])
            o = owner_table(ctx, s)
            o.symbol_table.rename_symbol(s, ed[2])
            return [["rename", ctx.nodes[id(o)][0], ed[1], ctx.name_id(ed[2])]]
        if ed[0] == "setdeps":
            s = ctx.sym_by(ed[1])
            s.datatype = mk_type(ctx, ed[2], ed[3])
            ctx.reg_decl_nodes(s)
            return [["setdecl", ed[1]] + ctx.decl(s)]
        if ed[0] == "setinit":
            from psyclone.psyir.nodes import Reference, Literal, BinaryOperation
            from psyclone.psyir.symbols import INTEGER_TYPE
            s = ctx.sym_by(ed[1])
            s.initial_value = BinaryOperation.create(BinaryOperation.Operator.ADD, Reference(ctx.sym_by(ed[2])),
                                                     Literal(str(ed[3]), INTEGER_TYPE))
            ctx.reg_decl_nodes(s)
            return [["setdecl", ed[1]] + ctx.decl(s)]
        if ed[0] == "specialise":
            s = ctx.sym_by(ed[1])
            s.specialise(DataSymbol, datatype=mk_type(ctx, ed[2], ed[3]))
            ctx.reg_decl_nodes(s)
            return [["setdecl", ed[1]] + ctx.decl(s), ["setfresh", ed[1], fresh_iface(s)]]
        if ed[0] == "setiface":
            from psyclone.psyir.symbols import ArgumentInterface
            s = ctx.sym_by(ed[1])
            s.interface = ArgumentInterface(ArgumentInterface.Access(ed[2]))
            ctx.ifaces[id(s.interface)] = (ctx.nif, s.interface)
            ctx.nif += 1
            return [["setiface", ed[1], ed[2]]]
        if ed[0] == "addsym":
            p = ctx.node_by(ed[1])
            if ed[5] == "generic":
                s = p.symbol_table.new_symbol(ed[2], symbol_type=Symbol)
            else:
                s = p.symbol_table.new_symbol(ed[2], symbol_type=DataSymbol, datatype=mk_type(ctx, ed[3], ed[4]))
            ctx.reg(s, ctx.nsym)
            ctx.nsym += 1
            ctx.ifaces[id(s.interface)] = (ctx.nif, s.interface)
            ctx.nif += 1
            ctx.reg_decl_nodes(s)
            return [["addsym", ed[1], ctx.name_id(s.name)] + ctx.decl(s) + [fresh_iface(s)]]
        if ed[0] == "setaccess":
            from psyclone.psyir.symbols import ArgumentInterface
            s = ctx.sym_by(ed[1])
            s.interface.access = ArgumentInterface.Access(ed[2])
            return [["setaccess", ctx.iid(s), ed[2]]]
        if ed[0] == "removesym":
            p, s = ctx.node_by(ed[1]), ctx.sym_by(ed[2])
            p.symbol_table.remove(s)
            return [["removesym", ed[1], ed[2]]]
        if ed[0] == "setsym":
            ctx.node_by(ed[1]).symbol = ctx.sym_by(ed[2])
            return [["setsym", ed[1], ed[2]]]
        if ed[0] == "detach":
            x = ctx.node_by(ed[1])
            if x.parent is not None:
                x.detach()
                ctx.roots.append(x)
            return [["detach", ed[1]]]
        if ed[0] == "attach":
            p, x = ctx.node_by(ed[1]), ctx.node_by(ed[3])
            p.children.insert(ed[2], x)
            ctx.roots = [r for r in ctx.roots if r is not x]
            return [["attach", ed[1], ed[2], ed[3]]]
    except Exception as e:   # pylint: disable=broad-except
        ctx.notes.append(f"{ed[0]} refused: {type(e).__name__}")
        return None
    raise common.Infra("unknown edit " + str(ed))


def gen_edit(ctx, rng, side, counter):
    """one edit descriptor addressing only `side` ('orig' | 'copy'), drawn from the current state"""
    from psyclone.psyir.nodes import Node, ScopingNode, Reference, Schedule, Statement, Routine, Call
    from psyclone.psyir.symbols import DataSymbol, ScalarType, ArrayType, Symbol, RoutineSymbol
    if side == "orig":
        in_side_node = lambda i: i < ctx.N
        if ctx.is_closed:
            in_side_sym = lambda i: i < ctx.M or i >= 2 * ctx.M
        else:
            own = {ctx.syms[id(s)][0] for s in ctx.sub_owned}
            in_side_sym = lambda i: i in own or (i >= 2 * ctx.M and i in ctx.added.get("orig", set()))
        use_sym = lambda i: i < ctx.M or i in ctx.added.get("orig", set())
    else:
        in_side_node = lambda i: ctx.N <= i < 2 * ctx.N
        in_side_sym = lambda i: ctx.M <= i < 2 * ctx.M or i in ctx.added.get("copy", set())
        use_sym = in_side_sym
    nodes = [(i, n) for i, n in ctx.nodes.values() if in_side_node(i)]
    syms = [(i, s) for i, s in ctx.syms.values() if in_side_sym(i) and owner_table(ctx, s) is not None]
    usable = [(i, s) for i, s in ctx.syms.values() if use_sym(i)]

    def int_scalars():
        return [i for i, s in usable if isinstance(s, DataSymbol) and isinstance(s.datatype, ScalarType)
                and s.datatype.intrinsic == ScalarType.Intrinsic.INTEGER]

    kindc = rng.choice(["rename"] * 5 + ["setdeps"] * 2 + ["addsym"] * 2 + ["removesym", "setsym", "setsym", "detach",
                                                                           "detach", "attach", "attach", "setinit",
                                                                           "specialise", "setiface", "setaccess"])
    if kindc in ("setiface", "setaccess"):
        # the interface object of an argument is replaced / its access is changed
        args = [(i, s) for i, s in usable if s.is_argument and owner_table(ctx, s) is not None
                and (in_side_sym(i) if kindc == "setiface" or side == "copy" else True)]
        if args:
            i, s = rng.choice(args)
            other_acc = [a for a in (1, 2, 3, 4) if a != access_of(s.interface)]
            return [kindc, i, rng.choice(other_acc)]
    if kindc == "setinit":
        c = [(i, s) for i, s in syms if isinstance(s, DataSymbol) and s.is_constant and s.initial_value is not None
             and isinstance(s.datatype, ScalarType) and s.datatype.intrinsic == ScalarType.Intrinsic.INTEGER]
        ints = [i for i in int_scalars()]
        if c and ints:
            i, s = rng.choice(c)
            cand = [j for j in ints if j != i]
            if cand:
                return ["setinit", i, rng.choice(cand), rng.randint(1, 9)]
    if kindc == "specialise":
        # pylint: disable=unidiomatic-typecheck
        c = [(i, s) for i, s in syms if type(s) is Symbol and not s.is_import]
        ints = int_scalars()
        if c:
            i, s = rng.choice(c)
            k = rng.choice(ints) if ints and rng.random() < 0.6 else -1
            b = [rng.choice(ints) for _ in range(rng.randint(0, 2))] if ints else []
            return ["specialise", i, k, b]
    if kindc == "rename" and syms:
        # prefer symbols that other declarations depend on (kinds, bounds, initial values)
        used = {id(d) for _, s in ctx.syms.values() for d in sym_deps(s)}
        pref = [(i, s) for i, s in syms if id(s) in used]
        i, s = rng.choice(pref if pref and rng.random() < 0.7 else syms)
        return ["rename", i, f"{s.name}_{rng.choice(['r', 'R', 'rN'])}{counter}"]
    if kindc == "setdeps":
        c = [(i, s) for i, s in syms if isinstance(s, DataSymbol) and not s.is_argument and not s.is_import
             and isinstance(s.datatype, (ArrayType, ScalarType)) and s.initial_value is None
             and s.datatype.intrinsic == ScalarType.Intrinsic.REAL]
        ints = int_scalars()
        if c:
            i, s = rng.choice(c)
            k = rng.choice(ints) if ints and rng.random() < 0.6 else -1
            b = [rng.choice(ints) for _ in range(rng.randint(0, 2))] if ints else []
            return ["setdeps", i, k, b]
    if kindc == "addsym":
        scopes = [(i, n) for i, n in nodes if isinstance(n, ScopingNode)]
        if scopes:
            i, n = rng.choice(scopes)
            ints = int_scalars()
            if rng.random() < 0.3:
                return ["addsym", i, f"{rng.choice(['gen', 'genSym'])}{counter}", -1, [], "generic"]
            k = rng.choice(ints) if ints and rng.random() < 0.6 else -1
            b = [rng.choice(ints) for _ in range(rng.randint(0, 2))] if ints else []
            return ["addsym", i, f"{rng.choice(['new', 'newVal', 'NEW'])}{counter}", k, b, "data"]
    if kindc == "removesym":
        c = []
        for i, s in syms:
            # pylint: disable=unidiomatic-typecheck
            if type(s) is Symbol or (isinstance(s, RoutineSymbol) and rng.random() < 0.3):
                o = owner_table(ctx, s)
                c.append((ctx.nodes[id(o)][0], i))
        if c:
            p, i = rng.choice(c)
            return ["removesym", p, i]
    if kindc == "setsym":
        # References of the trees and References inside declarations (array bounds, initialisers)
        refs = [(i, n) for i, n in nodes if type(n) is Reference and not isinstance(n.parent, Call)]
        tgt = [i for i, s in usable if isinstance(s, DataSymbol) and isinstance(s.datatype, ScalarType)]
        if refs and tgt:
            return ["setsym", rng.choice(refs)[0], rng.choice(tgt)]
    if kindc == "detach":
        c = [(i, n) for i, n in nodes if isinstance(n, Statement) and isinstance(n.parent, Schedule)
             and not isinstance(n, Routine)]
        if c:
            return ["detach", rng.choice(c)[0]]
    if kindc == "attach":
        orphans = [(i, n) for i, n in nodes if isinstance(n, Statement) and n.parent is None
                   and not isinstance(n, Routine) and any(n is r for r in ctx.roots)
                   and n is not ctx.copy and n is not ctx.root]
        scheds = [(i, n) for i, n in nodes if isinstance(n, Schedule)]
        if orphans and scheds:
            xi, x = rng.choice(orphans)
            below = {id(d) for d in x.walk(Node)}
            scheds = [(i, n) for i, n in scheds if id(n) not in below]
            if scheds:
                pi, p = rng.choice(scheds)
                return ["attach", pi, rng.randint(0, len(p.children)), xi]
    # fall back to a rename or nothing
    if syms:
        i, s = rng.choice(syms)
        return ["rename", i, f"{s.name}_r{counter}"]
    return None


# ---------------------------------------------------------------------------------------------
# one case
# ---------------------------------------------------------------------------------------------
def run_case(src, tweaks, r, side, edits=None, rng=None, nedits=0, want_model=True):
    """-> dict(status, fail, line, real1, real2, applied, r, ...).  With `edits` given they are replayed,
    otherwise `nedits` edits are generated from `rng`."""
    out = {"status": "ok", "fail": None}
    ctx = Ctx(src, tweaks)
    if frontend_broken(ctx.root):
        return {"status": "frontend-broken"}
    r = r % ctx.T
    out["r"] = r
    out["node_class"] = type(ctx.node_by(r)).__name__
    w0, _ = ctx.export()
    fail = do_copy(ctx, r)
    if ctx.copy is None:
        out.update(status="fail", fail=fail)
        return out
    out["known_leak"] = getattr(ctx, "known_leak", None)
    ctx.is_closed = closed(ctx)
    ctx.added = {}
    out["closed"] = ctx.is_closed
    out["ctx"] = ctx
    w1, stray1 = ctx.export()
    out["real1"] = sx(w1)
    out["stray1"] = stray1
    # written code of both sides before the edits
    other = ctx.copy if side == "orig" else ctx.root
    before = write(other)
    applied, model_edits = [], []
    k = 0
    todo = list(edits) if edits is not None else None
    while (todo if todo is not None else k < nedits):
        if todo is not None:
            ed = todo.pop(0)
        else:
            ed = gen_edit(ctx, rng, side, k)
            k += 1
            if ed is None:
                continue
        before_n = ctx.nsym
        me = apply_real(ctx, ed)
        if me is None:
            continue
        if ed[0] == "addsym":
            ctx.added.setdefault(side, set()).add(before_n)
        applied.append(ed)
        model_edits += me
    after = write(other)
    w2, stray2 = ctx.export()
    out["real2"] = sx(w2)
    out["stray2"] = stray2
    out["applied"] = applied
    out["text_kept"] = (before == after)
    if fail is None and before != after:
        fail = {"clause": "edit_independent", "edited_side": side,
                "observed": "written code of the " + ("copy" if side == "orig" else "original") +
                            " changed:\n" + first_diff(before, after),
                "expected": "unchanged text"}
    elif fail is not None and before != after and "written code" not in fail["observed"]:
        fail = dict(fail, observed=fail["observed"] + "\nand after the edits the written code of the " +
                    ("copy" if side == "orig" else "original") + " changed:\n" + first_diff(before, after))
    out["keys_ok"] = table_keys_ok(ctx)
    if want_model:
        out["line"] = sx([MODE, w0[0], w0[1], w0[2], w0[3], r, model_edits, ctx.lower_table()])
    if fail is not None:
        out.update(status="fail", fail=fail)
    return out


def table_keys_ok(ctx):
    """the assumption `TablesKeyed` + `key` of the model on the real tables: every table is a dict keyed by
    `_normalize(name)` of its symbols, in the order of `symbols`; -> None or a description of the table that is not"""
    from psyclone.psyir.nodes import ScopingNode
    from psyclone.psyir.symbols import SymbolTable
    norm = SymbolTable._normalize   # pylint: disable=protected-access
    for r in ctx.roots:
        for n in r.walk(ScopingNode):
            tab = n.symbol_table
            keys = list(tab.symbols_dict.keys())
            want = [norm(s.name) for s in tab.symbols]
            if keys != want or len(set(keys)) != len(keys):
                return f"table of {type(n).__name__}: keys {keys[:12]} but normalised names {want[:12]}"
            for s in tab.symbols:
                if tab.lookup(s.name, scope_limit=n) is not s or (s.name in tab) is not True:
                    return f"table of {type(n).__name__}: lookup('{s.name}') is not the symbol of that name"
    return None


def first_diff(a, b):
    la, lb = a.splitlines(), b.splitlines()
    for i in range(max(len(la), len(lb))):
        x = la[i] if i < len(la) else "<end>"
        y = lb[i] if i < len(lb) else "<end>"
        if x != y:
            return f"  line {i + 1} before: {x.strip()}\n  line {i + 1} after:  {y.strip()}"
    return "  (no line differs)"


def payload_of(src, tweaks, res, side):
    f = res["fail"]
    return {"kind": "failing-input", "source": src, "tweaks": tweaks, "node": res.get("r"),
            "node_class": res.get("node_class"), "edited_side": side, "edits": res.get("applied", []),
            "clause": f["clause"], "observed": f["observed"], "expected": f["expected"]}


def shrink_edits(src, tweaks, r, side, edits):
    """drop edits while the written code of the other side still changes"""
    changed = True
    while changed and len(edits) > 1:
        changed = False
        for j in range(len(edits) - 1, -1, -1):
            cand = edits[:j] + edits[j + 1:]
            res = run_case(src, tweaks, r, side, edits=cand, want_model=False)
            if res["status"] == "fail" and res["fail"]["clause"] == "edit_independent" \
                    and len(res["applied"]) == len(cand):
                edits, changed = cand, True
                break
    return edits


CORPUS = [
    # the probed defect: kind / bound / initial-value parameters of the copied routine
    ("module tmod\n  implicit none\ncontains\n  subroutine s0(n)\n    integer, parameter :: m = 10, k = 8\n"
     "    integer, parameter :: q = m + 1\n    integer, intent(in) :: n\n    real(kind=k), dimension(m) :: t\n"
     "    integer :: i\n    do i = 1, m\n      t(i) = real(q, kind=k) + 1.0_k\n    end do\n  end subroutine s0\n"
     "end module tmod\n", [], "Routine", "orig",
     [["rename", "m", "mm"], ["rename", "k", "kk"]]),
    # an inner scope whose symbol uses the routine's parameters
    ("module tmod\n  implicit none\ncontains\n  subroutine s0(n)\n    integer, parameter :: m = 10, k = 8\n"
     "    integer, intent(in) :: n\n    integer :: i\n    real :: x\n    do i = 1, m\n      x = 1.0\n    end do\n"
     "  end subroutine s0\nend module tmod\n", [["inner", 0, "tmp0", True, True]], "Routine", "orig",
     [["rename", "m", "mm"]]),
    # whole file copied, module-level kind used by literals
    ("module tmod\n  implicit none\n  integer, parameter :: gk = 8\ncontains\n  subroutine s0(x)\n"
     "    real(kind=gk), intent(inout) :: x\n    x = x + 2.0_gk\n  end subroutine s0\nend module tmod\n",
     [], "FileContainer", "orig", [["rename", "gk", "gkk"]]),
    # a derived type defined in the copied routine whose component initialiser uses a local parameter
    # (seeded/C15: the initialiser expression was shared and re-pointed at the copy's symbol)
    ("module demo_mod\n  implicit none\n  integer, parameter :: wp = 8\ncontains\n  subroutine sub(x)\n"
     "    real(kind=wp), intent(inout) :: x\n    integer, parameter :: n0 = 4\n    type :: pt\n"
     "      integer :: k = n0 + 1\n      real(kind=wp) :: w = 2.0_wp\n    end type pt\n    type(pt) :: p\n"
     "    x = x + p%k + p%w\n  end subroutine sub\nend module demo_mod\n",
     [], "Routine", "copy", [["rename", "n0", "n_renamed"]]),
    # interface objects: the intent of an argument of the copied routine is changed in the original
    ("module mm\ncontains\n  function f(n) result(r)\n    integer, intent(in) :: n\n    real :: r\n    r = n\n"
     "  end function f\nend module mm\n", [], "Routine", "orig", [["setaccess", "n", 3]]),
    ("module demo_mod\n  implicit none\n  integer, parameter :: wp = 8\ncontains\n  subroutine sub(x)\n"
     "    real(kind=wp), intent(inout) :: x\n    integer, parameter :: n0 = 4\n    type :: pt\n"
     "      integer :: k = n0 + 1\n      real(kind=wp) :: w = 2.0_wp\n    end type pt\n    type(pt) :: p\n"
     "    x = x + p%k + p%w\n  end subroutine sub\nend module demo_mod\n",
     [["ltype", 0, "gt0"], ["ltype", -1, "gt1"]], "Container", "orig", [["rename", "n0", "n_renamed"], ["rename", "wp", "wq"]]),
]


CASE_SOURCES = [
    CORPUS[0][0], CORPUS[2][0], CORPUS[3][0],
    # a function (return symbol), an import, a container-level kind and bound, nested loops and an if body
    ("module cmod\n  use ext_mod, only: wp, ext_sub\n  implicit none\n  integer, parameter :: gk = 8, gn = 5\n"
     "  real(kind=gk), dimension(gn) :: garr\ncontains\n  function f0(a, n) result(res)\n"
     "    integer, parameter :: k = 8, m = 6\n    integer, parameter :: q = m + 2\n    integer, intent(in) :: n\n"
     "    real(kind=wp), dimension(n), intent(inout) :: a\n    real(kind=k), dimension(m, q) :: u\n"
     "    real(kind=k) :: x, res\n    integer :: i, j\n    x = 1.0_k\n    do i = 1, m\n      do j = 1, q\n"
     "        u(i, j) = garr(1) * 0.5_gk + x\n      end do\n      if (n > q) then\n        x = x + real(q, kind=k)\n"
     "      end if\n    end do\n    call ext_sub(u, n)\n    res = x\n  end function f0\n"
     "  subroutine s1(b)\n    real(kind=gk), intent(inout) :: b\n    integer :: i\n    do i = 1, gn\n"
     "      b = b + garr(i)\n    end do\n  end subroutine s1\nend module cmod\n"),
]


def case_family(full):
    """SYSTEMATIC family for identifier case: for each source x class of the copied node x side, every renamable
    symbol has a mixed-case name (given through rename_symbol / new_symbol) before the copy; after the copy up
    to three mixed-case symbols of the edited side are renamed again.  -> resolved cases"""
    out = []
    classes = ["FileContainer", "Container", "Routine", "Loop", "Schedule", "IfBlock"]
    k = 0
    for src in CASE_SOURCES:
        for cls in classes:
            for side in ("orig", "copy"):
                for style in (range(c15_gen.STYLES) if full else [k % c15_gen.STYLES]):
                    k += 1
                    tweaks = [["inner", k, "tmp0", True, True], ["apisym", k, style + 1], ["case", "all", 0, style]]
                    ctx = Ctx(src, tweaks)
                    rs = [i for i, n in sorted(ctx.nodes.values(), key=lambda t: t[0])
                          if i < ctx.T and type(n).__name__ == cls]
                    if not rs:
                        continue
                    r = rs[k % len(rs)] if cls != "Routine" else rs[0]
                    from psyclone.psyir.nodes import ScopingNode
                    owned = [s for n in ctx.node_by(r).walk(ScopingNode) for s in n.symbol_table.symbols]
                    mixed = [s for s in owned if s.name != s.name.lower()]
                    edits = [["rename", ctx.syms[id(s)][0] + (ctx.M if side == "copy" else 0), s.name + "_Ren"]
                             for s in (mixed[k % 2:] + mixed[:k % 2])[:3]]
                    out.append((src, tweaks, r, side, edits))
    return out


def corpus_case(entry):
    """resolve class / symbol names of a corpus entry into node and symbol numbers"""
    src, tweaks, cls, side, named = entry
    ctx = Ctx(src, tweaks)
    r = next(i for i, n in ctx.nodes.values() if type(n).__name__ == cls)
    node = ctx.node_by(r)
    edits = []
    for ed in named:
        if ed[0] == "rename":
            s = next(s for _, s in ctx.syms.values() if s.name == ed[1])
            edits.append(["rename", ctx.syms[id(s)][0] + (ctx.M if side == "copy" else 0), ed[2]])
        if ed[0] == "setaccess":
            s = next(s for _, s in ctx.syms.values() if s.name == ed[1])
            edits.append(["setaccess", ctx.syms[id(s)][0] + (ctx.M if side == "copy" else 0), ed[2]])
    del node
    return src, tweaks, r, side, edits


# ---------------------------------------------------------------------------------------------
def run(chk):
    chk.cov["rule"] = ("a generated module (imports, module-level kind/bound parameters, optional derived type; 1-3 "
                       "subroutines/functions with local parameters used as kinds, array bounds and initial values, "
                       "literals with kinds, nested loops/ifs, calls; 0-3 symbols declared in loop/if-body scopes), a random "
                       "node of it is copied, then up to 10 random edits of the original side or of the copy side; "
                       "non-trivial = the copied subtree declares at least one symbol whose declaration uses another "
                       "symbol of the subtree or has >= 8 nodes, and at least 2 edits were applied; distinct by canonical "
                       "JSON of (source, tweaks, node, side, edits)")
    chk.assumptions += [
        "symbol names are unique within a table (C16), so lookup(name) in the deep-copied table is the positional copy",
        "written code depends only on node classes/shape, names of the symbols used by nodes, and the declarations "
        "(names of table symbols and of the symbols their datatypes, initial values and interfaces use): C15.view",
        "node attributes other than symbol/variable/return_symbol/literal kind hold no symbols (PSyKAl nodes excluded)",
        "UnsupportedFortranType is written from its text; its partial_datatype is not followed",
        "expression nodes inside declarations (array bounds, default initialisers of derived-type components, "
        "initial values) have identities in the model (World.bounds / World.init) and are part of the exported object graph",
        "second family (PSyKAl invoke schedules of LFRic and GOcean) is checked on the real objects only; the model "
        "abstracts the helper objects held by kernel nodes as NodeRec.attr (shared by copy.copy)",
        "edits of the original may rename/retype only symbols declared in the copied scopes, unless the copied "
        "subtree uses no outer-scope symbol (outer-scope symbols are shared with the copy by design)",
    ]
    chk.cov["trusted_base"] = [
        "Lean 4.33.0 kernel", "axioms propext/Classical.choice/Quot.sound only (audited)",
        "harness/props/c15.py: export of the real object graph (which attributes of nodes, symbols and datatypes "
        "hold symbols) and the edit interpreter; FortranWriter as the observer of 'written code'",
        "C15.view as the abstraction of written code"]
    chk.lean()
    n_cases = 2500 if chk.tier == "thorough" else 170
    stats = {"node_class": {}, "side": {}, "edits": {}, "closed": 0, "frontend_broken": 0, "refused": {},
             "subtree_nodes_max": 0, "copy_failures": 0}
    shared = {}
    holders = {}
    lines, metas = [], []
    reported = [0]
    nviol = [0]
    seen_viol = set()

    def handle(src, tweaks, r, side, res, from_corpus=False):
        if res["status"] == "frontend-broken":
            stats["frontend_broken"] += 1
            return
        ctx = res.get("ctx")
        stats["node_class"][res["node_class"]] = stats["node_class"].get(res["node_class"], 0) + 1
        stats["side"][side] = stats["side"].get(side, 0) + 1
        for ed in res.get("applied", []):
            stats["edits"][ed[0]] = stats["edits"].get(ed[0], 0) + 1
        if ctx is not None:
            for n in ctx.notes:
                stats["refused"][n] = stats["refused"].get(n, 0) + 1
            stats["closed"] += bool(res.get("closed"))
            stats["subtree_nodes_max"] = max(stats["subtree_nodes_max"], len(ctx.copy_nodes))
            shared_attrs(ctx, shared)
            c15_holders.scan(ctx.roots, holders)
        if res.get("known_leak") is not None:
            stats["known_leak_cases"] = stats.get("known_leak_cases", 0) + 1
            if not any(e["id"] in c15_holders.KNOWN_DEFECT.values() for e in known) and nviol[0] < 3 \
                    and res["status"] != "fail":
                pay = payload_of(src, tweaks, dict(res, fail=res["known_leak"]), side)
                if common.h(pay) not in seen_viol:
                    seen_viol.add(common.h(pay))
                    nviol[0] += 1
                    chk.violation(pay)
        if res["status"] == "fail":
            if res["fail"]["clause"] == "edit_independent" and len(res["applied"]) > 1:
                small = shrink_edits(src, tweaks, res["r"], side, res["applied"])
                res2 = run_case(src, tweaks, res["r"], side, edits=small, want_model=False)
                if res2["status"] == "fail":
                    res2["r"] = res["r"]
                    res = dict(res, fail=res2["fail"], applied=res2["applied"])
            if classified(src, tweaks, side, res):
                stats["known_finding_cases"] = stats.get("known_finding_cases", 0) + 1
            elif nviol[0] < 3:
                pay = payload_of(src, tweaks, res, side)
                if common.h(pay) not in seen_viol:
                    seen_viol.add(common.h(pay))
                    nviol[0] += 1
                    chk.violation(pay)
        if "line" in res:
            lines.append(res["line"])
            nontriv = False
            if ctx is not None:
                own = {id(s) for s in ctx.sub_owned}
                uses = any(id(d) in own for s in ctx.sub_owned for d in sym_deps(s))
                nontriv = (uses or len(ctx.copy_nodes) >= 8) and len(res.get("applied", [])) >= 2
            metas.append(({"source": src, "tweaks": tweaks, "node": res["r"], "side": side,
                           "edits": res.get("applied", [])}, nontriv, res))

    known = common.known_findings("C15")

    def classified(src, tweaks, side, res):
        """C15-shared-interface: the other side's text changed, the edits contain a change of the access of
        an argument's interface object, and without those edits the text does not change (the model
        reproduces the change: checked with the correspondence below)"""
        if not any(e["id"] == "C15-shared-interface" for e in known):
            return False
        if res["fail"]["clause"] != "edit_independent":
            return False
        eds = res.get("applied", [])
        rest = [e for e in eds if e[0] != "setaccess"]
        if len(rest) == len(eds):
            return False
        res2 = run_case(src, tweaks, res["r"], side, edits=rest, want_model=False)
        if res2["status"] != "ok":
            return False
        # ... and only if the committed model reproduces the change (it does not once the interface
        # repair is part of the deployed mode: then this is a new failure of the real code)
        if "line" not in res:
            return False
        mm = split_model(driver("C15", [res["line"]])[0])
        if mm is None:
            return False
        return (mm[2] if side == "orig" else mm[3]) == "0"

    # corpus first
    for entry in CORPUS:
        src, tweaks, r, side, edits = corpus_case(entry)
        res = run_case(src, tweaks, r, side, edits=edits)
        handle(src, tweaks, r, side, res, True)
    fam = case_family(chk.tier == "thorough")
    stats["case_family"] = len(fam)
    for src, tweaks, r, side, edits in fam:
        if nviol[0] >= 3:
            break
        res = run_case(src, tweaks, r, side, edits=edits)
        handle(src, tweaks, r, side, res, True)
    cdir = os.path.join(common.ROOT, "corpus", "C15")
    if os.path.isdir(cdir):
        for f in sorted(os.listdir(cdir)):
            if f.endswith(".json"):
                d = json.load(open(os.path.join(cdir, f)))
                res = run_case(d["source"], d["tweaks"], d["node"], d["edited_side"], edits=d["edits"])
                handle(d["source"], d["tweaks"], d["node"], d["edited_side"], res, True)

    rng = chk.rng
    prog = None
    for j in range(n_cases):
        if nviol[0] >= 3:
            break
        if prog is None or j % 4 == 0:
            # the first programs have every renamable symbol spelled in mixed case
            prog = c15_gen.gen_program(rng, force_case="all" if j < 24 else None)
        src, tweaks = prog
        try:
            probe = Ctx(src, tweaks)
        except Exception as e:   # pylint: disable=broad-except
            raise common.Infra(f"generated program rejected by the frontend: {type(e).__name__}: {e}\n{src}")
        # node choice biased towards scopes (routines, containers, loop bodies)
        from psyclone.psyir.nodes import ScopingNode, Routine, Container
        cand = [(i, n) for i, n in probe.nodes.values() if i < probe.T]
        c = rng.random()
        if c < 0.35:
            pick = [i for i, n in cand if isinstance(n, (Routine, Container))]
        elif c < 0.6:
            pick = [i for i, n in cand if isinstance(n, ScopingNode)]
        else:
            pick = [i for i, n in cand]
        r = rng.choice(pick)
        side = "orig" if rng.random() < 0.6 else "copy"
        res = run_case(src, tweaks, r, side, rng=rng, nedits=rng.randint(1, 10))
        handle(src, tweaks, r, side, res)

    # (b) correspondence with the model
    outs = driver("C15", lines) if lines else []
    for (case, nontriv, res), mo in zip(metas, outs):
        agreed = False
        mm = None
        if mo.startswith("(") and mo.endswith(")"):
            mm = split_model(mo)
        if mm is not None:
            m1, m2, ck, ok, keyed = mm
            agreed = (m1 == res["real1"] and m2 == res["real2"] and keyed == "1" and res.get("keys_ok") is None)
            # the model's prediction about the written code of the unedited side
            pred = (ck == "1") if case["side"] == "orig" else (ok == "1")
            if agreed and pred and not res["text_kept"]:
                agreed = False
        chk.case(case, nontrivial=nontriv, agreed=agreed)
        if not agreed and reported[0] < 3:
            reported[0] += 1
            which = "after copy" if mm is None or mm[0] != res["real1"] else "after the edits"
            if mm is not None and mm[0] == res["real1"] and mm[1] == res["real2"] and \
                    (mm[4] != "1" or res.get("keys_ok") is not None):
                chk.correspondence_broken(
                    "a symbol table is not keyed by the normalised names of its symbols (TablesKeyed, the hypothesis of "
                    "C15_case_copy_eq)", case, f"tablesKeyedB = {mm[4]}", str(res.get("keys_ok")))
                continue
            chk.correspondence_broken(
                f"object graph of the real code differs from C15.copy/C15.run ({which})",
                case, (mm[0] if which == "after copy" else mm[1]) if mm else mo[:300],
                res["real1"] if which == "after copy" else res["real2"])
    stats["shared_by_copy"] = dict(sorted(shared.items(), key=lambda kv: -kv[1])[:40])
    # the holders of nodes / symbols / datatypes found by introspection must all be known to the model
    stats["holders"] = dict(sorted(holders.items()))
    for hname in c15_holders.unknown(holders)[:3]:
        chk.correspondence_broken(
            "an attribute that holds a Node / Symbol / DataType object is not known to the model and the exporter "
            "(harness/props/c15_holders.py KNOWN)", {"holder": hname, "count": holders[hname]},
            "known holders: " + ", ".join(sorted(c15_holders.KNOWN)), hname)
    # second family: PSyKAl invoke schedules (LFRic, GOcean), real objects only
    known_classes = {e["id"][len("C15-"):] for e in known if e["id"].startswith("C15-psykal-")}
    stats["psykal"] = c15_psykal.run_family(chk, 300 if chk.tier == "thorough" else 24, known_classes)
    chk.cov["distribution"] = stats
    # (d) known findings
    for e in known:
        w = e.get("witness", {})
        if w.get("family") == "psykal":
            import random
            hit = False
            for sd in range(1, 5):
                res = c15_psykal.run_one(w["api"], w["file"], w["invoke"], w["node"], w["edited_side"], 4,
                                         random.Random(sd))
                if res and any(c == w["class"] for c, _ in res["fails"]):
                    hit = True
                    break
            if hit:
                chk.known(e["what"])
            continue
        try:
            res = run_case(w["source"], w.get("tweaks", []), w["node"], w["edited_side"], edits=w["edits"],
                           want_model=False)
        except Exception as ex:   # pylint: disable=broad-except
            raise common.Infra(f"known finding {e['id']} cannot be replayed: {ex}")
        if res["status"] == "fail" or (w.get("clause") == "leak" and res.get("known_leak") is not None):
            chk.known(e["what"])


def split_model(mo):
    """'(W1 W2 a b)' -> (W1, W2, a, b) as strings"""
    depth, parts, cur = 0, [], ""
    for ch in mo[1:-1]:
        if ch == "(":
            depth += 1
        if ch == ")":
            depth -= 1
        if ch == " " and depth == 0:
            if cur:
                parts.append(cur)
            cur = ""
        else:
            cur += ch
    if cur:
        parts.append(cur)
    if len(parts) == 4:
        parts.append("1")
    return tuple(parts) if len(parts) == 5 else None


def replay(payload):
    if payload.get("family") == "psykal":
        return c15_psykal.replay_psykal(payload)
    if "source" not in payload:
        rc = 0
        for b in payload.get("broken", []):
            print("broken obligation:", json.dumps(b)[:3000])
            if b.get("kind") == "correspondence" and isinstance(b.get("case"), dict):
                c = b["case"]
                res = run_case(c["source"], c["tweaks"], c["node"], c["side"], edits=c["edits"], want_model=True)
                out = driver("C15", [res["line"]])[0]
                mm = split_model(out)
                same = mm is not None and mm[0] == res["real1"] and mm[1] == res["real2"]
                print("real (after copy):  ", res.get("real1"))
                print("model (after copy): ", mm[0] if mm else out)
                print("real (after edits): ", res.get("real2"))
                print("model (after edits):", mm[1] if mm else out)
                if not same or res["status"] == "fail":
                    rc = 1
            else:
                rc = 1
        return rc
    res = run_case(payload["source"], payload["tweaks"], payload["node"], payload["edited_side"],
                   edits=payload["edits"], want_model=False)
    print(payload["source"])
    print("tweaks:", payload["tweaks"])
    print(f"copied node #{payload['node']} ({res.get('node_class')}); edits of the {payload['edited_side']} side:",
          res.get("applied"))
    if res["status"] != "fail" and payload.get("clause") == "leak" and res.get("known_leak") is not None:
        res = dict(res, status="fail", fail=res["known_leak"])
    if res["status"] == "fail":
        print("clause:  ", res["fail"]["clause"])
        print("observed:", res["fail"]["observed"])
        print("expected:", res["fail"]["expected"])
        return 1
    print("the property holds on this input")
    return 0
