"""C01 family `where-order`: WHERE statements/constructs whose mask or body mixes ELEMENTAL intrinsics (ABS, MAX,
MIN, MOD, SIGN / SQRT) with ARRAY-VALUED reductions (SUM/MAXVAL/MINVAL/PRODUCT(c, dim=k) of a rank-2 array) in every
textual order and position, systematically enumerated (template x elemental x reduction).

Rule of the reader (`_where_construct_handler._contains_intrinsic_reduction`, model: `C01.hasSumDim` /
`C01.refusedClauses`, position independent): a WHERE that contains a reduction with a DIM argument ANYWHERE (mask,
any body statement, any ELSEWHERE mask/body) is kept verbatim as a CodeBlock; otherwise it is lowered to a loop.
(1) structure: several WHEREs per program separated by marker assignments; the PSyIR between two markers must be
    one CodeBlock (reduction present) or one Loop (absent);
(2) property: original and re-written program through gfortran; a failing batch is split into one program per WHERE,
    which yields the minimal concrete failing input."""
import re

N, M3 = 4, 3

# elemental intrinsics: (name, text with {x} = conformable array-valued operand, {y} = a second such operand)
ELEM_INT = [("ABS", "abs({x})"), ("MAX", "max({x}, {y})"), ("MIN", "min({x}, 1)"), ("MOD", "mod({x}, 3)"),
            ("SIGN", "sign({x}, {y})")]
ELEM_REAL = [("SQRT", "sqrt(abs({x}))"), ("ABS", "abs({x})"), ("MAX", "max({x}, 0.5)")]

# array-valued reductions: (name, text with {c} = the rank-2 operand "c" (3,4) / "d" (4,3)), result has extent 4
REDS = [("SUM", "sum({c}, dim=1)", "c"), ("MAXVAL", "maxval({c}, dim=1)", "c"), ("MINVAL", "minval({c}, dim=1)", "c"),
        ("PRODUCT", "product({c}, dim=1)", "c"), ("SUM2", "sum({c}, dim=2)", "d"), ("MAXVAL2", "maxval({c}, dim=2)", "d"),
        ("SUMSEC", "sum({c}, dim=1)", "c(:,:)"), ("SUMKW", "sum(array={c}, dim=1)", "c"),
        ("MINVALKW", "minval(dim=2, array={c})", "d")]

# templates: name -> (has_reduction, lines); placeholders: {E:<operand>} elemental applied to operand,
# {R} reduction, {RE} reduction of an elemental of the rank-2 array, {ER} elemental of the reduction,
# r/s = result arrays of this WHERE.
TEMPLATES = [
    ("stmt-body-E-then-R", True, ["where (m(:) > 0) r(:) = {E:a(:)} + {R}"]),
    ("stmt-body-R-then-E", True, ["where (m(:) > 0) r(:) = {R} + {E:a(:)}"]),
    ("stmt-body-E-of-R", True, ["where (m(:) > 0) r(:) = {ER}"]),
    ("stmt-body-R-of-E", True, ["where (m(:) > 0) r(:) = {RE}"]),
    ("stmt-mask-E-body-R", True, ["where ({E:m(:)} > 1) r(:) = {R}"]),
    ("stmt-mask-E-then-R", True, ["where ({E:a(:)} + {R} > 0) r(:) = b(:)"]),
    ("stmt-mask-R-then-E", True, ["where ({R} + {E:a(:)} > 0) r(:) = b(:)"]),
    ("stmt-body-R-only", True, ["where (m(:) > 0) r(:) = {R}"]),
    ("stmt-body-E-only", False, ["where (m(:) > 0) r(:) = {E:a(:)} + {E:b(:)}"]),
    ("stmt-body-E-E-then-R", True, ["where (m(:) > 0) r(:) = {E:a(:)} * {E:b(:)} - {R}"]),
    ("cons-body-E-then-R", True, ["where (m(:) > 0)", "  r(:) = {E:a(:)} + {R}", "end where"]),
    ("cons-stmt1-E-stmt2-R", True, ["where (m(:) > 0)", "  r(:) = {E:a(:)}", "  s(:) = {R}", "end where"]),
    ("cons-stmt1-R-stmt2-E", True, ["where (m(:) > 0)", "  r(:) = {R}", "  s(:) = {E:a(:)}", "end where"]),
    ("cons-body-E-else-R", True, ["where (m(:) > 0)", "  r(:) = {E:a(:)}", "elsewhere", "  r(:) = {R}", "end where"]),
    ("cons-elsemask-E-body-R", True, ["where (m(:) > 0)", "  r(:) = b(:)", "elsewhere ({E:a(:)} > 1)", "  r(:) = {R}",
                                      "end where"]),
    ("cons-mask-E-body-R", True, ["where ({E:m(:)} > 1)", "  r(:) = {R}", "end where"]),
    ("cons-mask-E-then-R", True, ["where ({E:a(:)} + {R} > 0)", "  r(:) = b(:)", "elsewhere", "  r(:) = a(:)", "end where"]),
    ("cons-mask-R-then-E", True, ["where ({R} + {E:a(:)} > 0)", "  r(:) = b(:)", "elsewhere", "  r(:) = a(:)", "end where"]),
    ("cons-elsemask-E-then-R", True, ["where (m(:) > 0)", "  r(:) = b(:)", "elsewhere ({E:a(:)} + {R} > 0)", "  r(:) = a(:)",
                                      "end where"]),
    ("cons-body-E-E-else-E-of-R", True, ["where (m(:) > 0)", "  r(:) = {E:a(:)} + {E:b(:)}", "elsewhere", "  r(:) = {ER}",
                                         "end where"]),
    ("cons-E-only", False, ["where ({E:m(:)} > 1)", "  r(:) = {E:a(:)}", "elsewhere", "  r(:) = {E:b(:)}", "end where"]),
    ("cons-else-R-of-E", True, ["where (m(:) > 0)", "  r(:) = {E:a(:)}", "elsewhere (m(:) < 0)", "  s(:) = {RE}",
                                "elsewhere", "  s(:) = {E:b(:)}", "end where"]),
]


def instantiate(tmpl, elem, red, k):
    """-> list of lines of WHERE number k (result arrays r<k>, s<k>)"""
    _, etext = elem
    _, rtext, carr = red
    rtxt = rtext.format(c=carr)

    def esub(mo):
        return etext.format(x=mo.group(1), y="b(:)" if "b(" not in mo.group(1) else "a(:)")
    out = []
    for ln in tmpl[2]:
        ln = re.sub(r"\{E:([^}]*)\}", esub, ln)
        ln = ln.replace("{RE}", rtext.format(c=etext.format(x=carr, y=carr)))
        ln = ln.replace("{ER}", etext.format(x=rtxt, y="b(:)"))
        ln = ln.replace("{R}", rtxt)
        ln = re.sub(r"\b([rs])\(:\)", lambda mo: f"{mo.group(1)}{k}(:)", ln)
        out.append(ln)
    return out


def program(wheres, real):
    """wheres: list of lists of lines (already instantiated with k = position+1)"""
    ty = "real" if real else "integer"
    K = len(wheres)
    res = ", ".join(f"r{k}({N}), s{k}({N})" for k in range(1, K + 1))
    L = ["program p", "  implicit none",
         f"  {ty} :: a({N}), b({N}), m({N}), c({M3},{N}), d({N},{M3})",
         f"  {ty} :: {res}", "  integer :: i, j, mk"]
    L += [f"  do j = 1, {N}",
          "    a(j) = j*3 - 8" if not real else "    a(j) = real(j*3 - 8) * 0.5",
          "    b(j) = 5 - 2*j" if not real else "    b(j) = real(5 - 2*j) * 0.25",
          "    m(j) = mod(j*7, 5) - 2" if not real else "    m(j) = real(mod(j*7, 5) - 2) * 1.5",
          f"    do i = 1, {M3}",
          "      c(i,j) = i*j - 5 + mod(i+j, 3)" if not real else "      c(i,j) = real(i*j - 5 + mod(i+j, 3)) * 0.5",
          "      d(j,i) = 2*i - j*j + 6" if not real else "      d(j,i) = real(2*i - j*j + 6) * 0.25",
          "    end do", "  end do"]
    for k in range(1, K + 1):
        L += [f"  r{k} = -99", f"  s{k} = -77"]
    for k, w in enumerate(wheres, 1):
        L.append(f"  mk = {k}")
        L += ["  " + x for x in w]
    L.append(f"  mk = {K + 1}")
    for k in range(1, K + 1):
        L += [f"  print *, r{k}", f"  print *, s{k}"]
    L += ["  print *, mk", "end program p", ""]
    return "\n".join(L)


def enumerate_cases(tier, seed):
    """-> list of (label, template, elem, red, real)"""
    out = []
    seen = set()

    def add(label, t, e, r, real):
        key = (real, tuple(instantiate(t, e, r, 0)))
        if key not in seen:          # templates without a reduction do not depend on r
            seen.add(key)
            out.append((label, t, e, r, real))
    for ti, t in enumerate(TEMPLATES):
        for ei, e in enumerate(ELEM_INT):
            for ri, r in enumerate(REDS):
                if tier == "thorough" or (ti + ei + ri + seed) % 3 == 0:
                    add(f"{t[0]}/{e[0]}/{r[0]}/int", t, e, r, False)
        for ei, e in enumerate(ELEM_REAL):
            for ri, r in enumerate(REDS):
                if (tier == "thorough" and ri < 4) or (ti + ei + ri + seed) % 9 == 0:
                    add(f"{t[0]}/{e[0]}/{r[0]}/real", t, e, r, True)
    return out


def structure(psyir, nslots):
    """kinds of the statements between the markers mk = k and mk = k+1 -> list of tuples of 'cb'/'loop'/other"""
    from psyclone.psyir import nodes as N_
    rt = psyir.walk(N_.Routine)[0]
    slots = [[] for _ in range(nslots + 2)]
    cur = 0
    for ch in rt.children:
        if (isinstance(ch, N_.Assignment) and type(ch.lhs) is N_.Reference and ch.lhs.name.lower() == "mk"
                and isinstance(ch.rhs, N_.Literal)):
            cur = int(ch.rhs.value)
            continue
        if cur <= nslots:
            slots[cur].append("cb" if isinstance(ch, N_.CodeBlock) else "loop" if isinstance(ch, N_.Loop)
                              else type(ch).__name__)
    return [tuple(s) for s in slots[1:nslots + 1]]


def run_family(chk, c01, batch=12):
    """c01 = the harness module (rewrite / property_run)"""
    cases = enumerate_cases(chk.tier, chk.seed)
    stats = {"wheres": len(cases), "programs": 0, "structure_agree": 0, "gfortran_pass": 0, "gfortran_skipped": 0,
             "with_reduction": sum(1 for c in cases if c[1][1]), "singles_run": 0}
    groups = []
    for real in (False, True):
        sel = [c for c in cases if c[4] == real]
        groups += [(real, sel[i:i + batch]) for i in range(0, len(sel), batch)]
    suspects = []           # single WHEREs to be run on their own
    progs = []
    for real, grp in groups:
        src = program([instantiate(t, e, r, k) for k, (_, t, e, r, _) in enumerate(grp, 1)], real)
        st, out, psyir = c01.rewrite(src)
        stats["programs"] += 1
        if st != "ok":
            chk.violation({"kind": "failing-input", "family": "where-order", "source": src, "observed": st + ": " + out,
                           "expected": "program is read and re-written without an exception"})
            suspects += grp
            continue
        got = structure(psyir, len(grp))
        for (label, t, e, r, _), g in zip(grp, got):
            want = ("cb",) if t[1] else ("loop",)
            agreed = g == want
            chk.case({"family": "where-order", "where": label}, nontrivial=True, agreed=agreed)
            if agreed:
                stats["structure_agree"] += 1
            else:
                suspects.append((label, t, e, r, real))
                chk.correspondence_broken(
                    "WHERE with elemental intrinsic + dim= reduction: kept-verbatim/lowered decision differs from the "
                    "rule `a DIM reduction anywhere => CodeBlock` (C01.hasSumDim / refusedClauses)",
                    {"where": label, "source": program([instantiate(t, e, r, 1)], real)}, str(want), str(g))
        progs.append((src, out, grp))
    import concurrent.futures
    with concurrent.futures.ThreadPoolExecutor(8) as pool:
        results = list(pool.map(lambda p: c01.property_run(p[0], p[1]), progs))
    for (src, out, grp), (verdict, detail) in zip(progs, results):
        if verdict == "pass":
            stats["gfortran_pass"] += 1
        elif verdict == "fail":
            suspects += [g for g in grp if g not in suspects]
        elif verdict == "invalid-original":
            import common
            raise common.Infra("where-order family: gfortran rejects a generated original program:\n" + detail + "\n" + src)
        else:
            stats["gfortran_skipped"] += 1
    # one program per suspect WHERE: the concrete failing input
    seen = set()
    singles = []
    for label, t, e, r, real in suspects:
        if label not in seen:
            seen.add(label)
            singles.append((label, program([instantiate(t, e, r, 1)], real)))
    singles = singles[:24]

    # fparser is not thread-safe: read/write sequentially, only gfortran in threads
    prepared = [(lab, src) + tuple(c01.rewrite(src)[:2]) for lab, src in singles]
    with concurrent.futures.ThreadPoolExecutor(8) as pool:
        res = list(pool.map(lambda p: (p[0], p[1], p[3]) + (c01.property_run(p[1], p[3]) if p[2] == "ok"
                                                           else ("fail", p[2] + ": " + p[3])), prepared))
    for label, src, out, v, d in res:
        stats["singles_run"] += 1
        if v == "fail" and len(chk.violations) < 3:
            chk.violation({"kind": "failing-input", "family": "where-order", "where": label, "source": src,
                           "rewritten": out, "observed": d,
                           "expected": "re-written program compiles and prints the same values as the original"})
    chk.cov["where_order_family"] = stats
    return stats
