"""C17 — SymbolicMaths.equal / never_equal / solve_equal_for / expand versus Fortran integer arithmetic.

Correspondence: the verdicts of the real (SymPy based) functions are compared with the SymPy-free Lean model
(`modelEqual/modelNever/modelSolve/modelExpand`, polynomial normal form) wherever the model has a verdict; the
`SymPyWriter` translation is compared with `evalQ ∘ toSym` pointwise; the Python Fortran evaluator used as oracle
is compared with the Lean `evalF`.
Property evaluation (always): every True verdict of `equal` / `never_equal`, every `expand` result and every
reported solution of the REAL code is tested on the integer grid [-6,6]^vars under Fortran semantics."""
import contextlib
import io
import time
from fractions import Fraction

import common
from common import driver
from props import c17_expr as X

PROP = "C17"
# The deployed model is `toSym true`: since /repo commit ab94ce4 the FortranWriter (inherited by the SymPyWriter)
# brackets a left operand of `**` that is itself a `**`.  `toSym false` only survives in the kernel-checked
# counterexample theorems about the pinned writer.
MODEL_BRK = True
RETIRED = {"C17-left-nested-power"}     # fixed by ab94ce4: never accepted as a known-finding class again


def known():
    return [f for f in common.known_findings(PROP) if f["id"] not in RETIRED]


# ---------------------------------------------------------------------------------------------
# the real code
def _sm():
    from psyclone.core import SymbolicMaths
    return SymbolicMaths.get()


def live_brackets(b):
    """Does the live writer keep the brackets of (n**2)**3 ?  (translator-style probe of the anchored writer;
    selects which `toSym` the model uses)"""
    import sympy
    from psyclone.psyir.backend.sympy_writer import SymPyWriter
    asg = b.attached(("pow", ("pow", ("var", 2), 2), 3))
    try:
        s = SymPyWriter()(asg.rhs)
    finally:
        b.detach(asg)
    nsym = sympy.Symbol("n")
    return s == nsym ** 6


def real_verdicts(b, e1, e2):
    a1, a2 = b.attached(e1), b.attached(e2)
    try:
        with contextlib.redirect_stdout(io.StringIO()):
            eq = _sm().equal(a1.rhs, a2.rhs)
            ne = _sm().never_equal(a1.rhs, a2.rhs)
        return bool(eq), bool(ne), None
    except Exception as err:   # the real code refused: no verdict, no claim
        return False, False, type(err).__name__
    finally:
        b.detach(a1)
        b.detach(a2)


def real_expand(b, e):
    asg = b.attached(e)
    try:
        _sm().expand(asg.rhs)
        return X.read_psyir(asg.rhs, b.names), None
    except X.Unreadable as err:
        return None, "unreadable:" + str(err)
    except Exception as err:
        return None, type(err).__name__
    finally:
        b.detach(asg)


def real_sympy(b, es):
    from psyclone.psyir.backend.sympy_writer import SymPyWriter
    asgs = [b.attached(e) for e in es]
    try:
        return SymPyWriter()([a.rhs for a in asgs])
    finally:
        for a in asgs:
            b.detach(a)


def real_solve(b, e1, e2, x=0):
    import sympy
    try:
        s1, s2 = real_sympy(b, [e1, e2])
        sols = _sm().solve_equal_for(s1, s2, sympy.Symbol(b.names[x]))
        return sols, None
    except Exception as err:
        return None, type(err).__name__


def sym_eval(s, env, interp=X.INTERP[0], names=X.VARS):
    """value (Fraction) of a SymPy expression produced by the SymPyWriter at an integer valuation; arrays are
    interpreted like `liftEnv` (integer arguments -> table, otherwise 0).  Raises Undefined."""
    import sympy
    from sympy.core.function import AppliedUndef
    if s.is_Integer:
        return Fraction(int(s))
    if s.is_Rational:
        return Fraction(int(s.p), int(s.q))
    if s.is_Symbol:
        if s.name in names:
            return Fraction(env[list(names).index(s.name)])
        raise X.Undefined()
    if isinstance(s, sympy.Add):
        return sum((sym_eval(a, env, interp, names) for a in s.args), Fraction(0))
    if isinstance(s, sympy.Mul):
        out = Fraction(1)
        for a in s.args:
            out *= sym_eval(a, env, interp, names)
        return out
    if isinstance(s, sympy.Pow):
        base, ex = sym_eval(s.args[0], env, interp, names), sym_eval(s.args[1], env, interp, names)
        if ex.denominator != 1 or (base == 0 and ex < 0) or abs(ex) > 64:
            raise X.Undefined()
        return base ** int(ex)
    if isinstance(s, (sympy.Max, sympy.Min)):
        vals = [sym_eval(a, env, interp, names) for a in s.args]
        return max(vals) if isinstance(s, sympy.Max) else min(vals)
    if isinstance(s, sympy.Mod):
        a, m = sym_eval(s.args[0], env, interp, names), sym_eval(s.args[1], env, interp, names)
        if m == 0:
            raise X.Undefined()
        return a - m * ((a / m).__floor__())
    if isinstance(s, sympy.floor):
        return Fraction(sym_eval(s.args[0], env, interp, names).__floor__())
    if isinstance(s, AppliedUndef):
        name = type(s).__name__
        args = [sym_eval(a, env, interp, names) for a in s.args]
        idx = args[0::3]
        if any(args[k] != args[k + 1] or args[k + 2] != 1 for k in range(0, len(args), 3)):
            raise X.Undefined()
        if any(z.denominator != 1 for z in idx):
            return Fraction(0)
        if name in X.ARR1 and len(idx) == 1:
            return Fraction(interp[0](X.ARR1.index(name), int(idx[0])))
        if name in X.ARR2 and len(idx) == 2:
            return Fraction(interp[1](X.ARR2.index(name), int(idx[0]), int(idx[1])))
        if name in X.ARR3 and len(idx) == 3:
            return Fraction(interp[2](X.ARR3.index(name), int(idx[0]), int(idx[1]), int(idx[2])))
    raise X.Undefined()


def translation_ok(b, trees):
    """Is what the live SymPyWriter hands to SymPy the faithful rational reading of each tree?  (pointwise on
    [-3,3]^vars; used to decide whether a failing input can be blamed on a known finding: a known finding is a wrong
    verdict on a CORRECTLY translated expression)"""
    import itertools
    for e in trees:
        try:
            s = real_sympy(b, [e])[0]
        except Exception:
            continue
        if isinstance(s, tuple):
            continue
        vs = X.variables(e)
        has_arr = bool({"arr1", "arr2", "arr3"} & X.ops(e))
        for interp in (X.INTERP if has_arr else X.INTERP[:1]):
            for vals in itertools.product(range(-3, 4), repeat=len(vs)):
                env = [0] * len(X.VARS)
                for v, z in zip(vs, vals):
                    env[v] = z
                try:
                    want = X.evalQ_py(e, env, interp)
                    got = sym_eval(s, env, interp, b.names)
                except (X.Undefined, ZeroDivisionError, OverflowError):
                    continue
                if want != got:
                    return False
    return True


def poly_to_sympy(p, names=X.VARS):
    import sympy
    out = sympy.Integer(0)
    for t in p:
        term = sympy.Rational(t[0], t[1])
        for v in t[2:]:
            term *= sympy.Symbol(names[v])
        out += term
    return out


# ---------------------------------------------------------------------------------------------
# the property itself, on one behaviour of the real code
def check_verdict(e1, e2, eq, ne):
    """None or a failing-input payload for a pair on which the real code said equal / never equal."""
    if eq:
        d = X.find_difference(e1, e2, True)
        if d:
            return {"kind": "equal", "observed": f"equal() returned True but {d['v1']} /= {d['v2']} at {d['env']}",
                    "expected": "same Fortran value for every integer valuation", "valuation": d}
    if ne:
        d = X.find_difference(e1, e2, False)
        if d:
            return {"kind": "never_equal",
                    "observed": f"never_equal() returned True but both are {d['v1']} at {d['env']}",
                    "expected": "different Fortran values for every integer valuation", "valuation": d}
    return None


def check_expand(e, res):
    d = X.find_difference(e, res, True)
    if d:
        return {"kind": "expand", "result": X.fortran(res), "result_tree": X.to_json(res),
                "observed": f"expand() changed the value: {d['v1']} became {d['v2']} at {d['env']}",
                "expected": "expanded expression has the same Fortran value", "valuation": d}
    return None


def check_solutions(e1, e2, sols, x=0, names=X.VARS):
    """every reported solution that is an integer at a grid valuation must satisfy the equation there"""
    if not isinstance(sols, (set, frozenset)):
        return None
    others = [v for v in sorted(set(X.variables(e1)) | set(X.variables(e2))) if v != x]
    has_arr = bool({"arr1", "arr2", "arr3"} & (X.ops(e1) | X.ops(e2)))
    for sol in sols:
        for k, interp in enumerate(X.INTERP if has_arr else X.INTERP[:1]):
            for vals in X.grid(len(others)):
                env = [0] * len(X.VARS)
                for v, z in zip(others, vals):
                    env[v] = z
                try:
                    sv = sym_eval(sol, env, interp, names)
                except X.Undefined:
                    continue
                if sv.denominator != 1:
                    continue       # callers only act on integer solutions
                env[x] = int(sv)
                try:
                    v1, v2 = X.evalF(e1, env, interp), X.evalF(e2, env, interp)
                except X.Undefined:
                    continue
                if v1 != v2:
                    envd = {X.VARS[v]: env[v] for v in others + [x]}
                    return {"kind": "solve", "solution": str(sol), "x": x,
                            "observed": f"reported solution {X.VARS[x]} = {sol} = {int(sv)}: sides are {v1} and {v2} at {envd}",
                            "expected": "every reported solution satisfies the equation",
                            "valuation": {"env": envd, "interp": k, "v1": v1, "v2": v2}}
    return None


class Ctx:
    def __init__(self, chk, brk, b=None, live_brk=True):
        self.chk, self.brk, self.b, self.live_brk = chk, brk, b, live_brk
        self.known_hits = {}
        self.dist = {}
        self.stop = False

    def count(self, key):
        self.dist[key] = self.dist.get(key, 0) + 1

    def failing(self, payload, trees, model_reproduces):
        """a concrete failing input of the property on the real code: known-finding class or VIOLATION"""
        cls = X.classes(*trees)
        known_ids = {f["id"] for f in known()}
        if model_reproduces and (cls & known_ids) and self.b is not None:
            # a known finding is a wrong verdict on a faithfully translated expression
            model_reproduces = translation_ok(self.b, trees)
        if (cls & known_ids) and model_reproduces:
            for c in cls & known_ids:
                self.known_hits[c] = self.known_hits.get(c, 0) + 1
            return
        payload = dict(payload, classes=sorted(cls), model_reproduces=model_reproduces,
                       contains_left_nested_power=any(X.left_nested_pow(t) for t in trees),
                       live_writer_brackets_left_nested_power=self.live_brk)
        self.chk.violation(payload)
        self.stop = True


def load_corpus():
    """corpus/C17/*.json: {"kind": "pair", "e1": tree, "e2": tree} or {"kind": "range", "triple": [[e1, e2] x 3]}"""
    import json
    import os
    pairs, ranges = [], []
    d = os.path.join(common.ROOT, "corpus", PROP)
    if os.path.isdir(d):
        for fn in sorted(os.listdir(d)):
            if fn.endswith(".json"):
                c = json.load(open(os.path.join(d, fn)))
                if c["kind"] == "pair":
                    pairs.append((X.from_json(c["e1"]), X.from_json(c["e2"]), "corpus"))
                elif c["kind"] == "range":
                    ranges.append([(X.from_json(a), X.from_json(b), "corpus") for a, b in c["triple"]])
    return pairs, ranges


def ranges_coincide(tr):
    """a grid valuation at which start, stop and step of the two ranges all coincide (or None)"""
    vs = sorted({v for e1, e2, _ in tr for e in (e1, e2) for v in X.variables(e)})
    for vals in X.grid(len(vs)):
        env = [0] * len(X.VARS)
        for v, z in zip(vs, vals):
            env[v] = z
        try:
            if all(X.evalF(e1, env) == X.evalF(e2, env) for e1, e2, _ in tr):
                return {X.VARS[v]: env[v] for v in vs}
        except X.Undefined:
            continue
    return None


def pair_payload(e1, e2, extra):
    return dict({"e1": X.fortran(e1), "e2": X.fortran(e2), "e1_tree": X.to_json(e1), "e2_tree": X.to_json(e2)}, **extra)


# ---------------------------------------------------------------------------------------------
def run_pairs(ctx, b, pairs):
    chk, brk = ctx.chk, int(ctx.brk)
    lines, idx = [], {}
    for k, (e1, e2, kind) in enumerate(pairs):
        if X.lean_ok(e1) and X.lean_ok(e2):
            idx[k] = len(lines)
            lines.append(f"(eq {brk} {X.sexp(e1)} {X.sexp(e2)})")
    out = driver(PROP, lines)
    for k, (e1, e2, kind) in enumerate(pairs):
        if ctx.stop:
            return
        eq, ne, err = real_verdicts(b, e1, e2)
        model = [int(t) for t in out[idx[k]].split()] if k in idx else None
        in_dom = bool(model and model[2])
        agreed = in_dom and (model[0], model[1]) == (int(eq), int(ne)) and err is None
        ctx.count("pairs:" + kind)
        ctx.count(f"verdict:eq={int(eq)},never={int(ne)}" + (",raised" if err else ""))
        ctx.count("model-domain" if in_dom else "outside-model-domain")
        case = {"e1": X.fortran(e1), "e2": X.fortran(e2), "equal": eq, "never_equal": ne}
        chk.case(case, nontrivial=(X.size(e1) + X.size(e2) >= 5), agreed=agreed)
        bad = check_verdict(e1, e2, eq, ne)
        if bad:
            ctx.failing(pair_payload(e1, e2, bad), [e1, e2], model_reproduces=(not in_dom) or agreed)
            if ctx.stop:
                return
        if in_dom and not agreed:
            chk.correspondence_broken("equal/never_equal differ from C17.modelEqual/modelNever",
                                      case, {"equal": model[0], "never_equal": model[1]},
                                      {"equal": eq, "never_equal": ne, "raised": err})


def run_ranges(ctx, b, triples):
    """the list branch of equal()/never_equal(): Range nodes start:stop:step are compared componentwise"""
    from psyclone.psyir.nodes import Range
    chk, brk = ctx.chk, int(ctx.brk)
    lines = [f"(eq {brk} {X.sexp(e1)} {X.sexp(e2)})" for tr in triples for e1, e2, _ in tr]
    out = driver(PROP, lines)
    for k, tr in enumerate(triples):
        if ctx.stop:
            return
        r1 = Range.create(*[b.node(e1) for e1, _, _ in tr])
        r2 = Range.create(*[b.node(e2) for _, e2, _ in tr])
        try:
            with contextlib.redirect_stdout(io.StringIO()):
                eq, ne, err = bool(_sm().equal(r1, r2)), bool(_sm().never_equal(r1, r2)), None
        except Exception as e:
            eq, ne, err = False, False, type(e).__name__
        ms = [[int(t) for t in out[3 * k + c].split()] for c in range(3)]
        in_dom = all(m[2] for m in ms)
        agreed = in_dom and err is None and eq == all(m[0] for m in ms) and not ne
        case = {"range1": ":".join(X.fortran(e1) for e1, _, _ in tr), "range2": ":".join(X.fortran(e2) for _, e2, _ in tr),
                "equal": eq, "never_equal": ne}
        ctx.count(f"ranges:eq={int(eq)},never={int(ne)}" + (",raised" if err else ""))
        chk.case(case, nontrivial=True, agreed=agreed)
        for e1, e2, _ in tr:
            # equal => every component equal; never_equal on ranges => (stronger than needed) no component may coincide
            bad = check_verdict(e1, e2, eq, False)
            if bad:
                ctx.failing(pair_payload(e1, e2, dict(bad, via="Range component")), [e1, e2], model_reproduces=(not in_dom) or agreed)
                if ctx.stop:
                    return
        if ne:
            chk.correspondence_broken("never_equal returned True for a pair of ranges (the code never claims this)", case, 0, 1)
            env = ranges_coincide(tr)
            if env is not None:
                ctx.failing({"kind": "range_never_equal", "triple": [[X.to_json(a), X.to_json(c)] for a, c, _ in tr],
                             "range1": case["range1"], "range2": case["range2"],
                             "observed": f"never_equal() returned True for two ranges that are identical at {env}",
                             "expected": "never_equal is only claimed when the accesses differ for every valuation"},
                            [], model_reproduces=False)
                if ctx.stop:
                    return
        if in_dom and not agreed:
            chk.correspondence_broken("equal on ranges differs from componentwise C17.modelEqual", case,
                                      [m[0] for m in ms], {"equal": eq, "never_equal": ne, "raised": err})


def run_expands(ctx, b, exprs):
    chk, brk = ctx.chk, int(ctx.brk)
    results = [real_expand(b, e) for e in exprs]
    lines, idx = [], {}
    for k, (e, (res, err)) in enumerate(zip(exprs, results)):
        if res is not None and X.lean_ok(e) and X.lean_ok(res):
            idx[k] = len(lines)
            lines += [f"(expand {brk} {X.sexp(e)})", f"(expand 1 {X.sexp(res)})"]
    out = driver(PROP, lines)
    for k, (e, (res, err)) in enumerate(zip(exprs, results)):
        if ctx.stop:
            return
        ctx.count("expand" + (":" + err.split(":")[0] if err else ""))
        if res is None:
            chk.case({"expand": X.fortran(e), "raised": err}, nontrivial=False, agreed=False)
            continue
        m_orig, m_res = (out[idx[k]], out[idx[k] + 1]) if k in idx else ("none", "none")
        in_dom = m_orig != "none"
        agreed = in_dom and m_orig == m_res
        case = {"expand": X.fortran(e), "result": X.fortran(res)}
        chk.case(case, nontrivial=(X.size(e) >= 3), agreed=agreed)
        bad = check_expand(e, res)
        if bad:
            ctx.failing(dict({"e": X.fortran(e), "e_tree": X.to_json(e)}, **bad), [e], model_reproduces=(not in_dom) or agreed)
            if ctx.stop:
                return
        if in_dom and not agreed:
            chk.correspondence_broken("expand differs from C17.modelExpand (normal forms)", case, m_orig, m_res)


def run_solves(ctx, b, eqs):
    import sympy
    chk, brk = ctx.chk, int(ctx.brk)
    lines, idx = [], {}
    for k, (e1, e2) in enumerate(eqs):
        if X.lean_ok(e1) and X.lean_ok(e2):
            idx[k] = len(lines)
            lines.append(f"(solve {brk} 0 {X.sexp(e1)} {X.sexp(e2)})")
    out = driver(PROP, lines)
    for k, (e1, e2) in enumerate(eqs):
        if ctx.stop:
            return
        sols, err = real_solve(b, e1, e2)
        m = out[idx[k]] if k in idx else "unknown"
        shown = "raised:" + err if err else (sols if isinstance(sols, str) else sorted(str(s) for s in sols))
        case = {"solve_for": "i", "e1": X.fortran(e1), "e2": X.fortran(e2), "solutions": shown}
        agreed, compared = False, (m != "unknown" and err is None)
        if compared:
            agreed = solve_agrees(m, sols, b.names)
        ctx.count("solve:" + (m.split()[0].strip("(") if m else "?") + ("" if not err else ":raised"))
        chk.case(case, nontrivial=True, agreed=agreed)
        bad = check_solutions(e1, e2, sols) if err is None else None
        if bad:
            ctx.failing(pair_payload(e1, e2, bad), [e1, e2], model_reproduces=(not compared) or agreed)
            if ctx.stop:
                return
        if compared and not agreed:
            chk.correspondence_broken("solve_equal_for differs from C17.modelSolve", case, m, shown)


def solve_agrees(m, sols, names):
    """does the real answer equal the model's answer `m` (a driver line other than 'unknown')?"""
    import sympy
    if m == "independent":
        return sols == "independent"
    if m == "empty":
        return isinstance(sols, set) and len(sols) == 0
    p = common.parse_sx(m)[1]
    return (isinstance(sols, set) and len(sols) == 1 and
            sympy.expand(list(sols)[0] - poly_to_sympy(p, names)) == 0)


def history_ops(e1, e2):
    """the call history played on one equation in ONE process: solve for every variable, the comparison verdicts,
    solve in the reverse order, expand, and the first query again"""
    vs = sorted(set(X.variables(e1)) | set(X.variables(e2)))
    ops = [["solve", x] for x in vs] + [["verdicts"]] + [["solve", x] for x in reversed(vs)] + [["expand"]]
    return ops + [["solve", vs[0]]] if vs else ops


def play(b, e1, e2, op):
    """one query of a history on the real code -> (answer, failing-input-or-None)"""
    if op[0] == "solve":
        sols, err = real_solve(b, e1, e2, op[1])
        bad = check_solutions(e1, e2, sols, op[1], b.names) if err is None else None
        return (sols, err), bad
    if op[0] == "verdicts":
        eq, ne, err = real_verdicts(b, e1, e2)
        return (eq, ne, err), check_verdict(e1, e2, eq, ne)
    res, err = real_expand(b, e1)
    return (res, err), (check_expand(e1, res) if res is not None else None)


def run_histories(ctx, builders, eqs):
    """Call histories: the model is a pure function of (e1, e2, unknown) (theorem C17_solve_history_independent), so
    every answer of the real code inside a history must equal the model's answer for that query alone, and every
    reported solution must satisfy the equation - whatever was asked before in the same process.  Histories alternate
    between two symbol tables (plain names / a Python keyword as variable name) to interleave the writer's renaming."""
    chk, brk = ctx.chk, int(ctx.brk)
    lines, idx = [], {}
    for k, (e1, e2) in enumerate(eqs):
        for x in sorted(set(X.variables(e1)) | set(X.variables(e2))):
            idx[(k, x)] = len(lines)
            lines.append(f"(solve {brk} {x} {X.sexp(e1)} {X.sexp(e2)})")
        idx[(k, "eq")] = len(lines)
        lines.append(f"(eq {brk} {X.sexp(e1)} {X.sexp(e2)})")
        idx[(k, "ex")] = len(lines)
        lines.append(f"(expand {brk} {X.sexp(e1)})")
    out = driver(PROP, lines)
    for k, (e1, e2) in enumerate(eqs):
        b = builders[k % len(builders)]
        done = []
        for op in history_ops(e1, e2):
            if ctx.stop:
                return
            ans, bad = play(b, e1, e2, op)
            compared = agreed = False
            if op[0] == "solve":
                m = out[idx[(k, op[1])]]
                sols, err = ans
                compared = m != "unknown" and err is None
                agreed = compared and solve_agrees(m, sols, b.names)
                shown = "raised:" + err if err else (sols if isinstance(sols, str) else sorted(str(t) for t in sols))
                model_shown = m
            elif op[0] == "verdicts":
                m = [int(t) for t in out[idx[(k, "eq")]].split()]
                compared = bool(m[2]) and ans[2] is None
                agreed = compared and (m[0], m[1]) == (int(ans[0]), int(ans[1]))
                shown, model_shown = {"equal": ans[0], "never_equal": ans[1], "raised": ans[2]}, m[:2]
            else:
                m = out[idx[(k, "ex")]]
                res, err = ans
                compared = m != "none" and res is not None
                if compared:
                    agreed = driver(PROP, [f"(expand 1 {X.sexp(res)})"])[0] == m
                shown, model_shown = (X.fortran(res) if res is not None else "raised:" + str(err)), m
            case = {"history": done + [op], "names": b.names, "e1": X.fortran(e1), "e2": X.fortran(e2), "answer": shown}
            ctx.count("history:" + op[0])
            chk.case(case, nontrivial=True, agreed=agreed)
            if bad:
                ctx.failing(pair_payload(e1, e2, dict(bad, kind="history", op=op, history=list(done), names=b.names,
                                                      fault=bad["kind"])),
                            [e1, e2], model_reproduces=(not compared) or agreed)
                if ctx.stop:
                    return
            if compared and not agreed:
                chk.correspondence_broken("answer inside a call history differs from the (stateless) model", case,
                                          model_shown, shown)
            done.append(op)


def run_evals(ctx, b, exprs):
    """oracle self-check (python evalF vs Lean evalF) and translation check (SymPyWriter output vs evalQ∘toSym)"""
    chk, brk = ctx.chk, int(ctx.brk)
    rng = chk.rng
    lines, meta = [], []
    for e in exprs:
        if not X.lean_ok(e):
            continue
        for _ in range(3):
            env = [rng.randint(-6, 6) for _ in X.VARS]
            meta.append((e, env))
            zs = " ".join(str(z) for z in env)
            lines += [f"(ev {X.sexp(e)} ({zs}))", f"(evq {brk} {X.sexp(e)} ({zs}))"]
    out = driver(PROP, lines)
    cache = {}
    for k, (e, env) in enumerate(meta):
        d, v = out[2 * k].split()
        try:
            pv, pd = X.evalF(e, env), True
        except X.TooBig:
            continue
        except X.Undefined:
            pv, pd = None, False
        if pd != (d == "1") or (pd and pv != int(v)):
            raise common.Infra(f"python Fortran evaluator and Lean evalF differ on {X.fortran(e)} at {env}: "
                               f"{pd, pv} vs {out[2 * k]}")
        if not X.ratdef(e, env):
            continue
        if id(e) not in cache:
            try:
                cache[id(e)] = real_sympy(b, [e])[0]
            except Exception:
                cache[id(e)] = None
        s = cache[id(e)]
        if s is None:
            continue
        try:
            sv = sym_eval(s, env)
        except X.Undefined:
            continue
        num, den = out[2 * k + 1].split("/")
        agreed = sv == Fraction(int(num), int(den))
        ctx.count("translation-points")
        chk.case({"translate": X.fortran(e), "at": env, "sympy_value": str(sv)}, nontrivial=(X.size(e) >= 3), agreed=agreed)
        if not agreed:
            chk.correspondence_broken("SymPyWriter translation differs from evalQ∘toSym", {"e": X.fortran(e), "env": env},
                                      out[2 * k + 1], str(sv))
            # look for a property failure caused by it: the expression against its own expansion and itself
            res, err = real_expand(b, e)
            if res is not None:
                bad = check_expand(e, res)
                if bad:
                    ctx.failing(dict({"e": X.fortran(e), "e_tree": X.to_json(e)}, **bad), [e], model_reproduces=False)
                    if ctx.stop:
                        return


# ---------------------------------------------------------------------------------------------
def replay_finding(b, f):
    """re-run a known finding's witness on the real code; True iff it still fails"""
    w = f["witness"]
    e1 = X.read_psyir(b.from_text(w["e1"]))
    e2 = X.read_psyir(b.from_text(w["e2"])) if "e2" in w else None
    env = [w["env"].get(v, 0) for v in X.VARS]
    if w["kind"] in ("equal", "never_equal"):
        eq, ne, _ = real_verdicts(b, e1, e2)
        v1, v2 = X.evalF(e1, env), X.evalF(e2, env)
        return (eq and v1 != v2) if w["kind"] == "equal" else (ne and v1 == v2)
    if w["kind"] == "expand":
        res, _ = real_expand(b, e1)
        return res is not None and X.evalF(e1, env) != X.evalF(res, env)
    if w["kind"] == "solve":
        sols, err = real_solve(b, e1, e2)
        return err is None and check_solutions(e1, e2, sols) is not None
    return False


def run(chk):
    chk.cov["rule"] = (
        "pairs of integer expressions (<= 12 nodes each, degree <= 6 after translation) over i,j,n, arrays a,c (rank 1), "
        "b (rank 2), t (rank 3): second member is a value-preserving rewriting of the first, optionally shifted by a constant / a "
        "variable, or independent; polynomial stream (+,-,*,unary minus,** literal) and extended stream (also /, MOD, MIN, "
        "MAX, array accesses, symbolic exponent); MIN/MAX-sensitive pairs; pairs around left-nested powers (x**k)**m with literal "
        "and symbolic exponents (right reading x**(k*m), wrong reading x**(k**m), shifted); expressions to expand; equations to solve for i "
        "(mostly linear); translation points (expression, valuation). Non-trivial = at least 5 nodes in the pair (3 for a "
        "single expression); distinct by canonical JSON.")
    chk.assumptions += [
        "SymPy (simplify/expand/solveset/parse_expr) is external: contract SymEq/SymDiffConst in Props/C17.lean, and compared "
        "with the SymPy-free model on every generated case of the model's domain",
        "Fortran semantics of integer /, MOD, ** as in Model/SymMaths.evalF (python oracle cross-checked against it on every run)",
        "array accesses are total integer functions of their subscripts (two fixed interpretations on the grid)",
        "grid [-6,6]^vars decides the property evaluation of a real verdict (a wrong verdict of the modelled classes "
        "differs there)"]
    chk.cov["trusted_base"] = [
        "Lean 4.33.0 kernel", "axioms propext/Classical.choice/Quot.sound only (audited)",
        "SymPy (modelled by contract, not verified)", "fparser2/FortranReader used to re-read expand() results",
        "harness/props/c17.py, c17_expr.py (generators, PSyIR builder/reader, python Fortran evaluator)"]
    chk.lean()
    t0 = time.time()
    b = X.Builder()
    live_brk = live_brackets(b)
    ctx = Ctx(chk, MODEL_BRK, b, live_brk)
    chk.cov["live_writer_brackets_left_nested_power"] = live_brk
    chk.cov["model_toSym_brk"] = MODEL_BRK
    if not live_brk:
        chk.correspondence_broken("the live SymPyWriter/FortranWriter does not bracket a left-nested '**': (n**2)**3 "
                                  "reaches SymPy as n**(2**3); the deployed model is toSym true",
                                  {"e": "(n**2)**3"}, "n**6", "n**8")
    rng = chk.rng
    scale = 150 if chk.tier == "thorough" else 6
    # corpus of past/known failures first
    corpus = [(("mul", ("div", ("var", 2), ("lit", 2)), ("lit", 2)), ("var", 2), "corpus"),
              (("div", ("add", ("var", 2), ("lit", 2)), ("lit", 2)), ("div", ("var", 2), ("lit", 2)), "corpus"),
              (("mod", ("var", 2), ("lit", 2)), ("mod", ("add", ("var", 2), ("lit", 2)), ("lit", 2)), "corpus"),
              (("pow", ("pow", ("var", 2), 2), 3), ("pow", ("var", 2), 8), "corpus"),
              (("pow", ("pow", ("var", 2), 2), 3), ("pow", ("var", 2), 6), "corpus"),
              (("add", ("pow", ("pow", ("var", 0), 2), 3), ("lit", 1)), ("pow", ("var", 0), 6), "corpus"),
              (("add", ("pow", ("pow", ("var", 0), 2), 3), ("lit", 1)), ("pow", ("var", 0), 8), "corpus"),
              (("pow", ("pow", ("pow", ("var", 0), 2), 1), 3), ("pow", ("var", 0), 2), "corpus"),
              (("add", ("powe", ("powe", ("lit", 2), ("var", 1)), ("var", 2)), ("lit", 1)),
               ("powe", ("lit", 2), ("powe", ("var", 1), ("var", 2))), "corpus"),
              (("powe", ("powe", ("var", 0), ("var", 1)), ("var", 2)), ("powe", ("var", 0), ("powe", ("var", 1), ("var", 2))), "corpus"),
              (("pow", ("powe", ("lit", 2), ("var", 1)), 2), ("powe", ("lit", 2), ("pow", ("var", 1), 2)), "corpus"),
              (("sub", ("var", 0), ("neg", ("neg", ("var", 1)))), ("sub", ("var", 0), ("var", 1)), "corpus"),
              (("max", ("var", 0), ("add", ("var", 0), ("lit", 1))), ("add", ("var", 0), ("lit", 1)), "corpus"),
              (("min", ("var", 0), ("add", ("var", 0), ("lit", 1))), ("var", 0), "corpus"),
              (("arr1", 0, ("add", ("var", 0), ("lit", 1))), ("arr1", 0, ("add", ("lit", 1), ("var", 0))), "corpus"),
              (("add", ("arr1", 0, ("var", 0)), ("lit", 1)), ("arr1", 0, ("var", 0)), "corpus")]
    pairs = corpus + [X.gen_pair(rng, ext=False) for _ in range(110 * scale)]
    pairs += [X.gen_pair(rng, ext=True) for _ in range(130 * scale)]
    pairs += [X.gen_minmax_pair(rng) for _ in range(30 * scale)]
    pairs += [X.gen_nested_pow_pair(rng) for _ in range(8 * scale)]
    pairs += [X.gen_fraction_pair(rng) for _ in range(11 * scale)]
    file_pairs, file_ranges = load_corpus()
    pairs = file_pairs + pairs
    run_pairs(ctx, b, pairs)
    if not ctx.stop:
        triples = list(file_ranges)
        for _ in range(12 * scale):
            tr = [X.gen_pair(rng, ext=False, max_nodes=7) for _ in range(3)]
            r = rng.random()
            if r < 0.5:    # make the all-equal verdict frequent
                tr = [(e1, X.rewrite(rng, e1), "same") for e1, _, _ in tr]
            elif r < 0.65:  # identical ranges up to ONE component that differs by a constant / all by constants
                c = ("lit", rng.choice([1, 2]))
                k = rng.randrange(3)
                tr = [(e1, ("add", X.rewrite(rng, e1), c) if (i == k or r < 0.55) else X.rewrite(rng, e1), "shift")
                      for i, (e1, _, _) in enumerate(tr)]
            if all(X.size(e) <= 9 and X.degree(e, False) <= 6 and X.degree(e, True) <= 6 for t in tr for e in t[:2]):
                triples.append(tr)
        run_ranges(ctx, b, triples)
        # None arguments (some callers pass None): equal(None, None) is True, equal(None, x) False
        sm = _sm()
        nn, nx = sm.equal(None, None), sm.equal(None, b.node(("var", 0)))
        chk.case({"equal": [None, None], "result": nn}, nontrivial=False, agreed=(nn is True))
        chk.case({"equal": [None, "i"], "result": nx}, nontrivial=False, agreed=(nx is False))
        if nn is not True or nx is not False:
            chk.correspondence_broken("equal() on None arguments", {"none_none": nn, "none_i": nx}, [True, False], [nn, nx])
    chk.cov["seconds_pairs"] = round(time.time() - t0, 1)
    if not ctx.stop:
        exprs = [("mul", ("div", ("add", ("var", 2), ("lit", 1)), ("lit", 2)), ("lit", 2)), ("pow", ("pow", ("var", 2), 2), 3),
                 ("mul", ("pow", ("powe", ("var", 0), ("var", 1)), 2), ("add", ("var", 2), ("lit", 1)))]
        exprs += [X.gen_nested_pow_expr(rng) for _ in range(4 * scale)]
        for _ in range(60 * scale):
            for _ in range(100):
                e = (X.gen_poly if rng.random() < 0.5 else X.gen_ext)(rng, rng.randint(2, 10))
                if X.size(e) <= 12 and max(X.degree(e, False), X.degree(e, True)) <= 6:
                    exprs.append(e)
                    break
        run_expands(ctx, b, exprs)
    chk.cov["seconds_pairs_expands"] = round(time.time() - t0, 1)
    if not ctx.stop:
        eqs = [(("mul", ("div", ("var", 0), ("lit", 2)), ("lit", 2)), ("lit", 3))]
        eqs += [X.gen_linear_eq(rng, ext=(rng.random() < 0.35)) for _ in range(80 * scale)]
        eqs = [(e1, e2) for e1, e2 in eqs if max(X.degree(e1, False), X.degree(e2, False), X.degree(e1, True), X.degree(e2, True)) <= 6]
        run_solves(ctx, b, eqs)
    if not ctx.stop:
        i, j, n = ("var", 0), ("var", 1), ("var", 2)
        heqs = [(("add", ("mul", i, j), n), ("add", n, ("mul", ("lit", 2), j))),     # seeded/C17-3: i = 2, j = 0
                (("add", i, ("mul", ("lit", 2), j)), n), (("mul", i, i), ("add", j, ("lit", 1)))]
        heqs += [X.gen_multi_eq(rng) for _ in range(10 * scale)]
        heqs = [(e1, e2) for e1, e2 in heqs if max(X.degree(e1, True), X.degree(e2, True)) <= 6]
        run_histories(ctx, [b, X.Builder(names=["i", "lambda", "n"])], heqs)
    chk.cov["seconds_pairs_expands_solves"] = round(time.time() - t0, 1)
    if not ctx.stop:
        exprs = [X.gen_nested_pow_expr(rng) for _ in range(4 * scale)]
        for _ in range(60 * scale):
            e = (X.gen_poly if rng.random() < 0.4 else X.gen_ext)(rng, rng.randint(2, 10))
            if max(X.degree(e, False), X.degree(e, True)) <= 8:
                exprs.append(e)
        run_evals(ctx, b, exprs)
    # known findings: replay the witnesses against the real code
    for f in known():
        try:
            still = replay_finding(b, f)
        except Exception as err:
            raise common.Infra(f"replay of known finding {f['id']} failed: {err!r}")
        if still:
            chk.known(f["what"])
    chk.cov["anchored_line_coverage_measured_once"] = (
        "coverage.py over one quick run: symbolic_maths.py 95% (missed: VisitorError return of never_equal, the ImageSet "
        "branch of solve_equal_for - needs a transcendental function, not reachable from integer expressions - and the "
        "ValueError branch; Complexes, ConditionSet, Union, EmptySet and FiniteSet are exercised), sympy_writer.py 80% "
        "(missed: structure accesses, named arguments, declared-bounds/unknown-extent indices, whole-array references), "
        "sympy_reader.py 67% (missed: array sections)")
    chk.cov["distribution"] = dict(sorted(ctx.dist.items()))
    chk.cov["failing_inputs_attributed_to_known_findings"] = ctx.known_hits
    chk.cov["real_code_seconds"] = round(time.time() - t0, 1)


def replay(payload):
    b = X.Builder()
    kind = payload.get("kind")
    if kind is None:
        print("replay file holds no failing input (broken obligation / correspondence):")
        print(common.canon(payload.get("broken"))[:3000])
        return 1
    bad = None
    if kind in ("equal", "never_equal"):
        e1, e2 = X.from_json(payload["e1_tree"]), X.from_json(payload["e2_tree"])
        eq, ne, err = real_verdicts(b, e1, e2)
        print(f"e1 = {X.fortran(e1)}\ne2 = {X.fortran(e2)}\nreal code: equal={eq} never_equal={ne} raised={err}")
        bad = check_verdict(e1, e2, eq, ne)
    elif kind == "expand":
        e = X.from_json(payload["e_tree"])
        res, err = real_expand(b, e)
        print(f"e = {X.fortran(e)}\nreal code: expand -> {X.fortran(res) if res is not None else err}")
        bad = check_expand(e, res) if res is not None else None
    elif kind == "solve":
        e1, e2 = X.from_json(payload["e1_tree"]), X.from_json(payload["e2_tree"])
        sols, err = real_solve(b, e1, e2)
        print(f"solve {X.fortran(e1)} = {X.fortran(e2)} for i\nreal code: {sols if err is None else err}")
        bad = check_solutions(e1, e2, sols) if err is None else None
    elif kind == "history":
        bb = X.Builder(names=payload.get("names"))
        e1, e2 = X.from_json(payload["e1_tree"]), X.from_json(payload["e2_tree"])
        print(f"e1 = {X.fortran(e1)}\ne2 = {X.fortran(e2)}   (variable names {bb.names})")
        for op in [list(o) for o in payload["history"]] + [list(payload["op"])]:
            ans, bad = play(bb, e1, e2, op)
            print("  ", op, "->", ans[0] if op[0] != "verdicts" else ans)
        # `bad` is the evaluation of the last (failing) query after the recorded history
    elif kind == "range_never_equal":
        from psyclone.psyir.nodes import Range
        tr = [(X.from_json(a), X.from_json(c), "") for a, c in payload["triple"]]
        r1 = Range.create(*[b.node(e1) for e1, _, _ in tr])
        r2 = Range.create(*[b.node(e2) for _, e2, _ in tr])
        ne = bool(_sm().never_equal(r1, r2))
        env = ranges_coincide(tr)
        print(f"range1 = {payload['range1']}\nrange2 = {payload['range2']}\nreal code: never_equal={ne}")
        if ne and env is not None:
            bad = {"observed": f"never_equal() returned True for two ranges that are identical at {env}"}
    print("expected:", payload.get("expected"))
    print("observed:", bad["observed"] if bad else "property holds on the grid")
    return 1 if bad else 0
