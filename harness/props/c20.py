"""C20 — LFRic built-ins compute their documented operations.

Translator-tied: `gen()` regenerates `Gen/Builtins.lean` (data) and `Gen/BuiltinsThm.lean`
(one theorem group per entry of BUILTIN_MAP) from the live code and the live user guide on every
run; `Props/C20.lean` states the property over the generated table.  On top of that the check
(b) compares a Python twin of the model (exact Fractions) with the Lean driver on the same
(code|doc, argument values) cases, (c) evaluates the property itself on the exported code and the
parsed documentation for integer- and rational-valued 5-DoF fields under the four DM x annexed
settings (first differing built-in / setting / DoF = failing input), and in the thorough tier ties
the OpenMP-transformed variants (statement, bounds, reduction clause)."""
import itertools
import json
import os
import re
import time
from fractions import Fraction

import common
from common import driver, sx

from props import c20_extract as X

ACCESS = {"gh_read": 0, "gh_write": 1, "gh_readwrite": 2, "gh_sum": 3}
LAYOUT = {"owned": 3, "annexed": 4, "undf": 5}          # DoF layout used by the concrete evaluation
NDOF = 5
_STATE = {}


# ------------------------------------------------------------------------------------------ extraction
def extract(cache=True, names=None):
    """All built-ins under the four settings -> list of entries (in BUILTIN_MAP order)."""
    key = ("extract", cache, tuple(names) if names else None)
    if key in _STATE:
        return _STATE[key]
    t0 = time.time()
    bm = X.builtin_map()
    docs = X.doc_sections()
    f90 = X.f90_metadata()
    per_setting = [X.build(dm, ann, names=names, cache=cache) for dm, ann in X.SETTINGS]
    entries = []
    for idx, recs in enumerate(zip(*per_setting)):
        r0 = recs[0]
        cls = bm[r0["name"]]
        meta = X.metadata(cls)
        sec = docs.get(r0["name"])
        doc = X.parse_doc(sec, meta)
        codes = []
        for r in recs:
            lo = r["lo"][1] if r["lo"][0] == "const" else 0
            body = r["body"] if r["text_ok"] else ["fassign", 99, X.unk("generated text and lowered PSyIR differ")]
            codes.append({"init": r["init"], "lo": lo, "body": body})
        entries.append({
            "id": idx, "name": r0["name"], "case_name": r0["case_name"], "class": cls.__name__,
            "meta": meta, "meta_f90": f90.get(r0["name"]), "args": r0["args"],
            "codes": codes, "ubs": [r["ub"] for r in recs], "doc": doc,
            "doc_text": (sec or {}).get("formula"), "doc_sig": (sec or {}).get("signature"),
            "doc_args": (sec or {}).get("args"),
            "code_text": [r["body_fortran"] for r in recs], "ub_text": [r["ub_text"] for r in recs],
            "init_text": [r.get("init_text", []) for r in recs], "after_loop": [r["after_loop"] for r in recs],
            "text_ok": [r["text_ok"] for r in recs], "is_reduction": r0["is_reduction"],
        })
    _STATE[key] = entries
    _STATE["extract_s"] = round(time.time() - t0, 1)
    return entries


# ------------------------------------------------------------------------------------------ Lean generation
def _lean_code(c):
    return "⟨[" + ", ".join(X.lean_stmt(s) for s in c["init"]) + f"], {c['lo']}, {X.lean_stmt(c['body'])}⟩"


def _lean_args(meta):
    out = []
    for kind, dtype, access in meta:
        out.append(f"⟨{0 if kind == 'field' else 1}, {0 if dtype == 'gh_real' else 1}, {ACCESS.get(access, 9)}⟩")
    return "[" + ", ".join(out) + "]"


def lean_files(entries):
    head = ("/-! GENERATED on every run by harness/props/c20.py from the live PSyclone tree\n"
            "(lfric_builtins.py lowered inside one-built-in invokes, lfric_loop.py bounds, the generated PSy-layer\n"
            "text, and the `::` formula blocks of doc/user_guide/dynamo0p3.rst).  DO NOT EDIT. -/\n")
    d = ["import PsyVerif.Model.Builtins", head, "namespace C20.Gen", "open C20", ""]
    t = ["import PsyVerif.Gen.Builtins", "import PsyVerif.Lemmas.Builtins", head, "namespace C20.Gen", "open C20", ""]
    names = []
    for e in entries:
        n = e["case_name"]
        names.append(n)
        c0 = e["codes"][0]
        d.append(f"/-- `{n}`: code `{'; '.join(X.pretty_stmt(s) for s in c0['init'] + [c0['body']])}`"
                 f" — doc `{' / '.join(e['doc_text'] or ['<none>'])}` -/")
        d.append(f"def code_{n} : Code := {_lean_code(c0)}")
        d.append(f"def doc_{n} : Doc := {X.lean_stmt(e['doc'])}")
        d.append(f"def b_{n} : Builtin := ⟨{e['id']}, {_lean_args(e['meta'])}, code_{n}, doc_{n}, "
                 f"[{', '.join(X.lean_bound(b) for b in e['ubs'])}], "
                 f"[{', '.join(_lean_code(c) for c in e['codes'])}]⟩")
        d.append("")
        body, doc = c0["body"], e["doc"]
        if body[0] == "fassign" and doc[0] == "arrayAssign":
            proof = "implements_assign (by c20_pointwise)"
        elif body[0] == "sassign" and doc[0] == "sum":
            proof = "implements_sum (by c20_zero) (by c20_pointwise) (by decide)"
        elif body[0] == "rand" and doc[0] == "randomFill":
            proof = "implements_rand"
        else:
            proof = "implements_assign (by c20_pointwise)"   # forms differ: does not type-check, reported under this name
        t.append(f"theorem impl_{n} : Implements code_{n} doc_{n} := {proof}")
        t.append(f"theorem bounds_{n} : ∀ dm annexed, (b_{n}).bound dm annexed = docBound dm annexed (b_{n}).isReduction := by decide")
        t.append(f"theorem meta_{n} : ((b_{n}).written = [(b_{n}).doc.target] ∧ (b_{n}).code.body.target = (b_{n}).doc.target) := by decide")
        t.append(f"theorem variants_{n} : ∀ c ∈ (b_{n}).variants, c = (b_{n}).code := by decide")
        t.append(f"theorem domain_{n} : SameDomain code_{n} doc_{n} := by c20_domain")
        t.append(f"theorem correct_{n} : Correct b_{n} :=\n  ⟨impl_{n}, bounds_{n}, meta_{n}, by decide, domain_{n}, variants_{n}⟩")
        t.append("")
    d.append("def table : List Builtin := [" + ", ".join("b_" + n for n in names) + "]")
    d.append("")
    d.append("end C20.Gen")
    term = "List.forall_mem_nil _"
    for n in reversed(names):
        term = f"List.forall_mem_cons.mpr ⟨correct_{n}, {term}⟩"
    t.append("set_option maxRecDepth 4096 in")
    t.append(f"theorem all_correct : ∀ b ∈ table, Correct b :=\n  {term}")
    t.append("")
    t.append("end C20.Gen")
    return {"PsyVerif/Gen/Builtins.lean": "\n".join(d) + "\n", "PsyVerif/Gen/BuiltinsThm.lean": "\n".join(t) + "\n"}


def gen():
    return lean_files(extract())


# ------------------------------------------------------------------------------------------ Python twin of the model
class Undefined(Exception):
    pass


def _trunc(q):
    return Fraction(int(q))          # int() truncates towards zero


def ev(e, env, df):
    k = e[0]
    if k == "fld":
        return env["flds"][e[1]][df - 1] if 1 <= df <= len(env["flds"][e[1]]) else Fraction(0)
    if k == "scal":
        return env["scals"][e[1]]
    if k == "lit":
        return Fraction(e[1], e[2])
    if k == "unk":
        return Fraction(0)
    if k in ("neg", "abs", "toInt", "toReal"):
        a = ev(e[1], env, df)
        return {"neg": -a, "abs": abs(a), "toInt": _trunc(a), "toReal": a}[k]
    a, b = ev(e[1], env, df), ev(e[2], env, df)
    if k == "add":
        return a + b
    if k == "sub":
        return a - b
    if k == "mul":
        return a * b
    if k == "div":
        if b == 0:
            raise Undefined("division by zero")
        return a / b
    if k == "pow":
        if b.denominator != 1 or (b < 0 and a == 0):
            raise Undefined("power outside the exact domain")
        return a ** int(b)
    if k == "sign":
        return -abs(a) if b < 0 else abs(a)
    if k == "min":
        return b if b < a else a
    if k == "max":
        return b if a < b else a
    if k == "mod":
        if b == 0:
            raise Undefined("mod by zero")
        return a - _trunc(a / b) * b
    raise common.Infra("C20 twin: unknown node " + str(k))


def copy_env(env):
    return {"flds": [list(r) for r in env["flds"]], "scals": list(env["scals"]), "rnd": list(env["rnd"])}


def exec_stmt(s, env, df):
    if s[0] == "fassign":
        v = ev(s[2], env, df)
        if s[1] < len(env["flds"]) and 1 <= df <= NDOF:
            env["flds"][s[1]][df - 1] = v
    elif s[0] == "sassign":
        v = ev(s[2], env, df)
        if s[1] < len(env["scals"]):
            env["scals"][s[1]] = v
    elif s[0] == "rand":
        if s[1] < len(env["flds"]) and 1 <= df <= NDOF:
            env["flds"][s[1]][df - 1] = env["rnd"][df - 1]


def run_code(code, ub, env, order=None):
    env = copy_env(env)
    for s in code["init"]:
        exec_stmt(s, env, 0)
    dfs = list(range(code["lo"], ub + 1))
    if order is not None:
        dfs = [dfs[i] for i in order if i < len(dfs)]
    for df in dfs:
        exec_stmt(code["body"], env, df)
    return env


def apply_doc(doc, n, env):
    out = copy_env(env)
    if doc[0] == "arrayAssign":
        for df in range(1, n + 1):
            v = ev(doc[2], env, df)
            if doc[1] < len(out["flds"]):
                out["flds"][doc[1]][df - 1] = v
    elif doc[0] == "sum":
        out["scals"][doc[1]] = sum((ev(doc[2], env, df) for df in range(1, n + 1)), Fraction(0))
    elif doc[0] == "randomFill":
        for df in range(1, n + 1):
            out["flds"][doc[1]][df - 1] = env["rnd"][df - 1]
    return out


def bound_value(b):
    if b[0] in LAYOUT:
        return LAYOUT[b[0]]
    if b[0] == "const":
        return b[1]
    if b[0] == "halo":
        return NDOF
    return 0


def doc_bound(dm, annexed, reduction):
    if not dm:
        return ["undf"]
    return ["annexed"] if annexed and not reduction else ["owned"]


def fr(x):
    x = Fraction(x)
    return str(x.numerator) if x.denominator == 1 else f"{x.numerator}/{x.denominator}"


def env_sx(env):
    return ["env", ["flds"] + [[fr(v) for v in row] for row in env["flds"]],
            ["scals"] + [fr(v) for v in env["scals"]], ["rnd"] + [fr(v) for v in env["rnd"]]]


def show_env(env):
    return "(flds " + " ".join("(" + " ".join(fr(v) for v in row) + ")" for row in env["flds"]) + \
           ") (scals " + " ".join(fr(v) for v in env["scals"]) + ")"


def code_sx(c):
    return ["code", list(c["init"]), c["lo"], c["body"]]


def make_env(rng, nargs, kind):
    """kind: 'int' small integers (non-zero divisors likely), 'rat' dyadic rationals, 'edge' zeros/negatives."""
    def val():
        if kind == "int":
            return Fraction(rng.choice([-7, -3, -2, -1, 1, 2, 3, 5, 8]))
        if kind == "rat":
            return Fraction(rng.randint(-40, 40), rng.choice([1, 2, 4, 8]))
        return Fraction(rng.choice([0, 0, -1, 1, -2, 2, 3]))
    return {"flds": [[val() for _ in range(NDOF)] for _ in range(nargs)],
            "scals": [Fraction(rng.choice([-3, -2, -1, 0, 1, 2, 3])) if kind != "rat" or rng.random() < 0.5
                      else Fraction(rng.randint(-9, 9), 2) for _ in range(nargs)],
            "rnd": [Fraction(rng.randint(0, 15), 16) for _ in range(NDOF)]}


def first_difference(a, b):
    for i, (ra, rb) in enumerate(zip(a["flds"], b["flds"])):
        for d, (x, y) in enumerate(zip(ra, rb)):
            if x != y:
                return {"where": f"argument {i} DoF {d + 1}", "code_value": fr(x), "documented_value": fr(y)}
    for i, (x, y) in enumerate(zip(a["scals"], b["scals"])):
        if x != y:
            return {"where": f"scalar argument {i}", "code_value": fr(x), "documented_value": fr(y)}
    return None


def property_on(entry, env, si):
    """The property itself for one built-in, one setting, one set of argument values.
    Returns None (holds / outside the exact domain) or a description of the difference."""
    dm, ann = X.SETTINGS[si]
    code, ub = entry["codes"][si], entry["ubs"][si]
    reduction = any(a == "gh_sum" for _, _, a in entry["meta"])
    n_doc = bound_value(doc_bound(dm, ann, reduction))
    try:
        want = apply_doc(entry["doc"], n_doc, env)
    except Undefined:
        return None                       # documented operation itself undefined on these values
    try:
        got = run_code(code, bound_value(ub), env)
    except Undefined as e:
        return {"where": "whole loop", "code_value": "undefined: " + str(e), "documented_value": "defined"}
    diff = first_difference(got, want)
    if diff:
        diff["loop_upper_bound"] = ub
        diff["documented_range"] = doc_bound(dm, ann, reduction)
    return diff


def structural_issue(entry):
    """Facts the generated theorems also state (metadata / bounds / written argument); evaluated concretely."""
    issues = []
    written = [i for i, (_, _, a) in enumerate(entry["meta"]) if a in ("gh_write", "gh_readwrite", "gh_sum")]
    if written != [entry["doc"][1]]:
        issues.append(f"documented result argument {entry['doc'][1]} but metadata writes {written}")
    if entry["meta_f90"] != entry["meta"]:
        issues.append("metadata() of the class differs from lfric_builtins_mod.f90")
    if entry["doc_args"] and len(entry["doc_args"]) != len(entry["meta"]):
        issues.append("documented signature has a different number of arguments")
    if entry["doc_args"]:
        bold = [i for i, (_, b) in enumerate(entry["doc_args"]) if b]
        if bold != written:
            issues.append(f"bold (modified) argument in the documentation {bold} != written argument {written}")
    # nothing after the loop may touch an argument, except the global sum of a reduction under DM
    for si, (dm, _) in enumerate(X.SETTINGS):
        var = e_args[entry["doc"][1]] if (e_args := entry["args"]) else None
        expect = [f"global_sum%value = {var}", f"{var} = global_sum%get_sum()"] if (dm and entry["is_reduction"]) else []
        assigns = [l for l in entry["after_loop"][si] if not l.upper().startswith("CALL ") and "=" in l]
        if [X._norm_f(l) for l in assigns] != [X._norm_f(l) for l in expect]:
            issues.append(f"statements after the DoF loop (dm={dm}): {assigns} expected {expect}")
    return issues


# ------------------------------------------------------------------------------------------ the check
def run(chk):
    t0 = time.time()
    chk.cov["rule"] = ("one case = (built-in, DM x annexed setting, argument values on 5 DoFs with layout owned=3 "
                       "annexed=4 undf=5); values: small integers, dyadic rationals, and an edge stream with zeros and "
                       "negatives; code (generated loop) and documentation (array formula) are both evaluated by the "
                       "Python twin and by the Lean driver; non-trivial = the operation is inside the exact domain "
                       "and changes the state; distinct by canonical JSON")
    chk.assumptions += [
        "numeric domain: exact rationals (integer fields = denominator 1); floating-point rounding, overflow and "
        "precision conversion (kind=) are outside the model; REAL(x,kind) is the identity, INT truncates",
        "x**a is modelled for integer-valued a only (exactly representable results)",
        "RANDOM_NUMBER is an oracle indexed by DoF; the documentation's RAND() is the same oracle",
        "all DoFs of a partition are numbered 1..undf with owned first, then annexed (developer guide, APIs.rst)",
        "OpenMP: iterations of a DoF loop are independent and a reduction(+) clause adds the partial sums "
        "(order-independence of the sum is proved: C20_reduction_order_irrelevant)"]
    chk.cov["trusted_base"] = [
        "Lean 4.33.0 kernel; axioms propext/Classical.choice/Quot.sound only (audited)",
        "translator harness/props/c20_extract.py: PSyIR->AST exporter (checked against the generated Fortran text "
        "of the same loop on every run) and the rst formula parser (its output is printed in samples/doc_parse)",
        "fparser/LFRic algorithm parsing used to build the synthetic one-built-in invokes",
        "Python twin evaluator (compared with the Lean driver on every case)"]

    ok = chk.lean(gen=gen)
    chk.cov["lean_s_including_lock_wait_and_extraction"] = round(time.time() - t0, 1)
    entries = extract()
    chk.cov["generated_theorems"] = 7 * len(entries) + 1
    chk.cov["builtins"] = len(entries)
    chk.cov["extract_s"] = _STATE.get("extract_s")
    chk.cov["doc_parse"] = [{"builtin": e["case_name"], "rst": e["doc_text"], "signature": e["doc_sig"],
                             "parsed": X.pretty_stmt(e["doc"]), "code": e["code_text"][0],
                             "exported": X.pretty_stmt(e["codes"][0]["body"]),
                             "bounds": [b[0] for b in e["ubs"]]} for e in entries]
    failed = []
    if not ok and chk.build is not None:
        failed = sorted({re.sub(r"^(impl|bounds|meta|variants|domain|correct)_", "", d.split(":")[-1])
                         for d in chk.build.failed_decls if "BuiltinsThm" in d})
        chk.cov["failed_builtin_theorems"] = chk.build.failed_decls[:20]

    # ---- (c) the property itself + (b) twin vs Lean driver, same cases ------------------------------------
    per_kind = {"quick": {"int": 3, "rat": 2, "edge": 2}, "thorough": {"int": 12, "rat": 10, "edge": 8}}[
        "thorough" if chk.tier == "thorough" else "quick"]
    cases, lines = [], []
    corpus = load_corpus()
    for e in entries:
        nargs = len(e["meta"])
        envs = [c["env"] for c in corpus if c.get("builtin") == e["case_name"]]
        envs = [{"flds": [[Fraction(v) for v in r] for r in c["flds"]], "scals": [Fraction(v) for v in c["scals"]],
                 "rnd": [Fraction(v) for v in c["rnd"]]} for c in envs]
        for kind, n in per_kind.items():
            envs += [make_env(chk.rng, nargs, kind) for _ in range(n)]
        for env in envs:
            for si in range(4):
                cases.append((e, env, si))
    violation = None
    dist = {"holds": 0, "outside_domain": 0, "differs": 0}
    for e, env, si in cases:
        dm, ann = X.SETTINGS[si]
        reduction = any(a == "gh_sum" for _, _, a in e["meta"])
        ubv, nv = bound_value(e["ubs"][si]), bound_value(doc_bound(dm, ann, reduction))
        nargs = len(e["meta"])
        lines.append(sx(["run", code_sx(e["codes"][si]), ubv, nargs, NDOF, env_sx(env)]))
        lines.append(sx(["apply", e["doc"], nv, nargs, NDOF, env_sx(env)]))
    outs = driver("C20", lines)
    sampled = 0
    for k, (e, env, si) in enumerate(cases):
        dm, ann = X.SETTINGS[si]
        reduction = any(a == "gh_sum" for _, _, a in e["meta"])
        ubv, nv = bound_value(e["ubs"][si]), bound_value(doc_bound(dm, ann, reduction))
        m_code, m_doc = outs[2 * k], outs[2 * k + 1]
        case = {"builtin": e["case_name"], "dm": dm, "annexed": ann,
                "env": {"flds": [[fr(v) for v in r] for r in env["flds"]], "scals": [fr(v) for v in env["scals"]],
                        "rnd": [fr(v) for v in env["rnd"]]}}
        # twin vs driver (defined cases only: the Lean model totalises x/0 := 0)
        try:
            t_code = show_env(run_code(e["codes"][si], ubv, env))
            t_doc = show_env(apply_doc(e["doc"], nv, env))
            defined = True
        except Undefined:
            defined = False
            t_code = t_doc = None
        agreed = (not defined) or (t_code == m_code and t_doc == m_doc)
        nontrivial = defined and t_doc != show_env(env)
        chk.case(dict(case, result=m_doc) if sampled < 400 else {"k": k}, nontrivial=nontrivial, agreed=agreed)
        sampled += 1
        if not agreed:
            chk.correspondence_broken("Python twin evaluator differs from the Lean model C20.Code.run / C20.Doc.apply",
                                      case, [m_code, m_doc], [t_code, t_doc])
        diff = property_on(e, env, si)
        if not defined and diff is None:
            dist["outside_domain"] += 1
        elif diff is None:
            dist["holds"] += 1
        else:
            dist["differs"] += 1
            if violation is None:
                violation = dict(case, kind="failing-input", observed=diff,
                                 expected=f"documented: {' / '.join(e['doc_text'] or [])}  ({X.pretty_stmt(e['doc'])} over "
                                          f"{doc_bound(dm, ann, reduction)[0]} DoFs)",
                                 generated_code=e["code_text"][si], loop_upper_bound=e["ub_text"][si],
                                 layout=LAYOUT)
    chk.cov["distribution"] = dist
    struct = [(e, s) for e in entries for s in structural_issue(e)]
    if violation is None and struct:
        e, s = struct[0]
        violation = {"builtin": e["case_name"], "kind": "failing-input", "observed": s,
                     "expected": "metadata, documentation signature and generated code agree on the written argument"}
    for e in entries:
        if not all(e["text_ok"]):
            chk.correspondence_broken("exported PSyIR statement differs from the generated PSy-layer text",
                                      e["case_name"], e["code_text"], e["text_ok"])

    # ---- thorough: no parse cache, OpenMP variants ---------------------------------------------------------
    t_omp = time.time()
    sample = tuple(n for n in OMP_SAMPLE if n in X.builtin_map())
    omp_issue = omp_check(chk, entries, names=sample, settings=((False, False),))
    if omp_issue is None:
        omp_issue = omp_check(chk, entries, names=sample, schedules=["none", "static", "dynamic,2"], settings=((True, True),))
    chk.cov["openmp_quick_s"] = round(time.time() - t_omp, 1)
    if violation is None and omp_issue:
        violation = omp_issue
    fuse_issue, _ = fusion_check(chk, entries)
    if violation is None and fuse_issue:
        violation = fuse_issue
    if chk.tier == "thorough":
        omp_issue = omp_check(chk, entries, schedules=["none", "static", "guided,8"])
        oracle_check(chk, entries)
        if violation is None and omp_issue:
            violation = omp_issue
        exec_issue = omp_exec_check(chk, entries)
        if violation is None and exec_issue:
            violation = exec_issue
        uncached = extract(cache=False)
        if json.dumps([(e["codes"], e["ubs"], e["doc"]) for e in uncached]) != \
           json.dumps([(e["codes"], e["ubs"], e["doc"]) for e in entries]):
            chk.correspondence_broken("extraction with and without the built-in definition parse cache differ", "", "", "")
    if violation is not None:
        chk.violation(violation)
    elif failed:
        chk.cov["note"] = "generated theorems failed for: " + ", ".join(failed)
    for kf in common.known_findings("C20"):
        if replay(kf["witness"], quiet=True):
            chk.known(kf["what"])
    chk.cov["check_s"] = round(time.time() - t0, 1)


def reprod_ok(e, r, si):
    """Reproducible OpenMP reduction: per-thread partial sums `l_s(1,th_idx)` (zeroed), same summand, then
    `s = s + l_s(1,th_idx)` over the threads."""
    nf = X._norm_f
    var = e["args"][e["doc"][1]]
    base = e["code_text"][si]
    prefix = f"{var} = {var} + "
    if not base.startswith(prefix) or len(r["body_text"]) != 1:
        return False
    summand = base[len(prefix):]
    lines = [nf(l) for l in r["code_lines"]]
    want_body = nf(f"l_{var}(1,th_idx) = l_{var}(1,th_idx) + {summand}")
    zero = any(re.fullmatch(nf(f"l_{var}=") + r"0(\.0*)?(_\w+)?", l) for l in lines)
    try:
        k = lines.index(nf(f"{var} = {var}+l_{var}(1,th_idx)"))
    except ValueError:
        return False
    in_loop = k > 0 and re.fullmatch(r"doth_idx=1,\w+", lines[k - 1]) is not None and lines[k + 1] == "enddo"
    return nf(r["body_text"][0]) == want_body and zero and in_loop


OMP_SCHEDULES = ["none", "static", "dynamic", "guided", "auto", "runtime", "static,4", "dynamic,2", "guided,8"]
OMP_MODES = ("paralleldo", "do", "do-reprod")
# quick tier: every reduction built-in + a sample of element-wise ones (real/integer, scalar/field operands,
# intrinsic, conversion, random); thorough tier: all built-ins
OMP_SAMPLE = ("x_innerproduct_y", "x_innerproduct_x", "sum_x", "x_plus_y", "inc_a_times_x", "setval_c",
              "inc_x_powint_n", "sign_x", "real_to_int_x", "int_x_plus_y", "setval_random")


def omp_sharing_issue(e, r):
    """The precondition of C20_omp_reduction_clause / C20_elementwise_order_irrelevant, evaluated on the
    generated text: the DoF loop is work-shared inside a parallel region; only the loop index (and the
    thread index of the reproducible scheme) is private; a loop that accumulates into a scalar carries a
    matching `reduction(+:var)` clause (each thread then adds into a zero-initialised private copy and the
    copies are combined with +), or it uses the thread-local array scheme `l_var(1,th_idx)` with zeroing and
    the final sequential combining loop.  Returns None or the reason."""
    nf = X._norm_f
    enc = [nf(l) for l in r["omp_enclosing"]]
    if not any(l.startswith("!$ompparallel") for l in enc):
        return "DoF loop is not inside an OpenMP parallel region"
    if not any(l.startswith("!$ompdo") or l.startswith("!$ompparalleldo") for l in enc):
        return "DoF loop is not work-shared (no omp do)"
    if len(r["body_text"]) != 1:
        return "loop body is not a single statement"
    priv = set()
    for l in enc:
        for m in re.finditer(r"(?:first|last)?private\(([^)]*)\)", l):
            priv |= set(m.group(1).split(","))
    allowed = {"df", "th_idx"}
    if not priv <= allowed:
        return f"variables {sorted(priv - allowed)} are private to the threads (results would be lost)"
    body = nf(r["body_text"][0])
    m = re.match(r"(\w+)=", body)
    scalars = [a for a, (k, _, _) in zip(e["args"], e["meta"]) if k == "scalar"]
    if m and m.group(1) in scalars:
        var = m.group(1)
        if not any(f"reduction(+:{var})" in l for l in enc):
            return (f"work-shared loop accumulates into the shared scalar '{var}' without a reduction(+:{var}) "
                    f"clause: concurrent read-modify-write, the result is not the documented sum")
        return None
    m = re.match(r"l_(\w+)\(1,th_idx\)=", body)
    if m:
        if "th_idx" not in priv:
            return "thread index th_idx is shared"
        lines = [nf(l) for l in r["code_lines"]]
        if "th_idx=omp_get_thread_num()+1" not in lines:
            return "th_idx is not set from omp_get_thread_num()"
        return None        # zeroing / same summand / combining loop: reprod_ok (statement check)
    if any("reduction(" in l for l in enc) and not e["is_reduction"]:
        return "reduction clause on an element-wise built-in"
    if not re.match(r"(\w+_data\(df\)=|callrandom_number\(\w+_data\(df\)\))", body):
        return "element-wise statement does not write element df only"
    return None


def omp_variant_issue(e, r, si, mode):
    """(i) statement, zero-initialisation and bounds unchanged by the OpenMP transformation; (ii) data sharing."""
    base = e["codes"][si]
    why = []
    body_ok = r["body"] == base["body"]
    if mode == "do-reprod" and e["is_reduction"]:
        body_ok = reprod_ok(e, r, si)
    if not body_ok:
        why.append("statement changed" if not (mode == "do-reprod" and e["is_reduction"]) else
                   "reproducible reduction is not: zeroed l_var, same summand into l_var(1,th_idx), final s = s + l_var(1,th_idx) loop")
    if r["ub"] != e["ubs"][si] or r["lo"] != ["const", 1]:
        why.append("loop bounds changed")
    if r["init"] != base["init"]:
        why.append("zero-initialisation changed")
    sh = omp_sharing_issue(e, r)
    if sh:
        why.append(sh)
    return why


def omp_check(chk, entries, names=None, schedules=None, modes=OMP_MODES, settings=((False, False), (True, True))):
    """OpenMP-parallelised variants for every omp_schedule x {parallel do, do, do+reprod}."""
    issue = None
    summary = {}
    by_name = {e["name"]: e for e in entries}
    for sched in (schedules or OMP_SCHEDULES):
        for mode in modes:
            for dm, ann in settings:
                try:
                    recs = X.build(dm, ann, omp=(mode, sched), names=names)
                except Exception as err:   # noqa: BLE001  (a transformation refusing is reported, not hidden)
                    chk.correspondence_broken(f"OpenMP variant {mode}/{sched} dm={dm} could not be generated",
                                              str(err)[:300], "", "")
                    continue
                si = X.SETTINGS.index((dm, ann))
                n_ok = 0
                for r in recs:
                    e = by_name[r["name"]]
                    why = omp_variant_issue(e, r, si, mode)
                    if not why:
                        n_ok += 1
                    elif issue is None:
                        issue = {"builtin": e["case_name"], "kind": "failing-input", "dm": dm, "annexed": ann,
                                 "openmp": mode, "omp_schedule": sched, "reprod": mode == "do-reprod",
                                 "transformations": ("DynamoOMPParallelLoopTrans" if mode == "paralleldo" else
                                                     "Dynamo0p3OMPLoopTrans + OMPParallelTrans")
                                                    + f"(omp_schedule='{sched}')",
                                 "observed": {"why": why, "directives": r["omp_enclosing"], "statement": r["body_text"],
                                              "upper_bound": r["ub_text"], "init": r.get("init_text"),
                                              "reduction_lines": [l for l in r["code_lines"] if "l_" in l or "th_idx" in l]},
                                 "expected": {"statement": e["code_text"][si], "upper_bound": e["ub_text"][si],
                                              "data_sharing": "reduction(+:var) clause on the work-shared loop, or the "
                                                              "thread-local array scheme" if e["is_reduction"] else
                                                              "only df private"}}
                summary[f"{mode}/{sched}/dm={dm}"] = f"{n_ok}/{len(recs)}"
    chk.cov.setdefault("openmp_variants_ok", {}).update(summary)
    return issue


OMP_EXEC = ("x_innerproduct_y", "x_innerproduct_x", "sum_x", "x_plus_y", "inc_a_times_x", "ax_plus_by")


def omp_exec_check(chk, entries):
    """thorough tier: compile the generated OpenMP PSy module (dm off) with gfortran -fopenmp against a mock
    field API, run with 8 threads on integer-valued data, compare with the documented formula."""
    from props import c20_fexec
    names = tuple(n for n in OMP_EXEC if n in X.builtin_map())
    by_name = {e["name"]: e for e in entries}
    issue, summary = None, {}
    for mode, sched in (("do", "none"), ("do", "static"), ("do", "dynamic,2"), ("do-reprod", "none"),
                        ("paralleldo", "none"), ("paralleldo", "guided,8")):
        recs = X.build(False, False, names=names, omp=(mode, sched))
        ents = [by_name[r["name"]] for r in recs]
        ok, out = c20_fexec.omp_run(X.LAST_GEN["text"], ents)
        summary[f"{mode}/{sched}"] = "ok" if ok else ("compile-error" if ok is None else "wrong-result")
        if ok is None:
            chk.correspondence_broken(f"gfortran -fopenmp could not compile the generated PSy layer ({mode}/{sched})", out, "", "")
        elif not ok and issue is None:
            first = next((l for l in out.splitlines() if l.startswith("MISMATCH")), out[-300:])
            bad = next((e for e in ents if e["case_name"] in first), ents[0])
            issue = {"builtin": bad["case_name"], "kind": "failing-input", "dm": False, "annexed": False, "openmp": mode,
                     "omp_schedule": sched, "reprod": mode == "do-reprod", "executed": "gfortran -fopenmp, 8 threads, 300000 DoFs",
                     "observed": {"why": [first]}, "expected": "documented formula evaluated serially"}
    chk.cov["openmp_execution"] = summary
    return issue


def oracle_check(chk, entries):
    """gfortran executes the generated loop text; result compared with the twin of the Lean model."""
    from props import c20_fexec
    cases = []
    for e in entries:
        if e["codes"][0]["body"][0] == "rand" or not all(e["text_ok"]):
            continue
        nargs = len(e["meta"])
        for kind in ("int", "rat", "edge", "rat"):
            env = make_env(chk.rng, nargs, kind)
            for pos, (_, dtype, _) in enumerate(e["meta"]):
                if dtype == "gh_integer":
                    env["flds"][pos] = [Fraction(int(v)) for v in env["flds"][pos]]
                    env["scals"][pos] = Fraction(int(env["scals"][pos]))
            if "pow" in json.dumps(e["codes"][0]["body"]):
                env["flds"] = [[abs(v) + 1 for v in row] for row in env["flds"]]
            try:
                want = run_code(e["codes"][0], NDOF, env)
            except Undefined:
                continue
            cases.append((e, 0, env, NDOF, want))
    res, err = c20_fexec.run([c[:4] for c in cases])
    if res is None:
        chk.correspondence_broken("gfortran could not compile/run the generated loops", err, "", "")
        return
    bad = 0
    for (e, _, env, _, want), got in zip(cases, res):
        for pos, ((kind, _, _), vals) in enumerate(zip(e["meta"], got)):
            exp = want["flds"][pos] if kind == "field" else [want["scals"][pos]]
            if len(vals) != len(exp) or any(abs(g - float(x)) > 1e-11 * (1 + abs(float(x))) for g, x in zip(vals, exp)):
                bad += 1
                if bad == 1:
                    chk.correspondence_broken(
                        "gfortran execution of the generated loop differs from the model semantics",
                        {"builtin": e["case_name"], "statement": e["code_text"][0],
                         "env": {"flds": [[fr(v) for v in r] for r in env["flds"]], "scals": [fr(v) for v in env["scals"]]}},
                        [fr(x) for x in exp], vals)
                break
    chk.cov["gfortran_oracle"] = {"cases": len(cases), "disagreements": bad}


# ------------------------------------------------------------------------------------------ loop fusion family
def run_program(prog, env):
    env = copy_env(env)
    for item in prog:
        if item[0] == "init":
            exec_stmt(item[1], env, 0)
        else:
            lo = item[1][1] if item[1][0] == "const" else 0
            for df in range(lo, bound_value(item[2]) + 1):
                for st in item[3]:
                    exec_stmt(st, env, df)
    return env


def prog_sx(prog):
    out = []
    for item in prog:
        if item[0] == "init":
            out.append(["init", item[1]])
        else:
            out.append(["loop", item[1][1] if item[1][0] == "const" else 0, bound_value(item[2]), list(item[3])])
    return out


def fusion_env(rng, kind):
    from props import c20_fusion as F
    return make_env(rng, len(F.SCALARS), kind)     # 4 field rows (the 4th is unused), 4 scalars


def fusion_expected(calls, by_name, env):
    from props import c20_fusion as F
    for name, args in calls:
        env = apply_doc(F.rename_doc(by_name[name]["doc"], args), NDOF, env)
    return env


def fusion_evaluate(rec, by_name, env):
    """None, or the first difference between the fused generated code and the documented built-in sequence."""
    if not isinstance(rec["program"], list):
        return {"where": "generated fused code", "code_value": rec["program"], "documented_value": "-"}
    try:
        want = fusion_expected(rec["calls"], by_name, env)
        got = run_program(rec["program"], env)
    except Undefined:
        return None
    return first_difference(got, want)


def fusion_payload(rec, env, diff, case_names):
    from props import c20_fusion as F
    prog = rec["program"] if isinstance(rec["program"], list) else []
    return {"kind": "failing-input", "fusion": {"calls": [[n, a] for n, a in rec["calls"]], "history": rec["history"],
                                                "same_space": rec["same_space"]},
            "invoke": "call invoke(" + F.invoke_text(rec["calls"], case_names) + ")",
            "transformations": [f"LFRicLoopFuseTrans().apply(schedule[{p}], schedule[{p + 1}], {{'same_space': True}})"
                                for p in rec["history"]],
            "variables": {"fields": F.FIELDS, "scalars": F.SCALARS},
            "env": {"flds": [[fr(v) for v in r] for r in env["flds"]], "scals": [fr(v) for v in env["scals"]],
                    "rnd": [fr(v) for v in env["rnd"]]},
            "generated": [(["DO df"] + it[4] + ["END DO"]) if it[0] == "loop" else X.pretty_stmt(it[1]) for it in prog],
            "observed": diff, "expected": "each built-in applied to all DoFs, in invoke order, by its documented formula"}


def fusion_scenarios(chk, by_name):
    from props import c20_fusion as F
    metas = {n: by_name[n]["meta"] for n in F.POOL if n in by_name}
    scen = [c for c in F.CORE if all(n in by_name for n, _ in c)]
    for c in load_corpus():
        if "fusion" in c:
            calls = [(n, a) for n, a in c["fusion"]["calls"]]
            if calls not in scen and all(n in by_name for n, _ in calls):
                scen.append(calls)
    for _ in range(40 if chk.tier == "thorough" else 8):
        scen.append(F.random_scenario(chk.rng, metas))
    return scen


def fusion_check(chk, entries):
    from props import c20_fusion as F
    t0 = time.time()
    by_name = {e["name"]: e for e in entries}
    case_names = {e["name"]: e["case_name"] for e in entries}
    scen = fusion_scenarios(chk, by_name)
    recs = F.fused_programs(scen, case_names, every_history=(chk.tier == "thorough"))
    accepted = [r for r in recs if r["accepted"]]
    stats = {"scenarios": len(scen), "histories_tried": len(recs), "accepted": len(accepted),
             "refused": len(recs) - len(accepted), "holds": 0, "known_class": 0, "differs": 0}
    violation, known_hit, lines, cases = None, False, [], []
    envs = [fusion_env(chk.rng, k) for k in ("int", "int", "rat", "edge")]
    corpus_envs = {}
    for c in load_corpus():
        if "fusion" in c:
            corpus_envs.setdefault(repr([(n, a) for n, a in c["fusion"]["calls"]]), []).append(
                {"flds": ([[Fraction(v) for v in r] for r in c["env"]["flds"]] + [[Fraction(0)] * NDOF] * 4)[:len(F.SCALARS)],
                 "scals": [Fraction(v) for v in c["env"]["scals"]], "rnd": [Fraction(v) for v in c["env"]["rnd"]]})
    for r in accepted:
        for env in corpus_envs.get(repr(r["calls"]), []) + envs:
            diff = fusion_evaluate(r, by_name, env)
            if isinstance(r["program"], list):
                cases.append((r, env))
                lines.append(sx(["prog", prog_sx(r["program"]), len(F.SCALARS), NDOF, env_sx(env)]))
            if diff is None:
                stats["holds"] += 1
                continue
            before, after = F.scalar_dependences(r["program"]) if isinstance(r["program"], list) else (0, 0)
            if before > 0 and after == 0:
                stats["known_class"] += 1      # finding C20-fusion-reader-before-reduction
                known_hit = True
                continue
            stats["differs"] += 1
            if violation is None:
                violation = fusion_payload(r, env, diff, case_names)
    outs = driver("C20", lines)
    for (r, env), m in zip(cases, outs):
        try:
            t = show_env(run_program(r["program"], env))
        except Undefined:
            continue
        agreed = (t == m)
        chk.case({"fused": F.invoke_text(r["calls"], case_names), "history": r["history"], "result": m},
                 nontrivial=len(r["history"]) > 0, agreed=agreed)
        if not agreed:
            chk.correspondence_broken("Python twin of a fused invoke differs from the Lean model C20.runProg",
                                      {"calls": r["calls"], "history": r["history"]}, m, t)
    stats["seconds"] = round(time.time() - t0, 1)
    chk.cov["loop_fusion"] = stats
    return violation, known_hit


# ------------------------------------------------------------------------------------------ known-finding scenarios
_HDR = ("program c20_scn\n use constants_mod, only: r_def\n use field_mod, only: field_type\n implicit none\n"
        " type(field_type) :: f1, f2, f3\n real(r_def) :: asum, c\n")


def _scenario_psy(invoke_args, dm):
    import tempfile
    cfg = X._cfg()
    from psyclone.parse.algorithm import parse
    from psyclone.psyGen import PSyFactory
    with tempfile.TemporaryDirectory(prefix="c20_s_") as d:
        path = os.path.join(d, "a.f90")
        open(path, "w").write(_HDR + f" call invoke({invoke_args})\nend program c20_scn\n")
        with X._ParseCache():
            _, info = parse(path, api="dynamo0.3")
    old = cfg.distributed_memory
    cfg.distributed_memory = dm
    try:
        return PSyFactory("dynamo0.3", distributed_memory=dm).create(info)
    finally:
        cfg.distributed_memory = old


def scenario(name):
    """Multi-built-in / extra-transformation compositions outside the one-built-in-per-loop table.
    Returns (still_failing, observed text)."""
    from psyclone.psyir.nodes import Loop
    from psyclone.transformations import (Dynamo0p3RedundantComputationTrans, Dynamo0p3OMPLoopTrans, OMPParallelTrans)
    from psyclone.configuration import Config
    cfg = Config.get()
    old = cfg.distributed_memory
    try:
        if name == "redundant-computation-on-reduction":
            psy = _scenario_psy("sum_X(asum, f1)", True)
            cfg.distributed_memory = True
            loop = psy.invokes.invoke_list[0].schedule.walk(Loop)[0]
            try:
                Dynamo0p3RedundantComputationTrans().apply(loop, {"depth": 1})
            except Exception as err:   # noqa: BLE001  refused = fixed
                return False, "transformation refused: " + str(err)[:200]
            stops = [l.strip() for l in str(psy.gen).splitlines() if "loop0_stop =" in l]
            return any("get_last_dof_halo" in l for l in stops), "; ".join(stops)
        cfg.distributed_memory = False
        if name == "private-field-pointer":
            psy = _scenario_psy("setval_c(f1, c), X_plus_Y(f3, f1, f2)", False)
        elif name == "reprod-sum-read-in-region":
            psy = _scenario_psy("sum_X(asum, f1), inc_a_times_X(asum, f2)", False)
        else:
            raise common.Infra("C20: unknown scenario " + name)
        sched = psy.invokes.invoke_list[0].schedule
        try:
            for loop in sched.walk(Loop):
                Dynamo0p3OMPLoopTrans().apply(loop, {"reprod": name == "reprod-sum-read-in-region"})
            OMPParallelTrans().apply(sched.children)
            lines = [l.strip() for l in str(psy.gen).splitlines()]
        except Exception as err:   # noqa: BLE001  refused = fixed
            return False, "transformation refused: " + str(err)[:200]
        if name == "private-field-pointer":
            par = [l for l in lines if l.startswith("!$omp parallel")]
            bad = [l for l in par if re.search(r"private\([^)]*_data", l)]
            return bool(bad), "; ".join(par)
        i_par_end = lines.index("!$omp end parallel")
        reads = [k for k, l in enumerate(lines) if re.match(r"f2_data\(df\) = asum \*", l)]
        comb = [k for k, l in enumerate(lines) if X._norm_f(l) == "asum=asum+l_asum(1,th_idx)"]
        failing = bool(reads and comb and reads[0] < i_par_end < comb[0])
        return failing, f"'{lines[reads[0]] if reads else ''}' at line {reads[0] if reads else -1} precedes the combining loop at line {comb[0] if comb else -1}"
    finally:
        cfg.distributed_memory = old


# ------------------------------------------------------------------------------------------ corpus / replay
def load_corpus():
    d = os.path.join(common.ROOT, "corpus", "C20")
    out = []
    if os.path.isdir(d):
        for f in sorted(os.listdir(d)):
            if f.endswith(".json"):
                out.append(json.load(open(os.path.join(d, f))))
    return out


def replay(payload, quiet=False):
    """Re-extract the named built-in from the live tree and re-evaluate the stored input."""
    if "scenario" in payload:
        failing, observed = scenario(payload["scenario"])
        if not quiet:
            print(f"scenario {payload['scenario']}: {'STILL FAILING' if failing else 'no longer failing'} — {observed}")
        return 1 if failing else 0
    if "fusion" in payload:
        from props import c20_fusion as F
        calls = [(n, a) for n, a in payload["fusion"]["calls"]]
        names = tuple(sorted({n for n, _ in calls}))
        entries = extract(names=names)
        by_name = {e["name"]: e for e in entries}
        case_names = {e["name"]: e["case_name"] for e in entries}
        recs = F.fused_programs([calls], case_names, only={0: [payload["fusion"]["history"]]})
        rec = recs[0]
        if not rec["accepted"]:
            if not quiet:
                print("fusion history refused now:", rec.get("refusal"))
            return 0
        env = {"flds": ([[Fraction(v) for v in r] for r in payload["env"]["flds"]] + [[Fraction(0)] * NDOF] * 4)[:len(F.SCALARS)],
               "scals": [Fraction(v) for v in payload["env"]["scals"]], "rnd": [Fraction(v) for v in payload["env"]["rnd"]]}
        diff = fusion_evaluate(rec, by_name, env)
        if not quiet:
            print("invoke:   ", F.invoke_text(calls, case_names), "\nhistory:  ", payload["fusion"]["history"])
            print("generated:", [it[4] if it[0] == "loop" else X.pretty_stmt(it[1]) for it in rec["program"]]
                  if isinstance(rec["program"], list) else rec["program"])
            print("observed: ", diff or "fused code and documented built-in sequence agree")
        return 1 if diff else 0
    name = payload.get("builtin")
    if not name:
        if not quiet:
            print("replay: no failing input stored (broken proof obligation):", json.dumps(payload.get("broken"), indent=1)[:3000])
            ok = common.lean_build("C20", gen=gen).ok
            print("generated theorems compile now:", ok)
            return 0 if ok else 1
        return 0
    names = (name.lower(),)
    if name.lower() not in X.builtin_map():
        print("built-in", name, "no longer exists")
        return 0
    entries = extract(names=names)
    e = next((x for x in entries if x["case_name"] == name), None)
    if e is None:
        print("built-in", name, "no longer exists")
        return 0
    if "openmp" in payload:
        class _C:      # minimal stand-in for the coverage sink
            cov = {}

            def correspondence_broken(self, *a):
                pass
        issue = omp_check(_C(), entries, names=names, schedules=[payload.get("omp_schedule", "static")],
                          modes=(payload["openmp"],), settings=((bool(payload["dm"]), bool(payload["annexed"])),))
        if not quiet:
            print("openmp variants:", issue or "unchanged")
        return 1 if issue else 0
    if "env" not in payload:
        issues = structural_issue(e)
        if not quiet:
            print(name, "structural:", issues or "consistent")
        return 1 if issues else 0
    env = {"flds": [[Fraction(v) for v in r] for r in payload["env"]["flds"]],
           "scals": [Fraction(v) for v in payload["env"]["scals"]], "rnd": [Fraction(v) for v in payload["env"]["rnd"]]}
    si = X.SETTINGS.index((bool(payload["dm"]), bool(payload["annexed"])))
    diff = property_on(e, env, si)
    if not quiet:
        print(f"built-in {name}  dm={payload['dm']} annexed={payload['annexed']}")
        print("  generated:   ", "; ".join(e["init_text"][si] + [f"DO df = 1, {e['ub_text'][si]}: " + e["code_text"][si]]))
        print("  documented:  ", " / ".join(e["doc_text"] or []))
        print("  input:       ", json.dumps(payload["env"]))
        print("  observed:    ", diff or "code and documentation agree")
    return 1 if diff else 0
