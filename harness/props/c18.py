"""C18 — FortLineLength.process vs. the Lean model C18.process (exact output equality, including where
InternalError is raised), plus direct evaluation of the property on the real output: line lengths, equality
of logical lines (Python re-implementation of the Lean spec `C18.logical`, itself compared with the Lean
definition on every case; thorough tier: fparser's reader as a second oracle), re-application is identity,
no failure."""
import os
import sys

sys.path.insert(0, os.path.dirname(os.path.abspath(__file__)))
import common                                   # noqa: E402
from common import driver                       # noqa: E402
import c18_gen                                  # noqa: E402
import c18_spec as spec                         # noqa: E402
import c18_e2e as e2e                           # noqa: E402

gen = c18_gen.gen


# ---------------------------------------------------------------------------------------------------
def real_process(L, text):
    from psyclone.line_length import FortLineLength
    from psyclone.errors import InternalError
    try:
        return ("ok", FortLineLength(L).process(text))
    except InternalError:
        return ("err", "internal")


def real_long(L, text):
    from psyclone.line_length import FortLineLength
    return FortLineLength(L).long_lines(text)


def fixed_mode():
    """The deployed model: `processF` (FIXED mode: fixes/C18-compound-operator-split, -unbreakable-fallback,
    -trailing-blank-after-ampersand) when the live class has the repaired `_break_point`, else the pinned `process`.
    A partially patched tree matches neither model: the exact-output correspondence reports it."""
    from psyclone.line_length import FortLineLength
    return hasattr(FortLineLength, "_break_point")


def live_type(l):
    from psyclone.line_length import FortLineLength
    return FortLineLength(132)._get_line_type(l)


def enc(line):
    return "(" + " ".join(str(ord(c)) for c in line) + ")"


def dec_lines(sx_items):
    return ["".join(chr(c) for c in (it if isinstance(it, list) else [it])) for it in sx_items]


# ---- generators -----------------------------------------------------------------------------------
NAMES = ["a", "b", "i", "j", "k", "x", "y", "ncell", "ndf_w0", "undf_w3", "map_w2", "field_1_proxy", "nlayers",
         "basis_w1_qr", "diff_basis_w2", "weights_xy", "f1_data", "mesh", "df", "cell", "istp", "ssha_t",
         "this_is_a_rather_long_variable_name", "m" * 30]
WORDS = ["loop", "over", "all", "cells", "the", "halo", "is", "dirty.", "Call", "kernels,", "set", "up", "e.g.",
         "a,b", "(see", "below)", "x=1", "don't", "\"quoted\"", "&", "!", "!!", "compute", "communication",
         "extraordinarily-hyphenated-word", "w" * 35]


def name(r):
    return r.choice(NAMES)


def char_literal(r):
    q = r.choice("'\"")
    n = r.randint(0, 8)
    body = []
    for _ in range(n):
        w = r.choice(["hello", "world,", "a", "it", "!", "&", "x = 1", "!$omp", q + q, "'" if q == '"' else '"',
                      "  ", "end.", "(", ")", "+"])
        body.append(w)
    return q + " ".join(body) + q


def expr(r, depth=0):
    k = r.random()
    if depth > 2 or k < 0.3:
        return name(r)
    if k < 0.4:
        return str(r.randint(0, 99999))
    if k < 0.5:
        return char_literal(r)
    if k < 0.65:
        return name(r) + "(" + r.choice([", ", ","]).join(expr(r, depth + 1) for _ in range(r.randint(1, 4))) + ")"
    if k < 0.75:
        return name(r) + "%" + name(r)
    op = r.choice([" + ", "+", " * ", "*", " - ", "/", " == ", "==", " .and. ", "**", "//", " => "])
    return expr(r, depth + 1) + op + expr(r, depth + 1)


def statement(r):
    k = r.random()
    sep = r.choice([", ", ","])
    if k < 0.25:
        return r.choice(["call ", "CALL ", "Call "]) + name(r) + "(" + sep.join(expr(r, 1) for _ in range(r.randint(1, 12))) + ")"
    if k < 0.45:
        ty = r.choice(["integer", "INTEGER", "real(kind=r_def)", "REAL(r_def)", "type(field_type)", "logical",
                       "character(len=" + str(r.randint(1, 99)) + ")", "integer(kind=i_def)"])
        attrs = r.sample([", intent(in)", ", dimension(" + name(r) + "," + name(r) + ")", ", pointer", ", allocatable",
                          ",intent(inout)"], r.randint(0, 2))
        return ty + "".join(attrs) + " :: " + sep.join(name(r) + (r.choice(["", " = " + expr(r, 2)])) for _ in range(r.randint(1, 10)))
    if k < 0.55:
        return r.choice(["use ", "USE "]) + name(r) + ", only : " + sep.join(name(r) for _ in range(r.randint(1, 12)))
    if k < 0.62:
        return "subroutine " + name(r) + "(" + sep.join(name(r) for _ in range(r.randint(0, 14))) + ")"
    if k < 0.7:
        return "if (" + expr(r) + ") then"
    if k < 0.76:
        return "write(*,*) " + sep.join(char_literal(r) for _ in range(r.randint(1, 4)))
    return name(r) + r.choice([" = ", "=", "(i,j) = "]) + r.choice([" + ", " * ", "+"]).join(expr(r) for _ in range(r.randint(1, 6)))


def directive(r):
    sent = r.choice(["!$omp", "!$OMP", "!$Omp", "!$acc", "!$ACC", "!$omp&", "!$acc&"])
    if "omp" in sent.lower():
        head = r.choice([" parallel do", " parallel", " do", " target teams distribute parallel do", " task", " taskloop"])
        cl = ["default(shared)", "private(" + ",".join(name(r) for _ in range(r.randint(1, 6))) + ")", "schedule(static)",
              "reduction(+:" + name(r) + ")", "firstprivate(" + ", ".join(name(r) for _ in range(r.randint(1, 4))) + ")",
              "if(" + name(r) + "==" + name(r) + ")", "collapse(2)", "num_threads(" + name(r) + "=>" + name(r) + ")",
              "depend(in:" + name(r) + "," + name(r) + ")", "initializer(omp_priv=" + name(r) + ")"]
    else:
        head = r.choice([" parallel loop", " kernels", " data", " enter data", " loop", " update"])
        cl = ["copyin(" + ",".join(name(r) for _ in range(r.randint(1, 8))) + ")", "present(" + name(r) + ")", "independent",
              "collapse(2)", "default(present)", "async(" + str(r.randint(1, 9)) + ")", "vector_length(" + name(r) + "=" + name(r) + ")",
              "copyout(" + ", ".join(name(r) for _ in range(r.randint(1, 5))) + ")", "if(" + name(r) + "==" + name(r) + ")"]
    n = r.randint(0, 8)
    return sent + head + " " + r.choice([" ", ", ", ","]).join(r.choice(cl) for _ in range(n))


def comment(r):
    start = r.choice(["!", "! ", "!!", "!& ", "!> ", "!$ ", "!-----", "!$ompx "])
    return start + " ".join(r.choice(WORDS) for _ in range(r.randint(0, 25)))


def indent(r):
    return " " * r.choice([0, 0, 2, 4, 6, 8, 12, 20, 36, 45, 70, 140]) if r.random() < 0.9 else "\t" * r.randint(1, 3)


def gen_line(r):
    k = r.random()
    if k < 0.40:
        l = indent(r) + statement(r)
        if r.random() < 0.12:
            l += r.choice([" &", "&", ", &", " & "])
        if r.random() < 0.1:
            l = indent(r) + "&" + l.lstrip()
    elif k < 0.55:
        l = indent(r) + directive(r)
        if r.random() < 0.1:
            l += r.choice([" &", "&"])
    elif k < 0.70:
        l = indent(r) + comment(r)
    elif k < 0.82:   # statement or directive with a trailing comment (defect class)
        base = statement(r) if r.random() < 0.75 else directive(r)
        l = indent(r) + base + r.choice([" ", "  ", ""]) + comment(r)
    elif k < 0.88:   # hard-to-break text
        l = indent(r) + r.choice(["x = ", "call ", "!$omp ", "! ", ""]) + r.choice("abz_9") * r.randint(30, 150) + r.choice(["", " + 1", ", b"])
    elif k < 0.92:
        l = indent(r) + statement(r) + " " * r.randint(1, 50) + r.choice(["", "+ 1", "&"])
    elif k < 0.94:
        l = " " * r.randint(0, 150)
    else:            # malformed stream
        alpha = "ab ,=+)(.!&'\"$\t\r:%*/" + "x" * 6
        l = "".join(r.choice(alpha) for _ in range(r.randint(0, 200)))
    return l


def gen_case(r):
    n = r.choice([1, 1, 1, 2, 3, 5])
    lines = [gen_line(r) for _ in range(n)]
    k = r.random()
    if k < 0.5:
        m = max(len(l) for l in lines)
        # put the limit close to interesting positions of the longest line
        L = min(132, max(40, m - r.randint(0, 60))) if m > 40 else r.randint(40, 132)
    else:
        L = r.randint(40, 132)
    if r.random() < 0.03:
        L = r.randint(10, 39)      # below the property's range; the model claims L > maxAffix = 9
    return L, lines


CORPUS = [
    (40, ["x = 1 + 2 ! a very long trailing comment which goes on"]),
    (40, ["x = " + "a" * 80]),
    (40, ["x = aaaaaaaa + bbbbbbbbbb + ccccccc &    ", "  + d"]),
    (40, ["!$omp parallel if(" + "a" * 27 + "==bbbbbbbbbbbbbbbbbbb)"]),
    (40, ["!$omp parallel do default(shared), private(i,j,k) ! explain the loop here"]),
    (40, ['call foo("a string with ! bang and & amp, and more words", b, c)']),
    (40, [" " * 50]), (40, ["a = b" + " " * 50 + "+ c"]),
    (40, [" " * 45 + "! a comment that is indented a lot"]),
    (40, ["!" + "-" * 39]), (40, ["! " + "-" * 38]), (40, ["!-" + "-" * 38 + " x"]),
    (132, ["      CALL testkern_code(nlayers, ginger, f1_proxy%data, f2_proxy%data, m1_proxy%data, m2_proxy%data, "
           "ndf_w1, undf_w1, map_w1(:,cell), ndf_w2, undf_w2, map_w2(:,cell), ndf_w3, undf_w3, map_w3(:,cell))"]),
    (60, ["!$acc parallel loop collapse(2) default(present) copyin(a,b,c,d,e,f,g,h,i,j,k,l,m,n,o,p) async(1)"]),
    (50, ["  x = y &", "     & + 'a string continued over the end of the line with & inside &", "  &and finished here' // trim(z)"]),
]


def string_family():
    """Systematic family: `!` and `&` inside character constants (both quote kinds, doubled quotes), the constant
    crossing the limit at every offset class; plain, continued, and character-context continuation."""
    out = []
    for q in "'\"":
        for inner in ["!", "&", " & ", "! & !", q + q, "&" + q + q + "!", "!$omp", " !& "]:
            for pad in range(18, 46, 3):
                line = "  x = " + q + "a" * pad + inner + " tail words here and more " + inner + q + " // y"
                out.append((40, [line]))
                out.append((40, [line + " &", "   & // " + q + inner + q]))
                out.append((40, ["  s = " + q + "b" * pad + inner + " &",
                                 "  &" + inner + " the rest of a long long long long string literal" + inner + q]))
                out.append((40, ["call sub(" + q + "c" * pad + inner + q + ", " + q + inner + " d e f g h i j k l m n" + q + ")"]))
    return out


# ---- fparser as a second oracle (thorough tier) ----------------------------------------------------
def fparser_statements(text):
    from fparser.common.readfortran import FortranStringReader, Line, Comment
    rd = FortranStringReader(text, ignore_comments=True)
    rd.set_format(__import__("fparser.common.sourceinfo", fromlist=["FortranFormat"]).FortranFormat(True, False))
    out = []
    for item in rd:
        if isinstance(item, Line):
            out.append("".join(item.line.split()))
        elif isinstance(item, Comment):
            continue
    return out


# ---- evaluation of the property on one case -------------------------------------------------------
def evaluate(L, lines, want_fparser=False):
    """Returns (real result, list of failed clauses [(clause, detail)])"""
    text = "\n".join(lines)
    res = real_process(L, text)
    fails = []
    if res[0] == "err":
        fails.append(("never-fails", "InternalError"))
        return res, fails
    out = res[1].split("\n")
    too_long = [l for l in out if len(l) > L]
    if too_long:
        fails.append(("length", f"output line of length {len(too_long[0])} > {L}: {too_long[0]!r}"))
    a, b = spec.logical(lines), spec.logical(out)
    if a != b:
        fails.append(("same-program", f"logical lines differ: input {a!r} output {b!r}"))
    again = real_process(L, res[1])
    if again != res:
        fails.append(("idempotent", f"second application gives {again!r}"))
    if real_long(L, res[1]):
        fails.append(("length", "long_lines() is true of the output"))
    # F2008 3.3.2.4: "&" shall not be the only nonblank character of a line
    amp_only = [l for l in out if l.strip() == "&"]
    if amp_only and not any(l.strip() == "&" for l in lines):
        fails.append(("ampersand-only-line", f"output has a line whose only nonblank character is '&': {amp_only[0]!r}"))
    # (fparser reads leading digits as a statement label, which it cannot follow over a continuation: such
    # malformed-stream lines get no verdict from the second oracle)
    if want_fparser and a == b and not any(l.lstrip()[:1].isdigit() for l in lines):
        try:
            fa, fb = fparser_statements(text), fparser_statements(res[1])
        except Exception:          # fparser refuses malformed text: no verdict
            fa = fb = None
        if fa != fb:
            fails.append(("same-program-fparser", f"fparser statements differ: {fa!r} vs {fb!r}"))
    return res, fails


CLASS_OF_CLAUSE = {"never-fails": "C18-unbreakable-raises"}
REASON_TO_FINDING = {"inline-comment": "C18-trailing-comment-split",
                     "trailing-blank": "C18-trailing-blank-after-ampersand",
                     "directive-compound-eq": "C18-directive-compound-operator-split"}


def _amp_only_output(L, lines):
    res = real_process(L, "\n".join(lines))
    return res[0] != "err" and any(l.strip() == "&" for l in res[1].split("\n")) and not any(l.strip() == "&" for l in lines)


def classify_failure(L, lines, clause, active_ids, breakable=None):
    """The known-finding ids whose classifier accepts this failing input."""
    fx = fixed_mode()
    if clause == "never-fails":
        if breakable is None:
            cmd = "breakableF" if fx else "breakable"
            breakable = driver("C18", [f"({cmd} {L} " + " ".join(enc(l) for l in lines) + ")"])[0] == "1"
        return set() if breakable else {"C18-unbreakable-raises", "C18-unbreakable-directive-raises"} & active_ids
    if clause == "ampersand-only-line" or (clause == "same-program-fparser" and _amp_only_output(L, lines)):
        return {"C18-ampersand-only-line"} & active_ids
    if clause in ("same-program", "same-program-fparser"):
        ids = {REASON_TO_FINDING[r] for _, r in spec.unsafe_reasons(L, lines, fixed=fx, line_type=live_type)}
        if fx:      # repaired classes are no longer excused
            ids &= {"C18-trailing-comment-split", "C18-trailing-blank-after-ampersand"}
            if "C18-trailing-blank-after-ampersand" in ids:
                # only the proof's residual side condition (trailing white space WITHOUT the repaired `&` case
                # never fails; keep it excusable only together with a trailing comment)
                ids.discard("C18-trailing-blank-after-ampersand")
        return ids & active_ids
    return set()


def run(chk):
    chk.cov["rule"] = ("texts of 1..5 generated free-form lines (statements, declarations, !$omp/!$acc directives, comments, "
                       "trailing comments, character literals with blanks/quotes/!/&, continued lines, unbreakable tokens, "
                       "blank lines, a malformed stream) x limit 40..132 (3% below 40); non-trivial = at least one line "
                       "longer than the limit; distinct by canonical JSON of (limit, lines).  Plus the end-to-end family: "
                       "real psyclone.generator.main / kernel_tools.run in-process with -l output|all on algorithm files "
                       "with invokes (LFRic, GOcean with --kernel-output of script-transformed kernels), without any invoke, "
                       "and through -api nemo, each compared with its unlimited (-l off, identity limiter) run; non-trivial = "
                       "an emitted file has a line longer than 132")
    chk.assumptions += ["input characters are ASCII (Python's isspace/re.I treat some non-ASCII characters specially)",
                        "lines contain no newline (text is split on \\n)",
                        "`logical` (Lean, mirrored in c18_spec.py and compared on every case) is my formalisation of "
                        "F2008 3.3.2.4 continuation + sentinel continuation + PSyclone's `!& ` comment continuation",
                        "limit > maxAffix = 9 (Python slice arithmetic with negative bounds is not modelled)"]
    chk.cov["trusted_base"] = ["Lean 4.33.0 kernel", "axioms propext/Classical.choice/Quot.sound only (audited)",
                               "translator harness/props/c18_gen.py (tables + regex prefixes)",
                               "correspondence on generated cases; c18_spec.py == Lean C18.logical on every case"]
    chk.lean(gen=gen)
    findings = {e["id"]: e for e in common.known_findings("C18")}
    active = set(findings)
    r = chk.rng
    n = 12000 if chk.tier == "thorough" else 2500
    cases = list(CORPUS)
    e2e_corpus = []
    cdir = os.path.join(common.ROOT, "corpus", "C18")
    if os.path.isdir(cdir):
        import json
        for fn in sorted(os.listdir(cdir)):
            if fn.endswith(".json"):
                p = json.load(open(os.path.join(cdir, fn)))
                if p.get("kind") == "e2e":
                    e2e_corpus.append(p["scenario"])
                else:
                    cases.append((p["limit"], p["lines"]))
    fam = string_family()
    chk.cov["string_family"] = len(fam)
    cases += fam
    cases += [gen_case(r) for _ in range(n)]
    # every case at two more limits so that each text sees several windows
    req = []
    fx = fixed_mode()
    chk.cov["mode"] = ("FIXED (processF: the three C18 patches are present in the tree)" if fx else
                       "PINNED (process: the tree has no FortLineLength._break_point)")
    sfx = "F" if fx else ""
    for L, lines in cases:
        req.append(f"(proc{sfx} {L} " + " ".join(enc(l) for l in lines) + ")")
        req.append("(logical " + " ".join(enc(l) for l in lines) + ")")
        req.append(f"(safe{sfx} {L} " + " ".join(enc(l) for l in lines) + ")")
        req.append(f"(breakable{sfx} {L} " + " ".join(enc(l) for l in lines) + ")")
    model = driver("C18", req)
    dist = {"ok": 0, "err": 0, "long": 0, "retry_lstrip_approx": 0, "types": {}, "fail_classes": {}, "fparser_checked": 0}
    out_req, out_idx = [], []
    want_fp = chk.tier == "thorough"
    reported = 0
    for idx, (L, lines) in enumerate(cases):
        mo, mlog, msafe, mbrk = model[4 * idx:4 * idx + 4]
        res, fails = evaluate(L, lines, want_fparser=want_fp and idx % 4 == 0)
        if want_fp and idx % 4 == 0:
            dist["fparser_checked"] += 1
        if res[0] == "ok":
            impl = "(ok " + " ".join(enc(l) for l in res[1].split("\n")) + ")"
            dist["ok"] += 1
        else:
            impl = "(err internal)"
            dist["err"] += 1
        agreed = (mo == impl)
        nontriv = any(len(l) > L for l in lines)
        if nontriv:
            dist["long"] += 1
            from psyclone.line_length import FortLineLength
            fl = FortLineLength(L)
            for l in lines:
                if len(l) > L:
                    t = fl._get_line_type(l)
                    dist["types"][t] = dist["types"].get(t, 0) + 1
                    if res[0] == "ok" and l[:1].isspace() and l not in res[1] and not any(
                            o.startswith(l[:len(l) - len(l.lstrip())]) and o.strip() for o in res[1].split("\n")):
                        dist["retry_lstrip_approx"] += 1
        if spec.show_items(spec.logical(lines)) != mlog:
            raise common.Infra(f"c18_spec.logical differs from Lean C18.logical on {lines!r}: {mlog}")
        if (msafe == "1") != (not spec.unsafe_reasons(L, lines, fixed=fx, line_type=live_type)):
            raise common.Infra(f"c18_spec.unsafe_reasons differs from Lean C18.SafeFile on {L} {lines!r}: {msafe}")
        dist["safe_file"] = dist.get("safe_file", 0) + (msafe == "1")
        dist["breakable"] = dist.get("breakable", 0) + (mbrk == "1")
        if res[0] == "ok":
            out_req.append("(logical " + " ".join(enc(l) for l in res[1].split("\n")) + ")")
            out_idx.append(idx)
        chk.case({"limit": L, "lines": lines}, nontrivial=nontriv, agreed=agreed)
        if not agreed:
            chk.correspondence_broken("FortLineLength.process differs from C18.process" + sfx, {"limit": L, "lines": lines}, mo, impl)
        for clause, detail in fails:
            ids = classify_failure(L, lines, clause, active, mbrk == "1") if agreed else set()
            if ids:
                for i in ids:
                    dist["fail_classes"][i] = dist["fail_classes"].get(i, 0) + 1
                continue
            if reported < 3:
                chk.violation({"kind": "failing-input", "limit": L, "lines": lines, "clause": clause, "observed": detail,
                               "expected": "no output line longer than the limit; same logical lines; fixed point; no exception",
                               "model_agrees": agreed})
                reported += 1
    # the Python spec evaluated on real outputs must be the Lean spec too
    for idx, ml in zip(out_idx, driver("C18", out_req)):
        L, lines = cases[idx]
        out = real_process(L, "\n".join(lines))[1].split("\n")
        if spec.show_items(spec.logical(out)) != ml:
            raise common.Infra(f"c18_spec.logical differs from Lean C18.logical on output {out!r}")
    # ---- end-to-end family: the call sites that apply the limiter (generator.main, rename_and_write, psyclone-kern)
    e2e_stats = {"scenarios": 0, "refused": 0, "files": 0, "files_with_long_lines": 0, "names": []}
    for sc in e2e_corpus + e2e.scenarios(r, thorough=(chk.tier == "thorough")):
        res = e2e.run_scenario(sc)
        fails, glue, st = e2e.evaluate(sc, res)
        e2e_stats["scenarios"] += 1
        e2e_stats["names"].append(f"{sc['name']}:{sc['api']}:-l {sc['mode']}")
        if res["rc"] != 0 or res["rc_ref"] != 0:
            e2e_stats["refused"] += 1
            if not sc["name"].startswith("corpus-") and sc["name"] != "noinvoke-short-all":
                raise common.Infra(f"end-to-end scenario {sc['name']} did not run (exit {res['rc']}/{res['rc_ref']}): {res['console']}")
        e2e_stats["files"] += st["files"]
        e2e_stats["files_with_long_lines"] += st["files_with_long_lines"]
        chk.case({"e2e": sc["name"], "api": sc["api"], "mode": sc["mode"], "inputs": sorted(sc["files"])},
                 nontrivial=st["files_with_long_lines"] > 0, agreed=not glue and not fails)
        for role, what in glue:
            if not any(fr == role for fr, _, _ in fails):
                chk.correspondence_broken(f"end-to-end {sc['name']} {role}: {what}", {"scenario": sc["name"], "output": role},
                                          "process 132 (unlimited text)", "emitted text")
        for role, clause, detail in fails:
            if reported < 6:
                chk.violation(e2e.payload(sc, role, clause, detail))
                reported += 1
    chk.cov["end_to_end"] = e2e_stats
    chk.cov["distribution"] = dist
    chk.cov["limits"] = "40..132 (+ a few 10..39)"
    # known findings: replay the witnesses
    for e in findings.values():
        w = e["witness"]
        _, fails = evaluate(w["limit"], w["lines"])
        if any(e["id"] in classify_failure(w["limit"], w["lines"], c, {e["id"]}) for c, _ in fails):
            chk.known(e["what"])
        elif fails and fx:
            # a witness of a repaired class that still fails on a tree that claims to be repaired
            for c, d in fails:
                if not classify_failure(w["limit"], w["lines"], c, active):
                    chk.violation({"kind": "failing-input", "limit": w["limit"], "lines": w["lines"], "clause": c,
                                   "observed": d, "expected": "repaired behaviour (fixed mode)", "model_agrees": None})


def replay(payload):
    if payload.get("kind") == "e2e":
        return e2e.replay(payload)
    if "limit" not in payload:
        print("no failing input stored (broken proof obligation or correspondence):", payload.get("broken"))
        return 1
    L, lines = payload["limit"], payload["lines"]
    res, fails = evaluate(L, lines, want_fparser=True)
    print("limit:", L)
    print("input lines:", lines)
    print("real output:", res)
    print("expected: no output line longer than the limit; same logical lines; fixed point; no exception")
    for c, d in fails:
        print("FAILED clause", c, ":", d)
    if not fails:
        print("property holds on this input")
    want = payload.get("clause")
    hit = [c for c, _ in fails if want is None or c == want or (want.startswith("same-program") and c.startswith("same-program"))]
    if fails and not hit:
        print(f"(the recorded clause `{want}` holds; the failures above belong to other clauses, see known findings)")
    return 1 if hit else 0
