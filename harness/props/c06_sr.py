"""C06 — systematic family for ArrayMixin.same_range / is_lower_bound / is_upper_bound / is_full_range and the index
offset ArrayAssignment2LoopsTrans derives from them.

One subroutine with arrays of rank 1..3 declared in every way PSyclone distinguishes (explicit bounds with literal
default / literal non-unit / symbolic bounds `n:m`, assumed shape `(:)`, assumed shape with lower bound `(0:)` `(n:)`,
allocatable) and with DIFFERENT lower bounds per dimension; statements `L = f(R [, L])` and `s = SUM/MAXVAL(A1 * A2)`
where every access has ONE range, enumerated over (array, position of the range) x (array, position) x range form
(`:`, `lo:`, `lo:hi`, partial, `::2`, `lo:hi:2`, reversed).  For every statement:
  * the real transformation is applied with ArrayMixin.same_range and SymbolicMaths.equal instrumented: every
    same_range call (both accesses, answer) is replayed on the Lean model `C06.sameRange` (+ isLower/isUpper/
    isFullRange vs the real methods), every SymbolicMaths.equal pair on `C06.linEq` (checked precondition);
  * for accesses of rank <= 2 the emitted loop is compared with `C06.transAAacc` (driver command aaD);
  * THE PROPERTY: original and transformed subroutine are compiled and run with gfortran, outputs compared."""
import itertools

import common
import minif
from common import sx, parse_sx
from props import c06_real as R

MODE_FIXED = int(__import__("os").environ.get("C06_SR_FIXED", "1"))          # the Lean model follows /repo HEAD (fix da89b83: the shortcut applies to the SAME dimension of the same array only)
KNOWN_ID = "C06-same-array-cross-dimension"
E = 4                   # every dimension has 4 elements

# name -> list of dimensions (kind, declared lower text or None, run-time lower as text, declaration text)
#   kinds: b = explicit bounds, l = `lo:` assumed shape, a = `:` assumed shape, d = deferred (allocatable)
ARR = {
    "x1": [("b", "1")], "y1": [("b", "0")], "z1": [("b", "n")],
    "e1": [("a", "1")], "f1": [("l", "0")], "g1": [("l", "n")], "h1": [("d", "3")],
    "x2": [("b", "1"), ("b", "1")], "y2": [("b", "0"), ("b", "2")], "z2": [("b", "n"), ("b", "1")],
    "e2": [("a", "1"), ("a", "1")], "f2": [("l", "0"), ("l", "2")], "h2": [("d", "0"), ("d", "2")],
    "x3": [("b", "1"), ("b", "1"), ("b", "1")], "y3": [("b", "1"), ("b", "0"), ("b", "2")],
    "f3": [("l", "0"), ("a", "1"), ("l", "2")],
}
DUMMIES = ["e1", "f1", "g1", "e2", "f2", "f3"]
ALLOC = ["h1", "h2"]


def hi_txt(lo):
    return "m" if lo == "n" else str(int(lo) + E - 1)      # m = n + 3 is a second dummy argument


def decl_dim(kind, lo):
    if kind == "b":
        return str(E) if lo == "1" else f"{lo}:{hi_txt(lo)}"
    if kind == "l":
        return f"{lo}:"
    return ":"


def init_loops(a, ind="    "):
    dims = ARR[a]
    c = sorted(ARR).index(a)
    vs = ["i1", "i2", "i3"][:len(dims)]
    lines = []
    for d in reversed(range(len(dims))):
        lines.append(f"{ind}do {vs[d]} = lbound({a}, {d + 1}), ubound({a}, {d + 1})")
    expr = " + ".join(f"({v} - lbound({a}, {k + 1})) * {3 + 2 * k}" for k, v in enumerate(vs))
    lines.append(f"{ind}  {a}({', '.join(vs)}) = mod({expr} + {c}, 7) - 2")
    lines += [f"{ind}enddo"] * len(dims)
    return lines


def program(n, blocks):
    """blocks: list of (statement text, name to print, array to re-initialise or None)"""
    L = ["module srmod", "contains", f"  subroutine sub({', '.join(DUMMIES)}, n, m)", "    integer, intent(in) :: n, m"]
    for a in DUMMIES:
        L.append(f"    real, intent(inout) :: {a}({', '.join(decl_dim(k, lo) for k, lo in ARR[a])})")
    for a in ARR:
        if a in DUMMIES:
            continue
        if a in ALLOC:
            L.append(f"    real, allocatable :: {a}({', '.join(':' for _ in ARR[a])})")
        else:
            L.append(f"    real :: {a}({', '.join(decl_dim(k, lo) for k, lo in ARR[a])})")
    L += ["    real :: s", "    integer :: i1, i2, i3"]
    n_init = 0
    for a in ALLOC:
        L.append(f"    allocate({a}({', '.join(f'{lo}:{hi_txt(lo)}' for _, lo in ARR[a])}))")
        n_init += 1
    for a in ARR:
        L += init_loops(a)
        n_init += 1
    L.append("    s = 0.0")
    n_init += 1
    starts, pos = [], n_init
    for j, (stmt, show, reinit) in enumerate(blocks):
        starts.append(pos)
        L += ["    " + stmt, f"    print *, {R.MARK}, {j}", f"    print *, {show}"]
        pos += 3
        if reinit:
            L += init_loops(reinit)
            pos += 1
    L += ["  end subroutine sub", "end module srmod", "program p", "  use srmod", "  integer :: n"]
    for a in DUMMIES:
        L.append(f"  real :: {a}({', '.join(str(E) for _ in ARR[a])})")
    L += [f"  n = {n}", f"  call sub({', '.join(DUMMIES)}, n, n + {E - 1})", "end program p"]
    return "\n".join(L) + "\n", starts


# ---------------------------------------------------------------------------
# enumeration
CLASSES = {                      # range forms with the same number of elements and the same stride
    "full": ["colon", "lo:", "decl"],
    "partial": ["partial"],
    "step2": ["colon2", "decl2"],
    "rev": ["rev"],
}


def range_txt(kind, lo, form):
    """text of a range in a dimension declared (kind, lo); None if the form is not available there"""
    hi = hi_txt(lo)
    explicit_stop_ok = kind != "l"      # FortranWriter raises on an explicit stop in a `lo:` dimension (is_upper_bound)
    if form == "colon":
        return ":"
    if form == "lo:":
        return f"{lo}:"
    if form == "colon2":
        return "::2"
    if not explicit_stop_ok:
        return None
    if form == "decl":
        return f"{lo}:{hi}"
    if form == "decl2":
        return f"{lo}:{hi}:2"
    if form == "partial":
        return f"{lo}+1:{lo}+2"
    if form == "rev":
        return f"{hi}:{lo}:-1"
    raise ValueError(form)


def access(arr, pos, form, salt=0):
    dims = ARR[arr]
    idx = []
    for d, (kind, lo) in enumerate(dims):
        if d == pos:
            t = range_txt(kind, lo, form)
            if t is None:
                return None
            idx.append(t)
        else:
            idx.append(f"{lo}+{(salt + d) % E}" if lo == "n" else str(int(lo) + (salt + d) % E))
    return f"{arr}({', '.join(idx)})"


SLOTS = [(a, p) for a in ARR for p in range(len(ARR[a]))]


def pick_form(cls, arr, pos, salt):
    kind, lo = ARR[arr][pos]
    forms = [f for f in CLASSES[cls] if range_txt(kind, lo, f) is not None]
    return forms[salt % len(forms)] if forms else None


def make_case(li, ri, cls, salt, red=False, forms=None):
    (la, lp), (ra, rp) = SLOTS[li], SLOTS[ri]
    lf, rf = forms or (pick_form(cls, la, lp, salt), pick_form(cls, ra, rp, salt // 2 + 1))
    if lf is None or rf is None:
        return None
    lt, rt = access(la, lp, lf, salt), access(ra, rp, rf, salt + 1)
    if red:
        kind = ["sum", "maxval"][salt % 2]
        stmt = f"s = {kind}({lt} * {rt})" if salt % 3 else f"s = {kind}({lt} + {rt} * 2.0)"
        return {"kind": "sr", "flavour": f"red-{cls}", "stmts": [stmt], "trans": kind.capitalize() + "2LoopTrans",
                "target": ["intrinsic", kind.upper(), 0], "show": "s", "reinit": None}
    shape = salt % 3
    rhs = [rt, f"{rt} + {lt}", f"2.0 * {rt} - s"][shape]
    return {"kind": "sr", "flavour": f"aa-{cls}", "stmts": [f"{lt} = {rhs}"], "trans": "ArrayAssignment2LoopsTrans",
            "target": ["assign"], "show": la, "reinit": la}


CORE_R = [("x1", 0), ("y1", 0), ("z1", 0), ("e1", 0), ("f1", 0), ("g1", 0), ("h1", 0), ("y2", 1), ("f3", 1)]
CORE_L = CORE_R + [("e2", 1), ("h2", 0), ("y3", 2)]


def enumerate_cases(rng, tier):
    """systematic enumeration of (lhs slot, rhs slot); the range-form class and the fixed subscripts rotate with the
    pair number and the seed.  quick: a seeded stride sample; thorough: every pair."""
    pairs = list(itertools.product(range(len(SLOTS)), repeat=2))
    classes = list(CLASSES)
    off = rng.randrange(1000)
    cases = []
    # core, run in every tier: every kind of declaration against every kind of declaration with BOTH ranges written `:`
    # (the declared lower bounds alone decide whether the index is shared); lhs side also in a second position
    for la, lp in CORE_L:
        for k, (ra, rp) in enumerate(CORE_R):
            c = make_case(SLOTS.index((la, lp)), SLOTS.index((ra, rp)), "full", off + k, forms=("colon", "colon"))
            if c:
                cases.append(c)
    step = 1 if tier == "thorough" else 8
    start = rng.randrange(step)
    for k, (li, ri) in enumerate(pairs):
        if (k - start) % step:
            continue
        for rep in range(2 if tier == "thorough" else 1):
            c = make_case(li, ri, classes[(k + off + rep) % len(classes)], k + off + rep)
            if c:
                cases.append(c)
    # reductions: same array in two different positions (every array of rank >= 2) + a stride sample of all pairs
    for a in ARR:
        for p, q in itertools.permutations(range(len(ARR[a])), 2):
            c = make_case(SLOTS.index((a, p)), SLOTS.index((a, q)), "full", off + p + q, red=True)
            if c:
                cases.append(c)
    rstep = 9 if tier == "thorough" else 31
    for k, (li, ri) in enumerate(pairs):
        if (k + off) % rstep == 0:
            c = make_case(li, ri, classes[(k + off) % len(classes)], k + off, red=True)
            if c:
                cases.append(c)
    return cases


# ---------------------------------------------------------------------------
# export of accesses to the Lean model
def ghost(arr, d, which):
    kind, lo = ARR[arr][d]
    return lo if which == "lo" else hi_txt(lo)


def txt_sexp(txt, names):
    """'n', 'n+3', '5' -> expression"""
    if "+" in txt:
        a, b = txt.split("+")
        return ["bin", "add", txt_sexp(a, names), txt_sexp(b, names)]
    return ["var", names.id(txt)] if txt in ("n", "m") else ["lit", int(txt)]


def ex_plain(node, names):
    """export_expr with LBOUND/UBOUND(arr, d) replaced by the run-time bound of the family's arrays"""
    from psyclone.psyir import nodes as N
    if isinstance(node, N.IntrinsicCall) and node.intrinsic.name in ("LBOUND", "UBOUND"):
        arr = node.arguments[0].symbol.name.lower()
        d = int(node.arguments[1].value) - 1
        return bound_sexp(node.arguments[0].symbol, d, "lo" if node.intrinsic.name == "LBOUND" else "hi", names)
    if isinstance(node, N.BinaryOperation):
        return ["bin", minif._BIN[node.operator.name], ex_plain(node.children[0], names), ex_plain(node.children[1], names)]
    if isinstance(node, N.UnaryOperation):
        return ["un", minif._UN[node.operator.name], ex_plain(node.children[0], names)]
    if isinstance(node, N.ArrayReference):
        idx = node.indices
        if any(isinstance(i, N.Range) for i in idx) or not 1 <= len(idx) <= 2:
            raise minif.Unsupported("array access " + node.name)
        return [f"idx{len(idx)}", names.id(node.name)] + [ex_plain(i, names) for i in idx]
    if isinstance(node, N.IntrinsicCall):
        args = [ex_plain(a, names) for a in node.arguments]
        nm = node.intrinsic.name
        if nm in minif._INTR2 and len(args) == 2:
            return ["bin", minif._INTR2[nm], args[0], args[1]]
        if nm == "ABS":
            return ["un", "abs", args[0]]
        raise minif.Unsupported(nm)
    return minif.export_expr(node, names)


def bound_sexp(symbol, d, which, names):
    """run-time LBOUND / UBOUND of dimension d as the model's DimDecl.lbE / ubE gives it"""
    from psyclone.psyir.symbols import ArrayType
    sh = symbol.datatype.shape[d]
    arr = symbol.name.lower()
    if isinstance(sh, ArrayType.ArrayBounds):
        b = sh.lower if which == "lo" else sh.upper
        if not isinstance(b, ArrayType.Extent):
            return ex_plain(b, names)
        return txt_sexp(ghost(arr, d, which), names)
    if sh == ArrayType.Extent.ATTRIBUTE and which == "lo":
        return ["lit", 1]
    return txt_sexp(ghost(arr, d, which), names)


def dim_sexp(symbol, d, names):
    from psyclone.psyir.symbols import ArrayType
    sh = symbol.datatype.shape[d]
    arr = symbol.name.lower()
    g = lambda w: txt_sexp(ghost(arr, d, w), names)
    if isinstance(sh, ArrayType.ArrayBounds):
        if isinstance(sh.upper, ArrayType.Extent):
            return ["lowerOnly", ex_plain(sh.lower, names), g("hi")]
        return ["bounds", ex_plain(sh.lower, names), ex_plain(sh.upper, names)]
    if sh == ArrayType.Extent.ATTRIBUTE:
        return ["attribute", g("hi")]
    return ["deferred", g("lo"), g("hi")]


def bnd_sexp(node, names):
    from psyclone.psyir import nodes as N
    if isinstance(node, N.IntrinsicCall) and node.intrinsic.name in ("LBOUND", "UBOUND") and len(node.arguments) == 2 \
            and type(node.arguments[0]) is N.Reference and isinstance(node.arguments[1], N.Literal):
        return ["lb" if node.intrinsic.name == "LBOUND" else "ub", names.id(node.arguments[0].symbol.name),
                int(node.arguments[1].value) - 1]
    return ["e", ex_nobound(node, names)]


def ex_nobound(node, names):
    from psyclone.psyir import nodes as N
    for c in node.walk(N.IntrinsicCall):
        if c.intrinsic.name in ("LBOUND", "UBOUND"):
            raise minif.Unsupported("bound intrinsic inside an expression")
    return ex_plain(node, names)


def acc_sexp(aref, names):
    from psyclone.psyir import nodes as N
    from psyclone.psyir.symbols import ArrayType, DataSymbol
    if not isinstance(aref, N.ArrayReference) or not isinstance(aref.symbol, DataSymbol) \
            or not isinstance(aref.symbol.datatype, ArrayType) or aref.symbol.name.lower() not in ARR:
        raise minif.Unsupported("access outside the model")
    idx = []
    for i in aref.indices:
        if isinstance(i, N.Range):
            idx.append(["rng", bnd_sexp(i.start, names), bnd_sexp(i.stop, names), ex_nobound(i.step, names)])
        else:
            idx.append(["at", ex_nobound(i, names)])
    return ["acc", names.id(aref.symbol.name), ["shape"] + [dim_sexp(aref.symbol, d, names) for d in range(len(aref.indices))],
            ["idx"] + idx]


def aexpr_acc(node, names):
    from psyclone.psyir import nodes as N
    if not node.walk(N.Range):
        return ["sc", ex_plain(node, names)]
    if isinstance(node, N.ArrayReference):
        return ["aacc", acc_sexp(node, names)]
    if isinstance(node, N.BinaryOperation):
        return ["bin", minif._BIN[node.operator.name], aexpr_acc(node.children[0], names), aexpr_acc(node.children[1], names)]
    if isinstance(node, N.UnaryOperation):
        return ["un", minif._UN[node.operator.name], aexpr_acc(node.children[0], names)]
    raise minif.Unsupported(type(node).__name__)


def ex_stmt(node, names):
    from psyclone.psyir import nodes as N
    if isinstance(node, N.Loop):
        return ["loop", names.id(node.variable.name), ex_plain(node.start_expr, names), ex_plain(node.stop_expr, names),
                ex_plain(node.step_expr, names), ["seqs"] + [ex_stmt(c, names) for c in node.loop_body.children]]
    if isinstance(node, N.Assignment):
        lhs = node.lhs
        if isinstance(lhs, N.ArrayReference):
            idx = lhs.indices
            if any(isinstance(i, N.Range) for i in idx) or not 1 <= len(idx) <= 2:
                raise minif.Unsupported("lhs")
            return [f"store{len(idx)}", names.id(lhs.name)] + [ex_plain(i, names) for i in idx] + [ex_plain(node.rhs, names)]
        return ["assign", names.id(lhs.name), ex_plain(node.rhs, names)]
    raise minif.Unsupported(type(node).__name__)


# ---------------------------------------------------------------------------
# instrumentation of the real helpers
class Recorder:
    """records every ArrayMixin.same_range call (exported accesses + the answers of the real helper methods) and every
    SymbolicMaths.equal pair while active"""

    def __init__(self):
        self.calls, self.pairs, self.skipped = [], [], 0
        self.names = None
        self.depth = 0

    def __enter__(self):
        from psyclone.psyir.nodes.array_mixin import ArrayMixin
        from psyclone.core import SymbolicMaths
        self._am, self._sm = ArrayMixin, SymbolicMaths
        self._orig_sr, self._orig_eq = ArrayMixin.same_range, SymbolicMaths.__dict__["equal"]
        rec = self

        def same_range(this, index, array2, index2):
            from psyclone.psyir.nodes import Assignment
            entry = None
            if rec.names is not None and rec.depth == 0:
                try:
                    names = rec.names
                    entry = {"a1": acc_sexp(this, names), "i1": index, "a2": acc_sexp(array2, names), "i2": index2,
                             "same_stmt": 1 if this.ancestor(Assignment) is array2.ancestor(Assignment) else 0,
                             "same_arr": this.symbol is array2.symbol}
                    helpers = []
                    for obj, i in ((this, index), (array2, index2)):
                        for m in ("is_lower_bound", "is_upper_bound", "is_full_range"):
                            try:
                                helpers.append("t" if getattr(obj, m)(i) else "f")
                            except Exception:        # noqa: the model answers `crash` for these
                                helpers.append("crash")
                    entry["helpers"] = [helpers[0], helpers[3], helpers[1], helpers[4], helpers[2], helpers[5]]
                except minif.Unsupported:
                    rec.skipped += 1
                    entry = None
            rec.depth += 1
            try:
                res = rec._orig_sr(this, index, array2, index2)
                ans = "t" if res else "f"
                return res
            except Exception:
                ans = "crash"
                raise
            finally:
                rec.depth -= 1
                if entry is not None:
                    entry["answer"] = ans
                    rec.calls.append(entry)

        def equal(exp1, exp2, *args, **kwargs):
            fn = rec._orig_eq.__func__ if isinstance(rec._orig_eq, staticmethod) else rec._orig_eq
            res = fn(exp1, exp2, *args, **kwargs)
            if rec.names is not None:
                try:
                    rec.pairs.append((ex_nobound(exp1, rec.names), ex_nobound(exp2, rec.names), bool(res)))
                except (minif.Unsupported, AttributeError, KeyError):
                    pass
            return res

        ArrayMixin.same_range = same_range
        SymbolicMaths.equal = staticmethod(equal)
        return self

    def __exit__(self, *exc):
        self._am.same_range = self._orig_sr
        self._sm.equal = self._orig_eq
        return False


def find_sub(psyir):
    from psyclone.psyir import nodes as N
    return [r for r in psyir.walk(N.Routine) if r.name == "sub"][0]


def locate(routine, ncases):
    """position of the statement of every block: the child before the CodeBlock that prints the block's marker"""
    from psyclone.psyir import nodes as N
    pos = {}
    for i, ch in enumerate(routine.children):
        if isinstance(ch, N.CodeBlock):
            txt = " ".join(str(a) for a in ch.get_ast_nodes).replace(" ", "")
            for j in range(ncases):
                if f"{R.MARK},{j}\n" in txt + "\n" or txt.startswith(f"PRINT*,{R.MARK},{j}PRINT") or f"PRINT*,{R.MARK},{j}PRINT" in txt:
                    pos[j] = i - 1
    if len(pos) != ncases:
        raise common.Infra(f"C06 same_range family: {len(pos)} of {ncases} blocks located")
    return [pos[j] for j in range(ncases)]


def transform(cases, n):
    """all cases in ONE subroutine; returns (src, out_src, entries) - entries[j] = dict(case, refused, calls, pairs, line,
    real, crash)"""
    from psyclone.psyir import nodes as N
    src, _ = program(n, [(c["stmts"][0], c["show"], c["reinit"]) for c in cases])
    psyir, _ = R.parse(src)
    routine = find_sub(psyir)
    starts = locate(routine, len(cases))
    entries = [None] * len(cases)
    with Recorder() as rec:
        for j in reversed(range(len(cases))):
            case = cases[j]
            names = minif.Names()
            rec.names, rec.calls, rec.pairs = names, [], []
            e = {"case": case, "n": n, "refused": None, "crash": None, "line": None, "real": None}
            try:
                ap = R.apply_at(psyir, routine, starts[j], case["trans"], case["target"])
                e["refused"] = ap.refused
            except Exception as err:        # PSyclone raised something that is not a TransformationError
                e["crash"] = f"{type(err).__name__}: {str(err)[:200]}"
                ap = None
            rec.names = None
            e["calls"], e["pairs"], e["names"] = rec.calls, rec.pairs, names
            if ap is not None and not ap.refused and case["trans"] == "ArrayAssignment2LoopsTrans":
                try:
                    orig = ap.orig_stmt
                    if all(len(a.indices) <= 2 for a in orig.walk(N.ArrayReference)):
                        idxs = [x for x in ap.new_names if x.startswith("idx")]
                        e["line"] = sx(["aaD", MODE_FIXED, names.id(idxs[0]) if idxs else names.id("idx__none"),
                                        acc_sexp(orig.lhs, names), aexpr_acc(orig.rhs, names)])
                        e["real"] = R.block(["seqs"] + [ex_stmt(s, names) for s in ap.new_stmts])
                except (minif.Unsupported, KeyError):
                    e["line"] = e["real"] = None
            entries[j] = e
    return src, R.write(psyir), entries


def sr_line(call, fixed):
    return sx(["sr", fixed, call["same_stmt"], call["a1"], call["i1"], call["a2"], call["i2"]])


def is_known_class(entry, answers_fixed):
    """reduction over two DIFFERENT dimensions of the same array for which HEAD's same_range says True and the
    repaired one says False"""
    for call, fx in zip(entry["calls"], answers_fixed):
        if call["same_arr"] and call["i1"] != call["i2"] and call["answer"] == "t" and fx == "f":
            return True
    return False


def run(chk, findings, dist):
    """run the family; reports through chk.  Returns nothing."""
    tier = chk.tier
    n = chk.rng.choice([2, 3, 5])
    cases = enumerate_cases(chk.rng, tier)
    known_ids = {f["id"] for f in findings}
    chunk = 120
    for c0 in range(0, len(cases), chunk):
        part = cases[c0:c0 + chunk]
        try:
            src, out, entries = transform(part, n)
        except Exception as err:
            raise common.Infra(f"C06 same_range family: {type(err).__name__}: {err}")
        # no run-time bounds checking in the batch: a wrong index must not abort the blocks that follow it
        # (the rhs is only READ out of bounds; every differing block is re-run on its own, with checking, below)
        (s0, o0), (s1, o1) = R.run_pairs([(src, out)], checks=False, raw=True)[0]
        if s0 != "ok":
            raise common.Infra("C06 same_range family: the original program does not run: " + o0[-400:])
        if s1 == "compile-error":
            raise common.Infra("C06 same_range family: the transformed program does not compile: " + o1[-600:])
        b0 = R.split_blocks(o0)
        b1 = R.split_blocks(o1) if s1 in ("ok", "run-error") else {}
        # model lines
        lines, owners = [], []
        for j, e in enumerate(entries):
            for k, call in enumerate(e["calls"]):
                lines.append(sr_line(call, MODE_FIXED)); owners.append((j, "sr", k))
                lines.append(sr_line(call, 1)); owners.append((j, "srfix", k))
            for k, (a, b, res) in enumerate(e["pairs"]):
                lines.append(sx(["eq", a, b])); owners.append((j, "eq", k))
            if e["line"]:
                lines.append(e["line"]); owners.append((j, "aaD", 0))
        answers = common.driver("C06", lines)
        per = {}
        for (j, what, k), raw in zip(owners, answers):
            per.setdefault(j, {}).setdefault(what, {})[k] = raw
        reported = 0
        for j, e in enumerate(entries):
            case = e["case"]
            pub = {k: case[k] for k in ("kind", "flavour", "stmts", "trans", "target", "show", "reinit")}
            key = "sr:" + case["flavour"] + (":refused" if e["refused"] else ":crash" if e["crash"] else ":accepted")
            dist[key] = dist.get(key, 0) + 1
            agreed, why = True, None
            mine = per.get(j, {})
            for k, call in enumerate(e["calls"]):
                raw = mine["sr"][k]
                if not raw.startswith("(sr"):
                    raise common.Infra(f"C06 driver: {raw}")
                ans = parse_sx(raw)[1:]
                real = call["helpers"] + [call["answer"]]
                dist["sr:same_range calls compared"] = dist.get("sr:same_range calls compared", 0) + 1
                if [str(x) for x in ans] != real:
                    agreed, why = False, ("same_range/is_*_bound", call, ans, real)
            for k, (a, b, res) in enumerate(e["pairs"]):
                raw = mine["eq"][k]
                dist["sr:SymbolicMaths.equal pairs compared"] = dist.get("sr:SymbolicMaths.equal pairs compared", 0) + 1
                if raw != ("t" if res else "f"):
                    agreed, why = False, ("SymbolicMaths.equal vs linEq", [a, b], raw, res)
            if e["line"]:
                raw = mine["aaD"][0]
                if not raw.startswith("("):
                    raise common.Infra(f"C06 driver: {raw} on {e['line']}")
                ans = parse_sx(raw)
                dist["sr:loops compared with the model"] = dist.get("sr:loops compared with the model", 0) + 1
                if ans[0] != "ok" or R.block(ans[1]) != e["real"]:
                    agreed, why = False, ("emitted loop", e["line"], ans, e["real"])
            verdict = "refused" if e["refused"] else "crash" if e["crash"] else \
                ("same" if j in b0 and j in b1 and b0[j] == b1[j] else "differ")
            is_known = False
            if verdict == "differ":
                fixed_ans = [str(parse_sx(mine["srfix"][k])[-1]) for k in range(len(e["calls"]))]
                is_known = agreed and KNOWN_ID in known_ids and is_known_class(e, fixed_ans)
                if not is_known and replay_case(pub, {"n": n}, quiet=True) != 1:
                    dist["sr:batch difference not reproduced alone"] = dist.get("sr:batch difference not reproduced alone", 0) + 1
                    verdict = "same"
            chk.case({"stmts": case["stmts"], "target": case["target"], "trans": case["trans"]},
                     nontrivial=verdict in ("same", "differ"), agreed=agreed)
            dist["verdict:" + verdict] = dist.get("verdict:" + verdict, 0) + 1
            if e["crash"] and len(dist.setdefault("sr:psyclone-crash", [])) < 5:
                dist["sr:psyclone-crash"].append([case["stmts"][0], e["crash"]])
            if verdict == "differ":
                if is_known:
                    dist["known:" + KNOWN_ID] = dist.get("known:" + KNOWN_ID, 0) + 1
                elif reported < 4:
                    reported += 1
                    one_src, one_out, _ = transform([case], n)
                    chk.violation({"kind": "failing-input", "case": pub, "params": {"n": n}, "source": one_src,
                                   "transformed": one_out, "expected": str(b0.get(j))[:2000], "observed": str(b1.get(j, s1 + ": " + o1[-300:]))[:2000],
                                   "what": "transformed subroutine prints different values than the original"})
            if not agreed:
                chk.correspondence_broken(f"{why[0]} differs from the Lean model on {case['stmts']}",
                                          {"case": pub, "params": {"n": n}}, why[2], why[3])


def replay_case(case, params, quiet=False):
    n = params["n"]
    src, out, entries = transform([case], n)
    e = entries[0]
    if e["refused"] or e["crash"]:
        if not quiet:
            print("statement:", case["stmts"], "\ntransformation refused/raised:", (e["refused"] or e["crash"])[:300],
                  "\nproperty: holds (not transformed)")
        return 0
    (s0, o0), (s1, o1) = R.run_pairs([(src, out)], checks=True, raw=True)[0]
    b0, b1 = R.split_blocks(o0), (R.split_blocks(o1) if s1 in ("ok", "run-error") else {})
    bad = s0 == "ok" and (0 not in b1 or b0.get(0) != b1.get(0))
    if not quiet:
        print("statement:", case["stmts"], "transformation:", case["trans"], "n =", n)
        print("transformed subroutine:\n" + out[:out.find("end subroutine") + 20][-1500:])
        print("expected (original program output):", b0.get(0))
        print("observed (transformed program output):", b1.get(0, s1 + ": " + o1[-300:]))
        print("property:", "VIOLATED" if bad else "holds" if s0 == "ok" else "not evaluated: " + o0[-200:])
    return 1 if bad else 0
