"""C02 helpers: Python-side expression trees <-> PSyIR, S-expression export for the Lean
driver, tokeniser of FortranWriter output, reading an expression back with FortranReader.

Python tree T (JSON-able):
  ["lit", kind, value, prec]        kind in int/real/bool/char; prec "u"|"s"|"d"|["k",n]|["y",name]
  ["un", u, T]                      u index into UNOPS
  ["bin", b, T, T]                  b index into BINOPS
  ["ref", name, [T...], next]       next = None | ["ref", member, [T...], next]
  ["call", NAME, [[kw|None, T]...]]
"""
import re

UNOPS = ["MINUS", "PLUS", "NOT"]
BINOPS = ["ADD", "SUB", "MUL", "DIV", "REM", "POW", "EQ", "NE", "GT", "LT", "GE", "LE",
          "AND", "OR", "EQV", "NEQV"]
# order of the constructors of C02.OpTok
OPTOKS = ["+", "-", "*", "/", "**", "==", "/=", "<", "<=", ">", ">=", ".NOT.", ".AND.", ".OR.",
          ".EQV.", ".NEQV."]
CHARQS = ["plain", "sq", "dq", "both", "doubled"]

HDR = """subroutine s()
  use kinds_mod, only: wp, i_def
  type :: t2
    real :: c
    real :: d(10)
  end type
  type :: t1
    real :: f
    type(t2) :: g
    type(t2) :: h(10)
  end type
  real :: a, b, c, x
  integer :: i, j, k
  logical :: p, q, r
  character(len=10) :: s1, s2
  real :: arr(10), arr2(10,10)
  type(t1) :: st, sta(10)
"""
SCALARS = ["a", "b", "c", "i", "j", "p", "q", "s1"]
KIND_SYMS = ["wp", "i_def"]

_syms = {}


def _symbols():
    if _syms:
        return _syms
    from psyclone.psyir.symbols import (DataSymbol, REAL_TYPE, INTEGER_TYPE, BOOLEAN_TYPE,
                                        CHARACTER_TYPE, ArrayType, UnresolvedType)
    for n in ["a", "b", "c", "x"]:
        _syms[n] = DataSymbol(n, REAL_TYPE)
    for n in ["i", "j", "k", "wp", "i_def"]:
        _syms[n] = DataSymbol(n, INTEGER_TYPE)
    for n in ["p", "q", "r"]:
        _syms[n] = DataSymbol(n, BOOLEAN_TYPE)
    for n in ["s1", "s2"]:
        _syms[n] = DataSymbol(n, CHARACTER_TYPE)
    _syms["arr"] = DataSymbol("arr", ArrayType(REAL_TYPE, [10]))
    _syms["arr2"] = DataSymbol("arr2", ArrayType(REAL_TYPE, [10, 10]))
    _syms["st"] = DataSymbol("st", UnresolvedType())
    _syms["sta"] = DataSymbol("sta", UnresolvedType())
    return _syms


# ---------------------------------------------------------------- T -> PSyIR
def _prec(p):
    from psyclone.psyir.symbols import ScalarType
    if p == "u":
        return ScalarType.Precision.UNDEFINED
    if p == "s":
        return ScalarType.Precision.SINGLE
    if p == "d":
        return ScalarType.Precision.DOUBLE
    if p[0] == "k":
        return int(p[1])
    return _symbols()[p[1]]


def to_psyir(t):
    from psyclone.psyir.nodes import (Literal, UnaryOperation, BinaryOperation, Reference,
                                      ArrayReference, StructureReference,
                                      ArrayOfStructuresReference, IntrinsicCall)
    from psyclone.psyir.symbols import ScalarType
    tag = t[0]
    if tag == "lit":
        intr = {"int": ScalarType.Intrinsic.INTEGER, "real": ScalarType.Intrinsic.REAL,
                "bool": ScalarType.Intrinsic.BOOLEAN, "char": ScalarType.Intrinsic.CHARACTER}[t[1]]
        return Literal(t[2], ScalarType(intr, _prec(t[3])))
    if tag == "un":
        return UnaryOperation.create(UnaryOperation.Operator[UNOPS[t[1]]], to_psyir(t[2]))
    if tag == "bin":
        return BinaryOperation.create(BinaryOperation.Operator[BINOPS[t[1]]],
                                      to_psyir(t[2]), to_psyir(t[3]))
    if tag == "call":
        call = IntrinsicCall(IntrinsicCall.Intrinsic[t[1]])
        # as IntrinsicCall.create() but without its argument validation, so that argument
        # orders only the *writer* refuses can be built too
        for kw, a in t[2]:
            call.append_named_arg(kw, to_psyir(a))
        return call
    if tag == "ref":
        sym = _symbols()[t[1]]
        idx = [to_psyir(i) for i in t[2]]
        if t[3] is None:
            return ArrayReference.create(sym, idx) if idx else Reference(sym)
        members = []
        m = t[3]
        while m is not None:
            mi = [to_psyir(i) for i in m[2]]
            members.append((m[1], mi) if mi else m[1])
            m = m[3]
        if idx:
            return ArrayOfStructuresReference.create(sym, idx, members)
        return StructureReference.create(sym, members)
    raise ValueError(tag)


# ---------------------------------------------------------------- PSyIR -> T
def _prec_of(p):
    from psyclone.psyir.symbols import ScalarType, DataSymbol
    if p == ScalarType.Precision.UNDEFINED:
        return "u"
    if p == ScalarType.Precision.SINGLE:
        return "s"
    if p == ScalarType.Precision.DOUBLE:
        return "d"
    if isinstance(p, DataSymbol):
        return ["y", p.name.lower()]
    return ["k", int(p)]


def _member(m):
    from psyclone.psyir.nodes import Member
    idx = [from_psyir(i) for i in getattr(m, "indices", [])] if hasattr(m, "indices") else []
    nxt = getattr(m, "member", None) if hasattr(type(m), "member") else None
    return ["ref", m.name.lower(), idx, _member(nxt) if isinstance(nxt, Member) else None]


def from_psyir(n):
    from psyclone.psyir.nodes import (Literal, UnaryOperation, BinaryOperation, Reference,
                                      IntrinsicCall, Member)
    from psyclone.psyir.symbols import ScalarType
    if isinstance(n, Literal):
        kind = {ScalarType.Intrinsic.INTEGER: "int", ScalarType.Intrinsic.REAL: "real",
                ScalarType.Intrinsic.BOOLEAN: "bool", ScalarType.Intrinsic.CHARACTER: "char"}[n.datatype.intrinsic]
        return ["lit", kind, n.value, _prec_of(n.datatype.precision)]
    if isinstance(n, UnaryOperation):
        return ["un", UNOPS.index(n.operator.name), from_psyir(n.children[0])]
    if isinstance(n, BinaryOperation):
        return ["bin", BINOPS.index(n.operator.name), from_psyir(n.children[0]), from_psyir(n.children[1])]
    if isinstance(n, IntrinsicCall):
        return ["call", n.intrinsic.name, [[kw.lower() if kw else None, from_psyir(a)]
                                           for kw, a in zip(n.argument_names, n.arguments)]]
    if isinstance(n, Reference):
        idx = [from_psyir(i) for i in n.indices] if hasattr(n, "indices") else []
        nxt = getattr(n, "member", None) if hasattr(type(n), "member") else None
        return ["ref", n.symbol.name.lower(), idx, _member(nxt) if isinstance(nxt, Member) else None]
    return ["other", type(n).__name__]


# ---------------------------------------------------------------- interning
def fixed_names():
    """Names with run-independent ids (id = position + 1): every intrinsic of the live
    `IntrinsicCall.Intrinsic` enumeration in its own order, then the argument names the reader's
    canonicalisation knows.  `Gen/IntrinsicArgs.lean` (c02.gen) refers to these ids."""
    from psyclone.psyir.nodes import IntrinsicCall
    names = [i.name.lower() for i in IntrinsicCall.Intrinsic]
    for extra in ["array", "dim", "mask"]:
        if extra not in names:
            names.append(extra)
    return names


class Tables:
    def __init__(self):
        self.ids = {}
        for n in fixed_names():
            self.id("name", n)

    def id(self, space, s):
        k = (space, s)
        if k not in self.ids:
            self.ids[k] = len(self.ids) + 1
        return self.ids[k]


def _prec_sx(p, tb):
    if isinstance(p, str):
        return p
    if p[0] == "k":
        return ["k", int(p[1])]
    return ["y", tb.id("name", p[1].lower())]


def charq(text):
    if "'" in text and '"' in text:
        return "both"
    if "''" in text or '""' in text:
        return "doubled"
    if "'" in text:
        return "sq"
    if '"' in text:
        return "dq"
    return "plain"


def split_num(value):
    """value text of an int/real Literal -> (sign 0/1/2, unsigned text lower-cased with e exponent, dot, exp)."""
    sign = 0
    v = value
    if v[0] == "+":
        sign, v = 1, v[1:]
    elif v[0] == "-":
        sign, v = 2, v[1:]
    v = v.lower().replace("d", "e")
    return sign, v, "." in v, "e" in v


def to_sx(t, tb):
    """nested-list S-expression of C02.Expr"""
    tag = t[0]
    if tag == "lit":
        kind, value, p = t[1], t[2], _prec_sx(t[3], tb)
        if kind == "int":
            s, v, _, _ = split_num(value)
            return ["lit", "int", s, tb.id("num", v), p]
        if kind == "real":
            s, v, dot, ex = split_num(value)
            return ["lit", "real", s, tb.id("num", v), int(dot), int(ex), p]
        if kind == "bool":
            return ["lit", "bool", int(value == "true"), p]
        return ["lit", "char", tb.id("char", value), CHARQS.index(charq(value)), p]
    if tag == "un":
        return ["un", t[1], to_sx(t[2], tb)]
    if tag == "bin":
        return ["bin", t[1], to_sx(t[2], tb), to_sx(t[3], tb)]
    if tag == "call":
        return ["call", tb.id("name", t[1].lower()), _args_sx([(kw, a) for kw, a in t[2]], tb)]
    if tag == "ref":
        return ["part", tb.id("name", t[1].lower()), _args_sx([(None, i) for i in t[2]], tb),
                to_sx(t[3], tb) if t[3] is not None else "nil"]
    raise ValueError(tag)


def _args_sx(args, tb):
    out = "nil"
    for kw, a in reversed(args):
        out = ["cons", tb.id("name", kw.lower()) if kw else "_", to_sx(a, tb), out]
    return out


def from_sx(s, tb):
    """inverse of to_sx (used on the model's parse/norm output)"""
    rev = {v: k for k, v in tb.ids.items()}

    def prec(p):
        if isinstance(p, str):
            return p
        if p[0] == "k":
            return ["k", p[1]]
        return ["y", rev[p[1]][1]]

    def args(a):
        out = []
        while a != "nil":
            out.append([None if a[1] == "_" else rev[a[1]][1], go(a[2])])
            a = a[3]
        return out

    def go(x):
        if x[0] == "lit":
            if x[1] == "int":
                return ["lit", "int", ["", "+", "-"][x[2]] + rev[x[3]][1], prec(x[4])]
            if x[1] == "real":
                return ["lit", "real", ["", "+", "-"][x[2]] + rev[x[3]][1], prec(x[6])]
            if x[1] == "bool":
                return ["lit", "bool", "true" if x[2] else "false", prec(x[3])]
            return ["lit", "char", rev[x[2]][1], prec(x[4])]
        if x[0] == "un":
            return ["un", x[1], go(x[2])]
        if x[0] == "bin":
            return ["bin", x[1], go(x[2]), go(x[3])]
        if x[0] == "call":
            return ["call", rev[x[1]][1].upper(), args(x[2])]
        if x[0] == "part":
            return ["ref", rev[x[1]][1], [a for _, a in args(x[2])], go(x[3]) if x[3] != "nil" else None]
        raise ValueError(x)
    return go(s)


# ---------------------------------------------------------------- tokeniser
_TOKEN = re.compile(r"""
    (?P<ws>\s+)
  | (?P<char>(?:(?P<ck>[A-Za-z0-9]\w*)_)?(?P<cq>'[^']*(?:''[^']*)*'|"[^"]*(?:""[^"]*)*"))
  | (?P<bool>\.(?P<bv>true|false)\.(?:_(?P<bk>\w+))?)
  | (?P<dotop>\.(?:not|and|or|eqv|neqv)\.)
  | (?P<num>\d+(?P<frac>\.\d*)?(?:(?P<el>[eEdD])(?P<ex>[+-]?\d+))?(?:_(?P<nk>\w+))?)
  | (?P<name>[A-Za-z]\w*)
  | (?P<sym>\*\*|==|/=|<=|>=|<|>|\+|-|\*|/|\(|\)|,|%|=)
""", re.X | re.I)


def _suffix(k, tb):
    if k is None:
        return "_"
    if k.isdigit():
        return ["k", int(k)]
    return ["y", tb.id("name", k.lower())]


def tokenise(text, tb, intrinsics):
    """FortranWriter expression text -> list of token S-expressions (None if untokenisable)."""
    out, pos = [], 0
    while pos < len(text):
        m = _TOKEN.match(text, pos)
        if not m:
            return None
        # a number like '1.' directly followed by a dotted operator ('1.and.'): re-match without the dot
        if m.lastgroup == "num" or m.group("num"):
            pass
        pos = m.end()
        if m.group("ws"):
            continue
        if m.group("char"):
            inner = m.group("cq")[1:-1]
            out.append(["char", tb.id("char", inner), CHARQS.index(charq(inner)), _suffix(m.group("ck"), tb)])
        elif m.group("bool"):
            out.append(["bool", int(m.group("bv").lower() == "true"), _suffix(m.group("bk"), tb)])
        elif m.group("dotop"):
            out.append(["op", OPTOKS.index(m.group("dotop").upper())])
        elif m.group("num"):
            el = m.group("el")
            body = m.group("num")
            if m.group("nk"):
                body = body[: -len(m.group("nk")) - 1]
            v = body.lower().replace("d", "e")
            out.append(["num", tb.id("num", v), int(m.group("frac") is not None),
                        0 if el is None else (1 if el.lower() == "e" else 2), _suffix(m.group("nk"), tb)])
        elif m.group("name"):
            nm = m.group("name")
            rest = text[pos:].lstrip()
            if rest.startswith("=") and not rest.startswith("=="):
                out.append(["kw", tb.id("name", nm.lower())])
                pos = len(text) - len(rest) + 1
            elif nm.upper() in intrinsics and rest.startswith("("):
                out.append(["fn", tb.id("name", nm.lower())])
            else:
                out.append(["name", tb.id("name", nm.lower())])
        else:
            s = m.group("sym")
            if s == "(":
                out.append("lp")
            elif s == ")":
                out.append("rp")
            elif s == ",":
                out.append("comma")
            elif s == "%":
                out.append("pct")
            elif s == "=":
                return None
            else:
                out.append(["op", OPTOKS.index(s)])
    return out


def no_bad_adjacency(toks):
    """python twin of C02.noBadAdj, evaluated on the real writer's tokens"""
    prec = [6, 6, 7, 7, 8, 4, 4, 4, 4, 4, 4, 3, 2, 1, 0, 0]
    for t1, t2 in zip(toks, toks[1:]):
        if isinstance(t1, list) and isinstance(t2, list) and t1[0] == "op" and t2[0] == "op":
            o1, o2 = t1[1], t2[1]
            if o2 in (0, 1):
                ok = prec[o1] <= 4
            elif o2 == 11:
                ok = prec[o1] <= 2
            else:
                ok = False
            if not ok:
                return False
    return True


def lit_tokens_std(toks):
    """python twin of C02.litToksStd (Fortran 2008 C412), evaluated on the real writer's tokens:
    a numeric literal with exponent letter d must not carry a kind parameter"""
    return not any(isinstance(t, list) and t[0] == "num" and t[3] == 2 and t[4] != "_" for t in toks)


# ---------------------------------------------------------------- write / re-read with the real code
_W = _R = None


def writer():
    global _W
    if _W is None:
        from psyclone.psyir.backend.fortran import FortranWriter
        _W = FortranWriter()
    return _W


def write(t):
    """-> ('ok', text) or ('error', exception class name)"""
    from psyclone.psyir.backend.visitor import VisitorError
    try:
        node = to_psyir(t)
    except Exception as e:   # tree cannot be built as PSyIR: generator error
        return "unbuildable", f"{type(e).__name__}: {e}"
    from psyclone.psyir.nodes import Assignment, Reference
    stmt = Assignment.create(Reference(_symbols()["x"]), node)
    try:
        text = writer()(stmt)
    except (VisitorError, NotImplementedError) as e:
        return "error", type(e).__name__
    if not text.startswith("x = ") or not text.endswith("\n") or "\n" in text[:-1]:
        return "unbuildable", "unexpected statement text " + repr(text)
    return "ok", text[4:-1]


def reread_many(texts, batch=32):
    """Read expressions back with the real FortranReader.  Returns a list of
    ('ok', T) | ('syntax', msg) | ('codeblock', '')."""
    global _R
    from psyclone.psyir.frontend.fortran import FortranReader
    from psyclone.psyir.nodes import Assignment, CodeBlock, Routine
    if _R is None:
        _R = FortranReader()

    def one_batch(batch):
        src = HDR + "".join(f"  x = {t}\n" for t in batch) + "end subroutine\n"
        psy = _R.psyir_from_source(src)
        stmts = psy.walk(Routine)[0].children
        if len(stmts) != len(batch):
            raise ValueError("statement count")
        res = []
        for s in stmts:
            if isinstance(s, Assignment):
                res.append(("ok", from_psyir(s.rhs)))
            else:
                res.append(("codeblock", ""))
        return res

    def solve(batch):
        """bisect on failure so that one bad text does not force 40 separate reads"""
        try:
            return one_batch(batch)
        except Exception as e:      # syntax error somewhere in the batch
            if len(batch) == 1:
                return [("syntax", f"{type(e).__name__}: {str(e)[:200]}")]
            mid = len(batch) // 2
            return solve(batch[:mid]) + solve(batch[mid:])

    out = []
    for i in range(0, len(texts), batch):
        out += solve(texts[i:i + batch])
    return out
