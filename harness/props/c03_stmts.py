"""C03 — statement-level and expression-level families of the double round trip.

Three systematically enumerated families (plus a seeded random part), all judged by the property itself on
the real code: w1 = write(read(src)), w2 = write(read(w1)), w1 == w2.

* operator shapes: every type-correct (parent operator, child operator, side) of the Fortran operators the
  writer knows (.EQV. .NEQV. .OR. .AND. .NOT., the six relational operators, + - * / **, unary + -), written
  with explicit parentheses AND without (the tree is then chosen by the reader), plus the three-level shapes
  `a G ((-b) P c)` the sign rule looks at; every shape as an assignment and in one further statement /
  declaration position that rotates with the seed (IF, DO WHILE, DO bound, subscript, call argument, named
  argument, SELECT selector, parameter initial value, array bound of a declaration).
* SELECT CASE: selector kind x case-item shapes (values, lists, ranges, open ranges) x position of DEFAULT.
* statement kinds: a catalogue of executable statements (IF/ELSE IF, DO with step, DO WHILE, WHERE/ELSEWHERE,
  CALL with named arguments, array sections, literals of every kind, structure accesses, intrinsic calls,
  code blocks), each alone and nested inside each other.

Programs are packed (many statements per module); when a packed program is unstable every statement of it is
re-run alone and the smallest unstable program is reported.  For shapes made of names only the written text
and the stable/unstable verdict are also compared with the Lean model (`C02.parse` / `C02.render .narrow`,
driver command `exprtext`)."""
import re

from common import driver, sx

# operator strings in the order of C02.optoks
OPTOKS = ["+", "-", "*", "/", "**", "==", "/=", "<", "<=", ">", ">=", ".not.", ".and.", ".or.", ".eqv.", ".neqv."]
LOGB = [".eqv.", ".neqv.", ".or.", ".and."]
REL = ["==", "/=", "<", "<=", ">", ">="]
ARI = ["+", "-", "*", "/", "**"]
UNARY = ["-", "+", ".not."]
LOGV = ["v1", "v2", "v3", "v4"]
NUMV = ["v5", "v6", "v7", "v8"]


def result_class(op, unary=False):
    if unary:
        return "L" if op == ".not." else "N"
    return "N" if op in ARI else "L"


def operand_class(op, unary=False):
    if unary:
        return "L" if op == ".not." else "N"
    return "L" if op in LOGB else "N"


class Case:
    __slots__ = ("expr", "cls", "shape", "tie")

    def __init__(self, expr, cls, shape, tie=True):
        self.expr, self.cls, self.shape, self.tie = expr, cls, shape, tie


def leaf(cls, k, lit=False):
    if lit:
        return [".true.", ".false.", ".true.", ".false."][k % 4] if cls == "L" else ["2", "-3", "7", "-1"][k % 4]
    return (LOGV if cls == "L" else NUMV)[k % 4]


def operator_shapes():
    """every type-correct two-operator shape, explicit and implicit form; three-level sign shapes"""
    out = []
    bins = LOGB + REL + ARI
    for p in bins:
        pc = operand_class(p)
        for c in bins:
            if result_class(c) != pc:
                continue
            cc = operand_class(c)
            a, b, d = leaf(pc, 0), leaf(cc, 1), leaf(cc, 2)
            out.append(Case(f"{a} {p} ({b} {c} {d})", result_class(p), ("bin", p, c, "R", "explicit")))
            out.append(Case(f"({b} {c} {d}) {p} {a}", result_class(p), ("bin", p, c, "L", "explicit")))
            out.append(Case(f"{b} {c} {d} {p} {a}", result_class(p), ("bin", p, c, "-", "implicit")))
            # the same operand on both sides (the writer compares children with ==)
            out.append(Case(f"({b} {c} {d}) {p} ({b} {c} {d})", result_class(p), ("bin", p, c, "LR", "explicit")))
        for u in UNARY:
            if result_class(u, True) != pc:
                continue
            a, b = leaf(pc, 0), leaf(operand_class(u, True), 1)
            out.append(Case(f"{a} {p} ({u} {b})", result_class(p), ("un-child", p, u, "R", "explicit")))
            out.append(Case(f"({u} {b}) {p} {a}", result_class(p), ("un-child", p, u, "L", "explicit")))
            out.append(Case(f"{u} {b} {p} {a}", result_class(p), ("un-child", p, u, "-", "implicit")))
            out.append(Case(f"{a} {p} {u} {b}", result_class(p), ("un-child", p, u, "R", "implicit")))
            # signed literal operands
            lit = leaf(pc, 1, lit=True)
            if pc == "N":
                out.append(Case(f"{a} {p} ({lit})", result_class(p), ("lit-child", p, lit, "R", "explicit")))
                out.append(Case(f"({lit}) {p} {a}", result_class(p), ("lit-child", p, lit, "L", "explicit")))
                out.append(Case(f"{lit} {p} {a}", result_class(p), ("lit-child", p, lit, "L", "implicit")))
    for u in UNARY:
        uc = operand_class(u, True)
        for c in bins:
            if result_class(c) != uc:
                continue
            cc = operand_class(c)
            b, d = leaf(cc, 1), leaf(cc, 2)
            out.append(Case(f"{u} ({b} {c} {d})", result_class(u, True), ("un-parent", u, c, "U", "explicit")))
        for u2 in UNARY:
            if result_class(u2, True) != uc:
                continue
            out.append(Case(f"{u} ({u2} {leaf(uc, 1)})", result_class(u, True), ("un-un", u, u2, "U", "explicit")))
    # three levels: a G ((-b) P c) and ((-b) P c) G a
    for g in ARI + REL:
        for p in ARI:
            for u in ("-", "+"):
                out.append(Case(f"v5 {g} (({u} v6) {p} v7)", result_class(g), ("sign3", g, p, u, "R")))
                out.append(Case(f"(({u} v6) {p} v7) {g} v5", result_class(g), ("sign3", g, p, u, "L")))
                out.append(Case(f"v5 {g} ({u} v6 {p} v7)", result_class(g), ("sign3", g, p, u, "R-implicit")))
    # three levels of logical / relational operators (SELECT CASE and IF conditions have this form)
    for g in LOGB:
        for p in LOGB:
            for c in ("==", ".eqv.", "<"):
                cc = operand_class(c)
                e = f"{leaf(cc, 1)} {c} {leaf(cc, 2)}"
                e2 = f"{leaf(cc, 3)} {c} {leaf(cc, 0)}"
                out.append(Case(f"v1 {g} (({e}) {p} ({e2}))", "L", ("log3", g, p, c, "R")))
                out.append(Case(f"(({e}) {p} ({e2})) {g} v1", "L", ("log3", g, p, c, "L")))
    return out


def random_expr(rng, cls, depth, lits=True):
    if depth == 0 or rng.random() < 0.15:
        return leaf(cls, rng.randrange(4), lit=lits and rng.random() < 0.2)
    c = rng.random()
    if c < 0.15:
        u = ".not." if cls == "L" else rng.choice(["-", "+"])
        e = f"{u} {random_expr(rng, cls, depth - 1, lits)}"
    else:
        if cls == "L":
            op = rng.choice(LOGB + LOGB + REL)
        else:
            op = rng.choice(ARI)
        oc = operand_class(op)
        e = f"{random_expr(rng, oc, depth - 1, lits)} {op} {random_expr(rng, oc, depth - 1, lits)}"
    return f"({e})" if rng.random() < 0.6 else e


def random_shapes(rng, n):
    out = []
    for _ in range(n):
        cls = rng.choice("LN")
        lits = rng.random() < 0.5
        out.append(Case(random_expr(rng, cls, rng.randint(2, 4), lits), cls, ("random",), ))
    return out


# ------------------------------------------------------------------ contexts
CONTEXTS_L = ["if", "dowhile", "ifline", "param", "callarg", "named", "merge", "elseif"]
CONTEXTS_N = ["dobound", "subscript", "callarg", "named", "select", "param", "dimbound", "casevalue", "dostep",
              "section"]


class Prog:
    """a module with the constants v1..v8 and one subroutine; statements and declarations are added per case"""

    def __init__(self):
        self.decls, self.stmts, self.nl, self.nn, self.marks, self.effs = [], [], 0, 0, {}, {}

    def add(self, case, ctx, key):
        e = case.expr
        if case.cls == "L":
            self.nl += 1
            self.stmts.append(f"lr({self.nl}) = {e}")
            self.marks[key] = f"lr({self.nl}) = "
        else:
            self.nn += 1
            self.stmts.append(f"ir({self.nn}) = {e}")
            self.marks[key] = f"ir({self.nn}) = "
        k = len(self.stmts)
        self.effs[key] = [e]
        if ctx == "select":
            self.effs[key].append(f"(({e}) == 1) .or. (({e}) == 3)")
        elif ctx == "casevalue":
            self.effs[key] += [f"v10 == ({e})", "v10 >= 100"]
        elif ctx == "section":
            self.effs[key].append(f"{k} - ({e}) + 1")
        if ctx == "if":
            self.stmts.append(f"if ({e}) then\n  v10 = {k}\nelse\n  v10 = 0\nend if")
        elif ctx == "elseif":
            self.stmts.append(f"if (v9) then\n  v10 = {k}\nelse if ({e}) then\n  v10 = 0\nend if")
        elif ctx == "ifline":
            self.stmts.append(f"if ({e}) v10 = {k}")
        elif ctx == "dowhile":
            self.stmts.append(f"do while ({e})\n  v10 = v10 + {k}\nend do")
        elif ctx == "param":
            t = "logical" if case.cls == "L" else "integer"
            self.decls.append(f"{t}, parameter :: c{k} = {e}")
        elif ctx == "callarg":
            self.stmts.append(f"call ext({e}, {k})")
        elif ctx == "named":
            self.stmts.append(f"call ext(n={k}, val={e})")
        elif ctx == "merge":
            self.stmts.append(f"v10 = merge({k}, 0, {e})")
        elif ctx == "dobound":
            self.stmts.append(f"do i = {e}, {k}\n  v10 = v10 + i\nend do")
        elif ctx == "dostep":
            self.stmts.append(f"do i = 1, {k}, {e}\n  v10 = v10 + i\nend do")
        elif ctx == "subscript":
            self.stmts.append(f"ir({e}) = {k}")
        elif ctx == "section":
            self.stmts.append(f"ir({e}:{k}) = ir(1:{k} - ({e}) + 1)")
        elif ctx == "select":
            self.stmts.append(f"select case ({e})\ncase (1, 3)\n  v10 = {k}\ncase default\n  v10 = 0\nend select")
        elif ctx == "casevalue":
            self.stmts.append(f"select case (v10)\ncase ({e})\n  v10 = {k}\ncase (100:)\n  v10 = 0\nend select")
        elif ctx == "dimbound":
            self.decls.append(f"integer :: w{k}({e})")
        else:
            raise ValueError(ctx)

    def source(self):
        ind = lambda s, p: "\n".join(p + ln for ln in s.split("\n"))
        return ("module opm\n  implicit none\n"
                "  logical, parameter :: v1 = .true., v2 = .false., v3 = .true., v4 = .false.\n"
                "  integer, parameter :: v5 = 2, v6 = 3, v7 = 5, v8 = 7\n"
                + "".join(ind(d, "  ") + "\n" for d in self.decls)
                + "contains\n  subroutine s(v9, v10, lr, ir)\n"
                "    logical, intent(inout) :: v9\n    integer, intent(inout) :: v10\n"
                "    logical, intent(inout) :: lr(1000)\n    integer, intent(inout) :: ir(1000)\n"
                "    integer :: i\n"
                + "".join(ind(s, "    ") + "\n" for s in self.stmts)
                + "  end subroutine s\nend module opm\n")


def pack(cases, ctxs, per=40):
    """-> list of (Prog, [(index, case, ctx)])"""
    out = []
    for lo in range(0, len(cases), per):
        p, members = Prog(), []
        for j in range(lo, min(lo + per, len(cases))):
            p.add(cases[j], ctxs[j], j)
            members.append((j, cases[j], ctxs[j]))
        out.append((p, members))
    return out


def context_for(case, j, seed):
    pool = CONTEXTS_L if case.cls == "L" else CONTEXTS_N
    return pool[(j + seed) % len(pool)]


# ------------------------------------------------------------------ model tie
TOKRE = re.compile(r"\s*(\*\*|==|/=|<=|>=|<|>|\+|-|\*|/|\(|\)|\.[a-z]+\.|v[0-9]+|[0-9]+(?![0-9._a-z]))", re.I)
FOP = {".eq.": "==", ".ne.": "/=", ".lt.": "<", ".le.": "<=", ".gt.": ">", ".ge.": ">="}


def tokens_of(text):
    """tokens of an expression over v<n>, operators and parentheses; None if anything else occurs"""
    toks, pos = [], 0
    text = text.strip()
    while pos < len(text):
        m = TOKRE.match(text, pos)
        if not m:
            return None
        t = m.group(1).lower()
        t = FOP.get(t, t)
        if t.startswith(".") and t not in OPTOKS and t not in (".true.", ".false."):
            return None
        toks.append(str(int(t)) if t.isdigit() else t)
        pos = m.end()
    return toks


def model_line(toks):
    items = []
    for t in toks:
        if t == "(":
            items.append("lp")
        elif t == ")":
            items.append("rp")
        elif t.startswith("v"):
            items.append(["n", t[1:]])
        elif t.isdigit():
            items.append(["i", str(int(t))])
        elif t in (".true.", ".false."):
            items.append(["t", "1" if t == ".true." else "0"])
        else:
            items.append(["o", str(OPTOKS.index(t))])
    return sx(["exprtext", items])


def canon(text):
    toks = tokens_of(text)
    return None if toks is None else "".join(toks)


def squash(line):
    """a written line without blanks, lower case, old-style relational operators replaced"""
    t = re.sub(r"\s+", "", line.lower())
    for k, v in FOP.items():
        t = t.replace(k, v)
    return t


def effective(case, ctx):
    """source-level expressions whose trees are the ones the reader builds for `case` in position `ctx`"""
    p = Prog()
    p.add(case, ctx, 0)
    return p.effs[0]


def model_explains(st, w1, rem, add, models):
    """the failure is exactly what the model predicts for one of the expressions, and that expression is in
    the class `exposed`"""
    bad = [m for m in models if m is not None and m[2] and m[0] != m[1]]
    if st == "w1-unreadable":
        return any(m[1] == "unreadable" and m[0] in squash(w1) for m in bad)
    if st != "unstable" or not rem or len(rem) != len(add):
        return False
    for r, a in zip(rem, add):
        rc, ac = squash(r), squash(a)
        if not any(m[1] != "unreadable" and m[0] in rc and rc.replace(m[0], m[1]) == ac for m in bad):
            return False
    return True


def model_texts(exprs):
    """per expression: (w1, w2, exposed) as the model predicts them (w2 may be 'unreadable'), or None
    (not representable / the model's grammar does not accept the source)"""
    lines, idx = [], []
    for k, e in enumerate(exprs):
        toks = tokens_of(e)
        if toks is None:
            continue
        lines.append(model_line(toks))
        idx.append(k)
    res = [None] * len(exprs)
    outs = driver("C03", lines) if lines else []
    for k, o in zip(idx, outs):
        parts = o.split("|")
        if len(parts) == 3:
            res[k] = (parts[0], parts[1], parts[2] == "1")
    return res


def marked_rhs(text, mark):
    for ln in text.split("\n"):
        s = ln.strip()
        if s.startswith(mark):
            return s[len(mark):]
    return None


# ------------------------------------------------------------------ SELECT CASE family
def select_cases():
    """(decl lines, statement) pairs"""
    out = []
    ivals = [["1"], ["-1"], ["v5"], ["1", "3"], ["1", "v5", "9"], ["2:4"], [":0"], ["7:"], ["v5:v6"],
             ["1", "3:5"], ["3:5", "9"], [":0", "5", "8:"], ["v5 + 1"], ["-(v5)"], ["v5*2:v6*3"], ["(1)"]]
    lvals = [[".true."], [".false."], ["v1"], [".true.", ".false."], ["v1", "v2"], ["v1", ".false."],
             [".not. v1"], ["v1 .and. v2"], ["v1 .eqv. v2", "v3"]]
    cvals = [["'a'"], ["'a'", "'b'"], ["'a':'f'"], ["'x'", "'a':'c'"], [":'c'"], ["\"q\""]]
    sels = [("ix", ivals), ("ix + 1", ivals[:6]), ("ir(2)", ivals[:4]), ("-ix", ivals[:3]), ("ix*2 - 1", ivals[5:9]),
            ("lx", lvals), ("lx .and. lr(1)", lvals[:5]), (".not. lx", lvals[:4]), ("lx .eqv. lr(2)", lvals[:4]),
            ("lx .or. lr(2)", lvals[:4]), ("ix > 2", lvals[:2]), ("ch", cvals)]
    k = 0
    for sel, vals in sels:
        for i, v in enumerate(vals):
            for dpos in range(4):           # no default / default first / middle / last
                if (i + dpos + len(sel)) % 2 and dpos in (1, 2):
                    continue                # thin out: every value list with no-default and default-last
                k += 1
                blocks = [f"case ({', '.join(v)})\n  ix = {k}"]
                v2 = vals[(i + 1) % len(vals)]
                if v2 != v and not (set(v) & set(v2)):
                    blocks.append(f"case ({', '.join(v2)})\n  ix = {k} + 1\n  lx = .not. lx")
                dflt = f"case default\n  ix = -{k}"
                if dpos == 1:
                    blocks.insert(0, dflt)
                elif dpos == 2:
                    blocks.insert(1, dflt)
                elif dpos == 3:
                    blocks.append(dflt)
                out.append(("select", f"select case ({sel})\n" + "\n".join(blocks) + "\nend select",
                            {"selector": sel, "values": v, "default": dpos}))
    return out


# ------------------------------------------------------------------ statement catalogue
CATALOGUE = [
    ("if-else", "if (ix > 2 .and. lx) then\n  ix = 1\nelse if (ix < -2 .or. .not. lx) then\n  ix = 2\nelse\n  ix = 3\nend if"),
    ("if-line", "if (lx .neqv. lr(1)) ix = ix + 1"),
    ("if-nested", "if (lx) then\n  if (.not. (lr(1) .or. lr(2))) then\n    ix = 1\n  end if\nend if"),
    ("do-step", "do i = 1, 10, 2\n  ir(i) = ir(i) + i\nend do"),
    ("do-neg-step", "do i = 10, 1, -1\n  ir(i) = i\nend do"),
    ("do-expr-bounds", "do i = ix + 1, 2*ix - 1, ix/2\n  ir(i) = -i\nend do"),
    ("do-while", "do while (ix < 10 .and. .not. lx)\n  ix = ix + 1\nend do"),
    ("do-exit-cycle", "do i = 1, 10\n  if (ir(i) == 0) cycle\n  if (ir(i) < 0) exit\n  ix = ix + ir(i)\nend do"),
    ("do-nested", "do i = 1, 4\n  do j = 1, 4\n    a2(i, j) = real(i*j)\n  end do\nend do"),
    ("where", "where (ra > 0.0)\n  rb = ra\nelsewhere\n  rb = -ra\nend where"),
    ("where-mask-ops", "where (ra > 0.0 .and. rb < 1.0 .or. lm)\n  rb = ra*2.0\nend where"),
    ("where-line", "where (lm) ra = 0.0"),
    ("where-elsewhere-mask", "where (ra > 1.0)\n  rb = 1.0\nelsewhere (ra < -1.0)\n  rb = -1.0\nelsewhere\n  rb = 0.0\nend where"),
    ("call-positional", "call ext(ix, 3)"),
    ("call-named", "call ext(n=ix, val=lx)"),
    ("call-mixed-named", "call ext(ix + 1, val=ra(2:5), flag=.true.)"),
    ("call-named-swapped", "call ext(val=ix, n=3)"),
    ("call-no-args", "call ext0()"),
    ("call-member", "call ob%proc(ix)"),
    ("section-full", "ra(:) = rb(:)"),
    ("section-bounds", "ra(2:9) = rb(1:8)"),
    ("section-stride", "ra(1:9:2) = rb(2:10:2)"),
    ("section-open", "ra(3:) = rb(:8)"),
    ("section-neg-stride", "ra(10:1:-1) = rb"),
    ("section-expr", "ra(ix + 1:2*ix) = rb(ix:2*ix - 1)"),
    ("section-2d", "a2(:, 2) = a2(1, :)"),
    ("section-2d-mixed", "a2(2:3, ::2) = 0.0"),
    ("array-whole", "ra = rb + 1.0"),
    ("lit-int-kind", "ix = 3_ik + 12_4"),
    ("lit-real-forms", "rx = 1.0 + 2.5e3 + 1.0e-3 + 3.0d0 + 4.5_rk + 6.0e2_rk + .5 + 7."),
    ("lit-real-neg", "rx = -1.0 * (-2.5e-3) + (-3.0d0)"),
    ("lit-logical", "lx = .true. .and. .false._lk"),
    ("lit-char", "ch = 'a'\nst = \"it's\"\nst = 'say \"hi\"'\nst = 'it''s'"),
    ("lit-char-concat", "st = 'ab' // \"cd\" // ch"),
    ("char-compare", "lx = ch == 'a' .or. ch /= \"b\""),
    ("struct-member", "ob%i = ob%i + 1"),
    ("struct-array", "obs(2)%r(3) = obs(1)%r(ix)*2.0"),
    ("struct-nested", "ob%in%k = obs(ix)%in%k - 1"),
    ("struct-section", "obs(1)%r(:) = obs(2)%r(:)"),
    ("intrinsic-minmax", "ix = max(ix, 3, ir(1)) + min(1, ix)"),
    ("intrinsic-named", "rx = sum(ra, mask=ra > 0.0) + maxval(a2, mask=a2 < 1.0)"),
    ("intrinsic-named2", "rx = sum(array=ra, dim=1)"),
    ("intrinsic-math", "rx = sqrt(abs(rx)) + sin(rx)**2 + exp(-rx) + mod(ix, 3) + sign(rx, -1.0_rk)"),
    ("intrinsic-logical", "lx = any(ra > 0.0) .and. all(lm) .or. present(opt)"),
    ("intrinsic-conv", "rx = real(ix, rk) + real(int(rx), kind=rk) + nint(rx)"),
    ("intrinsic-size", "ix = size(ra) + size(a2, 1) + size(a2, dim=2) + ubound(ra, 1) - lbound(ra, dim=1)"),
    ("intrinsic-array", "ra = matmul(a2(1:10, 1:10), rb)\nrx = dot_product(ra, rb)"),
    ("power-chain", "rx = rx**2**ix + (rx**2)**ix + (-rx)**2 - rx**(-2)"),
    ("unary-mix", "ix = -ix + (-ix)*3 - (-ix) + (+ix)"),
    ("relational-old", "lx = ix .gt. 2 .and. ix .le. 9 .or. ix .eq. 0 .or. ix .ne. 5"),
    ("not-mix", "lx = .not. lx .and. .not. (lx .or. lr(1)) .eqv. .not. lr(2)"),
    ("allocate", "allocate(al(10), stat=ierr)\ndeallocate(al)"),
    ("allocate-mold", "allocate(al, mold=ra)\nif (allocated(al)) deallocate(al, stat=ierr)"),
    ("return", "if (ix < 0) return"),
    ("codeblock-write", "write(*, *) 'ix = ', ix, ' lx = ', lx"),
    ("codeblock-format", "write(6, '(a, i4)') \"value\", ix"),
    ("codeblock-goto", "if (ix > 5) go to 10\nix = ix + 1\n10 continue"),
    ("codeblock-complex", "zc = (1.0, 2.0) * zc"),
    ("codeblock-stop", "if (ix > 99) stop 'too big'"),
    ("codeblock-in-loop", "do i = 1, 3\n  print *, i\n  ir(i) = 0\nend do"),
    ("nullify-pointer", "ptr => tg(2:5)\nnullify(ptr)"),
    ("select-in-loop", "do i = 1, 3\n  select case (ir(i))\n  case (1:2)\n    ix = 1\n  case default\n    ix = 0\n  end select\nend do"),
    ("comment-lines", "! leading comment\nix = 1  ! trailing comment\n!$omp parallel do\ndo i = 1, 3\n  ir(i) = 0\nend do\n!$omp end parallel do"),
]

STMT_DECLS = """integer, parameter :: ik = 4, rk = 8, lk = 4
logical, parameter :: v1 = .true., v2 = .false., v3 = .true., v4 = .false.
integer, parameter :: v5 = 2, v6 = 3, v7 = 5, v8 = 7
type :: in_t
  integer :: k
end type in_t
type :: ob_t
  integer :: i
  real :: r(10)
  type(in_t) :: in
contains
  procedure :: proc
end type ob_t"""

STMT_LOCALS = """logical, intent(inout) :: lx
integer, intent(inout) :: ix
logical, intent(inout) :: lr(1000)
integer, intent(inout) :: ir(1000)
real, intent(in), optional :: opt
integer :: i, j, ierr
real :: ra(10), rb(10), a2(10, 10)
real(kind=rk) :: rx
logical :: lm(10)
character :: ch
character(len=20) :: st
complex :: zc
real, allocatable :: al(:)
real, pointer :: ptr(:)
real, target :: tg(10)
type(ob_t) :: ob, obs(3)"""


def stmt_source(stmts):
    ind = lambda s, p: "\n".join(p + ln for ln in s.split("\n"))
    return ("module stm\n  implicit none\n" + ind(STMT_DECLS, "  ") + "\ncontains\n"
            "  subroutine proc(this, n)\n    class(ob_t), intent(inout) :: this\n    integer, intent(in) :: n\n"
            "    this%i = n\n  end subroutine proc\n"
            "  subroutine s(lx, ix, lr, ir, opt)\n" + ind(STMT_LOCALS, "    ") + "\n"
            + "".join(ind(s, "    ") + "\n" for s in stmts)
            + "  end subroutine s\nend module stm\n")


def nest(rng, pool, depth):
    """a statement made of catalogue entries nested in IF / DO / WHERE-free bodies"""
    name, body = rng.choice(pool)
    if depth == 0 or "10 continue" in body:
        return body
    ind = lambda s: "\n".join("  " + ln for ln in s.split("\n"))
    inner = nest(rng, pool, depth - 1)
    if "10 continue" in inner:
        return inner
    c = rng.randrange(4)
    if c == 0:
        return f"if ({random_expr(rng, 'L', 2, False)}) then\n{ind(body)}\nelse\n{ind(inner)}\nend if"
    if c == 1:
        return f"do j = 1, {random_expr(rng, 'N', 2, False)}\n{ind(inner)}\nend do"
    if c == 2:
        return f"do while ({random_expr(rng, 'L', 2, False)})\n{ind(inner)}\n{ind(body)}\nend do"
    return (f"select case (ix)\ncase ({rng.randint(1, 3)}, {rng.randint(5, 7)}:{rng.randint(8, 9)})\n{ind(inner)}\n"
            f"case default\n{ind(body)}\nend select")


def node_types(psyir, into):
    from psyclone.psyir.nodes import Node
    for n in psyir.walk(Node):
        k = type(n).__name__
        into[k] = into.get(k, 0) + 1
        op = getattr(n, "operator", None)
        if op is not None and hasattr(op, "name"):
            kk = "op:" + op.name
            into[kk] = into.get(kk, 0) + 1
        intr = getattr(n, "intrinsic", None)
        if intr is not None and hasattr(intr, "name") and k == "IntrinsicCall":
            kk = "intrinsic:" + intr.name
            into[kk] = into.get(kk, 0) + 1
