"""C25 — the real-code side: synthesise a GOcean invoke for a list of kernels (index offset, grid-point type,
iteration space), add user-defined iteration spaces through the real API, apply real transformations,
lower, and interpret the lowered PSyIR serially for a concrete run-time environment, recording every
kernel call (kernel number, i, j)."""
import os
import re
import shutil
import tempfile

from common import Infra
from props import c25_gen

TAGS = {1: "OMPParallelTrans", 2: "GOceanOMPLoopTrans", 3: "GOceanOMPParallelLoopTrans",
        4: "ACCParallelTrans", 5: "ACCLoopTrans", 6: "GOceanExtractTrans"}
SINGLE = {2, 3, 5}


class Names:
    """name <-> id maps of one case (fixed ids of the model first, then names in order of appearance)"""

    def __init__(self):
        self.off = c25_gen.Interner(c25_gen.OFFSETS)
        self.pt = c25_gen.Interner(c25_gen.POINTS)
        self.its = c25_gen.Interner(c25_gen.SPACES)

    def key(self, off, pt, its):
        return [self.off.id(off), self.pt.id(pt), self.its.id(its)]


def reset_state():
    """built-in table and VALID_ITERATES_OVER as created by the code under check"""
    from psyclone.configuration import Config
    Config.get().api = "gocean1.0"
    return c25_gen.fresh_table()


# ---------------------------------------------------------------------------------------------
# user-defined iteration spaces
def add_via_api(line):
    """GOLoop.add_bounds(line) -> 'ok' | 'refuse' | 'error:<type>'"""
    from psyclone.gocean1p0 import GOLoop
    from psyclone.configuration import ConfigurationError
    try:
        GOLoop.add_bounds(line)
        return "ok"
    except ConfigurationError:
        return "refuse"
    except Exception as err:  # pylint: disable=broad-except
        return "error:" + type(err).__name__


def add_via_config(lines, tmpdir, repo):
    """load a config file whose [gocean] section lists the iteration spaces; -> 'ok' | 'refuse' | 'error:..'
    (the first refused line aborts the load; earlier lines stay added)"""
    from psyclone.configuration import Config, ConfigurationError
    text = open(os.path.join(repo, "config", "psyclone.cfg")).read()
    marker = "[gocean]"
    pos = text.index(marker) + len(marker)
    spec = "\niteration-spaces = " + "\n    ".join(lines) + "\n"
    path = os.path.join(tmpdir, "c25.cfg")
    with open(path, "w") as f:
        f.write(text[:pos] + spec + text[pos:])
    saved = Config._instance
    Config._instance = None
    try:
        cfg = Config()
        cfg.load(path)
        return "ok"
    except ConfigurationError:
        return "refuse"
    except Exception as err:  # pylint: disable=broad-except
        return "error:" + type(err).__name__
    finally:
        Config._instance = saved


# ---------------------------------------------------------------------------------------------
# synthetic algorithm + kernel metadata
def _kernel_type(idx, off, pt, its):
    return f"""
  type, extends(kernel_type) :: kern{idx}
     type(go_arg), dimension(2) :: meta_args =    &
          (/ go_arg(GO_WRITE, {pt.upper()}, GO_POINTWISE),  &
             go_arg(GO_READ,  {pt.upper()}, GO_POINTWISE)   &
           /)
     integer :: ITERATES_OVER = {its.upper()}
     integer :: index_offset = {off.upper()}
  contains
    procedure, nopass :: code => kern{idx}_code
  end type kern{idx}
"""


def _kernel_code(idx):
    return f"""
  subroutine kern{idx}_code(i, j, a, b)
    integer, intent(in) :: i, j
    real(go_wp), intent(out), dimension(:,:) :: a
    real(go_wp), intent(in), dimension(:,:) :: b
    a(i,j) = b(i,j)
  end subroutine kern{idx}_code
"""


def build_psy(kerns, tmpdir):
    """kerns: [(off, pt, its) names].  Kernel n writes field w<n>_fld (of its own grid-point type) and reads
    r<n>_fld.  -> ('ok', psy) | ('parse', msg) | ('gen', msg)"""
    from psyclone.parse.algorithm import parse
    from psyclone.parse.utils import ParseError
    from psyclone.psyGen import PSyFactory
    from psyclone.errors import GenerationError
    types = "".join(_kernel_type(i, *k) for i, k in enumerate(kerns))
    subs = "".join(_kernel_code(i) for i in range(len(kerns)))
    with open(os.path.join(tmpdir, "c25_kern_mod.f90"), "w") as f:
        f.write("module c25_kern_mod\n  use kind_params_mod\n  use kernel_mod\n  use argument_mod\n"
                "  use field_mod\n  use grid_mod\n  implicit none\n" + types + "contains\n" + subs +
                "end module c25_kern_mod\n")
    calls = ", &\n    ".join(f"kern{i}(w{i}_fld, r{i}_fld)" for i in range(len(kerns)))
    decl = ", ".join(f"w{i}_fld, r{i}_fld" for i in range(len(kerns)))
    names = ", ".join(f"kern{i}" for i in range(len(kerns)))
    alg = os.path.join(tmpdir, "c25_alg.f90")
    with open(alg, "w") as f:
        f.write(f"program c25_alg\n  use kind_params_mod\n  use grid_mod\n  use field_mod\n"
                f"  use c25_kern_mod, only: {names}\n  implicit none\n  type(r2d_field) :: {decl}\n"
                f"  call invoke( {calls} )\nend program c25_alg\n")
    try:
        _, info = parse(alg, api="gocean1.0", kernel_paths=[tmpdir])
        psy = PSyFactory("gocean1.0", distributed_memory=False).create(info)
    except ParseError as err:
        return "parse", str(err)
    except GenerationError as err:
        return "gen", str(err)
    except Exception as err:  # pylint: disable=broad-except
        # e.g. ValueError from FortranReader for an accepted user-defined bound such as '{start}{stop}'
        return "error:" + type(err).__name__, str(err)
    return "ok", psy


# ---------------------------------------------------------------------------------------------
# the logical tree (statements that matter for the visited points) and the transformations
def logical_children(sched):
    from psyclone.psyir.nodes import Loop, RegionDirective, PSyDataNode
    from psyclone.psyGen import Kern
    return [c for c in sched.children if isinstance(c, (Loop, RegionDirective, PSyDataNode, Kern))]


def body_of(node):
    from psyclone.psyir.nodes import Loop, RegionDirective, PSyDataNode
    if isinstance(node, Loop):
        return node.loop_body
    if isinstance(node, RegionDirective):
        return node.dir_body
    if isinstance(node, PSyDataNode):
        return node.psy_data_body
    return None


def sched_at(root, path):
    sched = root
    for c in path:
        kids = logical_children(sched)
        if c >= len(kids):
            return None
        sched = body_of(kids[c])
        if sched is None:
            return None
    return sched


def make_trans(tag):
    from psyclone import transformations as tr
    from psyclone.domain.gocean.transformations import GOceanExtractTrans
    if tag == 6:
        return GOceanExtractTrans()
    return getattr(tr, TAGS[tag])()


def apply_step(schedule, step):
    """-> True (accepted) | False (refused by validate) | None (addresses nothing: not a step)"""
    from psyclone.psyir.transformations import TransformationError
    from psyclone.domain.gocean.transformations import GOceanLoopFuseTrans, GOConstLoopBoundsTrans
    try:
        if step[0] == "C":
            GOConstLoopBoundsTrans().apply(schedule)
            return True
        if step[0] == "F":
            _, path, p = step
            sched = sched_at(schedule, path)
            if sched is None:
                return False
            kids = logical_children(sched)
            if p + 1 >= len(kids):
                return False
            GOceanLoopFuseTrans().apply(kids[p], kids[p + 1])
            return True
        _, tag, path, p, ln = step
        sched = sched_at(schedule, path)
        if sched is None:
            return None
        kids = logical_children(sched)
        if ln < 1 or p + ln > len(kids):
            return None
        nodes = kids[p:p + ln]
        if tag in SINGLE:
            if ln != 1:
                return None
            make_trans(tag).apply(nodes[0])
        else:
            make_trans(tag).apply(nodes)
        return True
    except TransformationError:
        return False if step[0] in "CF" else None
    except NotImplementedError:
        return None


def finish_acc(schedule):
    """an OpenACC parallel region needs an enter-data directive in the invoke (no effect on the loops)"""
    from psyclone.psyir.nodes import ACCParallelDirective, ACCEnterDataDirective
    from psyclone.transformations import ACCEnterDataTrans
    if schedule.walk(ACCParallelDirective) and not schedule.walk(ACCEnterDataDirective):
        ACCEnterDataTrans().apply(schedule)


# ---------------------------------------------------------------------------------------------
# serial interpreter of the lowered PSyIR
class Interp:
    """env: {'ex','ey','nx','ny', 'rects': {pt id: [ijlo ijhi iilo iihi wjlo wjhi wilo wihi]}};
    field_pt: field name -> point-type id"""

    MEMBERS = {"internal%ystart": 0, "internal%ystop": 1, "internal%xstart": 2, "internal%xstop": 3,
               "whole%ystart": 4, "whole%ystop": 5, "whole%xstart": 6, "whole%xstop": 7}

    def __init__(self, env, field_pt):
        self.env, self.field_pt = env, field_pt
        self.vars = {}
        self.trace = []
        self.budget = 200000

    def field_member(self, text):
        name, _, member = text.lower().partition("%")
        if member == "grid%subdomain%internal%xstop":
            return self.env["ex"]
        if member == "grid%subdomain%internal%ystop":
            return self.env["ey"]
        if member in self.MEMBERS and name in self.field_pt:
            return self.env["rects"][self.field_pt[name]][self.MEMBERS[member]]
        raise Infra(f"C25 interpreter: unknown field member '{text}'")

    def ev(self, e):
        from psyclone.psyir.nodes import (Literal, Reference, BinaryOperation, UnaryOperation,
                                          StructureReference, IntrinsicCall)
        from psyclone.psyir.backend.fortran import FortranWriter
        if isinstance(e, Literal):
            return int(e.value)
        if isinstance(e, StructureReference):
            return self.field_member(FortranWriter()(e))
        if isinstance(e, IntrinsicCall):
            if e.intrinsic is IntrinsicCall.Intrinsic.SIZE:
                dim = self.ev(e.arguments[1])
                return self.env["nx"] if dim == 1 else self.env["ny"]
            raise Infra(f"C25 interpreter: intrinsic {e.intrinsic}")
        if isinstance(e, Reference):
            if e.symbol.name not in self.vars:
                raise Infra(f"C25 interpreter: variable '{e.symbol.name}' read before being set")
            return self.vars[e.symbol.name]
        if isinstance(e, BinaryOperation):
            a, b = self.ev(e.children[0]), self.ev(e.children[1])
            op = e.operator
            if op is BinaryOperation.Operator.ADD:
                return a + b
            if op is BinaryOperation.Operator.SUB:
                return a - b
            if op is BinaryOperation.Operator.MUL:
                return a * b
            raise Infra(f"C25 interpreter: operator {op}")
        if isinstance(e, UnaryOperation):
            a = self.ev(e.children[0])
            if e.operator is UnaryOperation.Operator.MINUS:
                return -a
            if e.operator is UnaryOperation.Operator.PLUS:
                return a
        raise Infra(f"C25 interpreter: expression {type(e).__name__}")

    def run(self, node):
        from psyclone.psyir.nodes import (Schedule, Loop, Call, CodeBlock, Assignment, RegionDirective,
                                          StandaloneDirective, Reference, StructureReference, PSyDataNode)
        if isinstance(node, Schedule):
            for c in node.children:
                self.run(c)
        elif isinstance(node, Loop):
            lo, hi, step = self.ev(node.start_expr), self.ev(node.stop_expr), self.ev(node.step_expr)
            if step == 0:
                raise Infra("C25 interpreter: zero step")
            trips = max(0, (hi - lo + step) // step)
            v = lo
            for _ in range(trips):
                self.budget -= 1
                if self.budget < 0:
                    raise Infra("C25 interpreter: iteration budget exhausted")
                self.vars[node.variable.name] = v
                self.run(node.loop_body)
                v += step
            self.vars[node.variable.name] = v
        elif isinstance(node, Call):
            name = node.routine.name.lower()
            if name.startswith("kern") and name.endswith("_code"):
                args = node.arguments
                self.trace.append((int(name[4:-5]), self.ev(args[0]), self.ev(args[1])))
        elif isinstance(node, CodeBlock):
            text = " ".join(str(x) for x in node.get_ast_nodes).lower()
            if re.search(r"call\s+kern\d+_code", text):
                raise Infra("C25 interpreter: kernel call hidden in a CodeBlock")
        elif isinstance(node, Assignment):
            if isinstance(node.lhs, Reference) and not isinstance(node.lhs, StructureReference) \
                    and not node.lhs.children:
                self.vars[node.lhs.symbol.name] = self.ev(node.rhs)
        elif isinstance(node, RegionDirective):
            self.run(node.dir_body)
        elif isinstance(node, PSyDataNode):
            self.run(node.psy_data_body)
        elif isinstance(node, StandaloneDirective):
            pass
        else:
            raise Infra(f"C25 interpreter: statement {type(node).__name__}")
        return self.trace


# ---------------------------------------------------------------------------------------------
def run_case(case, repo):
    """Run one case through the real code.
    case: {'adds': [{'line': str, 'via': 'api'|'config'}], 'kerns': [[off, pt, its] names],
           'steps': [...], 'envs': [env, ...]}
    -> {'adds': [...], 'build': 'ok'|'parse'|'gen', 'steps': [flags of C/F steps], 'accepted': [steps the
        real code accepted, in order, incl. wraps], 'cb': bool, 'traces': [trace per env] | None,
        'lowering': 'ok'|'refused:...'}"""
    from psyclone.errors import GenerationError, InternalError
    tmpdir = tempfile.mkdtemp(prefix="c25-", dir=os.environ.get("TMPDIR"))
    out = {"adds": [], "build": None, "steps": [], "accepted": [], "cb": False, "traces": None, "lowering": None,
           "model_steps": []}
    try:
        reset_state()
        config_lines = [a["line"] for a in case["adds"] if a["via"] == "config"]
        done_config = False
        for a in case["adds"]:
            if a["via"] == "api":
                out["adds"].append(add_via_api(a["line"]))
            elif not done_config:
                # all config lines go through one file; they are consecutive in the case
                res = add_via_config(config_lines, tmpdir, repo)
                out["adds"] += [res] * len(config_lines) if res == "ok" else ["config:" + res]
                done_config = True
        status, psy = build_psy([tuple(k) for k in case["kerns"]], tmpdir)
        out["build"] = status
        if status != "ok":
            out["message"] = psy[:300]
            return out
        schedule = psy.invokes.invoke_list[0].schedule
        field_pt = {}
        for n, k in enumerate(case["kerns"]):
            pt = c25_gen.POINTS.index(k[1]) if k[1] in c25_gen.POINTS else 5
            field_pt[f"w{n}_fld"] = pt
            field_pt[f"r{n}_fld"] = pt
        weird = False
        results = out["adds"] if len(out["adds"]) == len(case["adds"]) else [None] * len(case["adds"])
        for a, r in zip(case["adds"], results):
            # (a config-file load that was aborted reports one result for all lines: be conservative)
            f = a["line"].split(":")
            if r in ("ok", None) and len(f) == 7 and any(c25_gen.parse_bound(b) is None for b in f[3:]):
                weird = True
        try:
            for st in case["steps"]:
                res = apply_step(schedule, st)
                if st[0] in "CF":
                    out["steps"].append(bool(res))
                    out["model_steps"].append(st)
                elif res:
                    out["model_steps"].append(st)
                if res:
                    out["accepted"].append(st)
                    if st[0] == "C":
                        out["cb"] = True
            finish_acc(schedule)
            schedule.root.lower_to_language_level()
        except (GenerationError, InternalError) as err:
            out["lowering"] = "refused:" + type(err).__name__ + ":" + str(err)[:200]
            return out
        except Exception as err:  # pylint: disable=broad-except
            if not weird:
                raise
            out["lowering"] = "error:" + type(err).__name__ + " (accepted bound outside the model grammar)"
            return out
        out["lowering"] = "ok"
        if weird:
            out["lowering"] = "ok (not interpreted: accepted bound outside the model grammar)"
            return out
        out["traces"] = []
        for env in case["envs"]:
            it = Interp(env, field_pt)
            out["traces"].append([list(c) for c in it.run(schedule)])
        return out
    finally:
        shutil.rmtree(tmpdir, ignore_errors=True)
        reset_state()
