"""C11 program generator: the MiniF generator (harness/minif.py) extended with user routine calls
(declared intents, pure/impure functions, pure subroutines), intrinsic subroutines, ALLOCATE/DEALLOCATE,
inquiry intrinsics, structure members, array sections and assignments the collection refuses."""
import minif

HEADER = """module c11m
  implicit none
  type tt
    integer :: f(-14:26)
    integer :: g
  end type tt
  type inner_t
    integer :: x(-14:26)
    integer :: n
  end type inner_t
  type outer_t
    type(inner_t) :: b(-14:26)
    integer :: d(-14:26)
    integer :: g
    real :: r(10)
  end type outer_t
contains
  subroutine sout(x, n)
    integer, intent(out) :: x
    integer, intent(in) :: n
    x = n
  end subroutine sout
  subroutine sio(x, y)
    integer, intent(inout) :: x
    integer :: y
    x = x + y
    y = 0
  end subroutine sio
  subroutine sarr(v, n)
    integer, intent(inout) :: v(:)
    integer, intent(in) :: n
    v(1) = n
  end subroutine sarr
  pure integer function pf(n)
    integer, intent(in) :: n
    pf = n + 1
  end function pf
  integer function fside(n)
    integer, intent(inout) :: n
    n = n + 1
    fside = n
  end function fside
  pure subroutine psub(x, n)
    integer, intent(out) :: x
    integer, intent(in) :: n
    x = n
  end subroutine psub
  pure subroutine pinc(x, n)
    integer, intent(inout) :: x
    integer, intent(in) :: n
    x = x + n
  end subroutine pinc
  pure subroutine pvec(n, v, w)
    integer, intent(in) :: n
    integer, intent(inout) :: v(:)
    integer, intent(out) :: w
    v(1) = n
    w = n
  end subroutine pvec
  subroutine cfill(str)
    character(len=*), intent(out) :: str
    str = "XYZ"
  end subroutine cfill
  subroutine cio(str, n)
    character(len=*), intent(inout) :: str
    integer, intent(in) :: n
    str(1:1) = achar(65 + n)
  end subroutine cio
  subroutine cin(str, n)
    character(len=*), intent(in) :: str
    integer, intent(out) :: n
    n = len_trim(str)
  end subroutine cin
  pure subroutine pcfill(str, n)
    character(len=*), intent(out) :: str
    integer, intent(in) :: n
    str = achar(65 + n)
  end subroutine pcfill
  pure integer function pclen(str)
    character(len=*), intent(in) :: str
    pclen = len_trim(str)
  end function pclen
  integer function fcside(str)
    character(len=*), intent(inout) :: str
    str(1:1) = "Q"
    fcside = 1
  end function fcside
  subroutine p()
    use extm, only: epsub
"""

FOOTER = """  end subroutine p
end module c11m
"""

EXTRA_DECLS = ["    type(tt) :: s, sa(5)", "    type(outer_t) :: fs(-14:26), os", "    integer, allocatable :: z(:), w(:,:)", "    real :: x, y(10)",
               "    integer :: vals(8), cnt", "    character(len=8) :: names(-14:26), stamp(5), ch"]


class Gen(minif.BodyGen):
    """adds call / intrinsic / allocate / structure / section statements to the MiniF body generator"""

    def __init__(self, rng, scalars, arrays1, arrays2, loopvars, pure_sub=False):
        super().__init__(rng, scalars, arrays1, arrays2, loopvars)
        self.pure_sub = pure_sub

    def sub(self, live):
        """a subscript expression over loop variables AND scalars (so that it is never a bare literal)"""
        r = self.rng
        v = r.choice(live + self.scalars)
        return r.choice([v, f"{v} + {r.randint(1, 3)}", f"{r.randint(2, 3)} * {v} - 1", f"{r.choice(self.scalars)} - {v}",
                         f"{r.choice(self.arrays1)}({v})", f"mod({v}, 3)"])

    def sref(self, live, scalar=True):
        """structure access with array indices on the first / middle / last component (every combination)"""
        r, S = self.rng, self.sub
        forms = [lambda: f"fs({S(live)})%g", lambda: f"fs({S(live)})%d({S(live)})", lambda: f"fs({S(live)})%b({S(live)})%n",
                 lambda: f"fs({S(live)})%b({S(live)})%x({S(live)})", lambda: f"os%b({S(live)})%x({S(live)})",
                 lambda: f"os%b({S(live)})%n", lambda: f"os%d({S(live)})", lambda: f"fs({S(live)})%b({r.randint(0, 3)})%x({S(live)})",
                 lambda: f"fs({r.randint(0, 3)})%b({S(live)})%n"]
        if not scalar:    # array-valued: index on a non-last component only
            forms = [lambda: f"fs({S(live)})%d", lambda: f"fs({S(live)})%b({S(live)})%x", lambda: f"os%b({S(live)})%x",
                     lambda: f"fs({S(live)})%d({r.randint(0, 3)}:{S(live)})"]
        return r.choice(forms)()

    def ref(self, live, depth=0):
        r = self.rng
        x = r.random()
        if x < 0.05:
            return r.choice(["s%g", f"s%f({self.subscript(live)})", f"sa({r.randint(1, 5)})%g",
                             f"sa({r.randint(1, 5)})%f({self.subscript(live)})"])
        if x < 0.13:
            return self.sref(live)
        if x < 0.18 and depth < 2:
            a = r.choice(self.arrays1)
            return r.choice([f"size({a})", f"size({a}, 1)", f"lbound({a}, 1)", f"ubound({a}, {r.choice(self.scalars)})",
                             f"size(s%f)", f"size(z)"])
        if x < 0.195 and depth < 2:
            # inquiry whose first argument carries subscripts (known finding C11-inquiry-subscripts-not-read)
            a = r.choice(self.arrays1)
            return r.choice([f"size({a}({self.sub(live)}:))", f"size({self.sref(live, scalar=False)})",
                             f"ubound({self.sref(live, scalar=False)}, 1)"])
        if x < 0.23 and depth < 2:
            return f"pf({r.choice([super().ref(live), self.sref(live)])})"
        if x < 0.26 and depth < 2:
            return f"fside({r.choice(self.scalars + [self.arrays1[0] + '(' + self.subscript(live) + ')', self.sref(live)])})"
        return super().ref(live, depth)

    def cbd(self, live):
        """a designator the frontend keeps as an expression CodeBlock: sub-string of a character array element"""
        r = self.rng
        arr = r.choice(["names", "stamp"])
        lo = r.choice(["1", r.choice(self.scalars), self.sub(live)])
        hi = r.choice([str(r.randint(1, 8)), r.choice(self.scalars), f"{lo} + {r.randint(0, 2)}", ""])
        if lo == "1" and r.random() < 0.3:
            lo = ""
        return f"{arr}({self.sub(live)})({lo}:{hi})"

    def cbv(self, live):
        """an integer-valued expression containing an expression CodeBlock"""
        r = self.rng
        a = r.choice(self.arrays1)
        v = r.choice(live + self.scalars)
        return r.choice([lambda: f"ichar({self.cbd(live)})", lambda: f"len_trim({self.cbd(live)})",
                         lambda: f"pclen({self.cbd(live)})", lambda: f"fcside({self.cbd(live)})",
                         lambda: f"index({self.cbd(live)}, ch)", lambda: f"len({self.cbd(live)})",
                         lambda: f"sum((/ ({a}({v} + i9), i9 = 1, {r.choice(self.scalars)}) /))",
                         lambda: f"maxval((/ {v}, {a}({self.sub(live)}), {r.randint(0, 5)} /))"])()

    def lhs(self, live, allow_scalar=True):
        r = self.rng
        x = r.random()
        if x < 0.05:
            return r.choice(["s%g", f"s%f({self.subscript(live)})", f"sa({r.randint(1, 5)})%g"])
        if x < 0.15:
            return self.sref(live)
        return super().lhs(live, allow_scalar)

    def arg(self, live):
        r = self.rng
        x = r.random()
        if x < 0.25:
            return r.choice(self.scalars)
        if x < 0.5:
            return f"{r.choice(self.arrays1)}({self.subscript(live)})"
        if x < 0.58:
            return r.choice(["s%g", f"sa({r.randint(1, 5)})%g", f"s%f({self.subscript(live)})"])
        if x < 0.85:
            return self.sref(live, scalar=r.random() < 0.7)
        return self.expr(live, 1)

    def loop_header(self, v, live):
        r = self.rng
        if r.random() < 0.08:
            return f"do {v} = 1, {self.cbv(live)}"
        if r.random() < 0.2:
            return f"do {v} = {self.sref(live)}, {r.choice([self.sref(live), str(r.randint(3, 8))])}"
        return super().loop_header(v, live)

    def special(self, live, ind):
        r = self.rng
        a, b = r.choice(self.arrays1), r.choice(self.arrays1)
        s = r.choice(self.scalars)
        forms = [
            lambda: f"call sout({self.arg(live)}, {self.expr(live, 1)})",
            lambda: f"call sio({self.arg(live)}, {self.arg(live)})",
            lambda: f"call sarr({a}, {self.expr(live, 1)})",
            lambda: f"call sarr({a}({r.randint(0, 3)}:{r.randint(4, 9)}), {s})",
            lambda: f"call ext({self.arg(live)}, {self.arg(live)})",
            lambda: f"call random_number(x)",
            lambda: f"call random_number(fs({self.sub(live)})%r)",
            lambda: f"call random_number(fs({self.sub(live)})%r({self.sub(live)}))",
            lambda: f"call system_clock(fs({self.sub(live)})%b({self.sub(live)})%n)",
            lambda: f"call system_clock(count_rate={self.sref(live)})",
            lambda: f"call mvbits({self.sref(live)}, 0, 2, {self.sref(live)}, 1)",
            lambda: f"call sarr({self.sref(live, scalar=False)}, {self.sref(live)})",
            lambda: f"call sout({self.sref(live)}, {self.sref(live)})",
            lambda: f"call ext({self.sref(live)}, {self.sref(live, scalar=False)})",
            lambda: f"call random_number(y({r.randint(1, 3)}:{r.randint(4, 9)}))",
            lambda: f"call system_clock(cnt)",
            lambda: f"call system_clock(count_rate={s})",
            lambda: f"call mvbits({self.arg(live)}, 0, 2, {s}, 1)",
            lambda: f"call date_and_time(values=vals)",
            lambda: f"call cpu_time(x)",
            lambda: f"call get_command_argument({r.randint(0, 2)}, length={s})",
            lambda: f"allocate(z({self.expr(live, 1)}))",
            lambda: f"allocate(z(10), w({s}, {self.subscript(live)}), stat={s})",
            lambda: f"deallocate(z)",
            lambda: f"{a}(:) = {b}(:) + {r.randint(0, 4)}",
            lambda: f"{a}({r.randint(0, 3)}:{s}) = {self.expr(live, 1)}",
            lambda: f"x = maxval(y) + sum(y(1:{s}))",
            lambda: f"{s} = size({a}) + pf({self.arg(live)})",
            lambda: f"{a}({a}({r.randint(0, 4)})) = {self.expr(live, 1)}",      # refused
            lambda: f"{a}({b}({self.subscript(live)})) = {self.expr(live, 1)}",
        ]
        forms.append(lambda: f"call psub({self.arg(live)}, {self.expr(live, 1)})")
        forms.append(lambda: f"call psub(n={self.expr(live, 1)}, x={self.arg(live)})")
        forms.append(lambda: f"call pinc({self.arg(live)}, {self.expr(live, 1)})")
        forms.append(lambda: f"call pvec({self.expr(live, 1)}, {self.sref(live, scalar=False)}, {self.arg(live)})")
        forms.append(lambda: f"call pvec({s}, {a}, {self.sref(live)})")
        # expression CodeBlocks as actual arguments (user routines with every intent, pure subroutine, external routine,
        # intrinsic subroutines), in conditions, subscripts, right-hand sides, loop bounds, inquiry arguments
        forms += [
            lambda: f"call cfill({self.cbd(live)})",
            lambda: f"call cio({self.cbd(live)}, {self.expr(live, 1)})",
            lambda: f"call cin({self.cbd(live)}, {self.arg(live)})",
            lambda: f"call cin(n={s}, str={self.cbd(live)})",
            lambda: f"call pcfill({self.cbd(live)}, {s})",
            lambda: f"call ext({self.cbd(live)}, {self.arg(live)})",
            lambda: f"call date_and_time(date={self.cbd(live)})",
            lambda: f"call date_and_time({self.cbd(live)}, {self.cbd(live)})",
            lambda: f"call get_command({self.cbd(live)}, {s})",
            lambda: f"call get_environment_variable(ch, {self.cbd(live)})",
            lambda: f"call sout({self.arg(live)}, {self.cbv(live)})",
            lambda: f"if ({self.cbd(live)} == ch) {a}({self.subscript(live)}) = {self.cbv(live)}",
            lambda: f"if ({self.cbv(live)} > {r.randint(0, 3)}) call cfill({self.cbd(live)})",
            lambda: f"{a}({self.cbv(live)}) = {self.expr(live, 1)}",
            lambda: f"{self.lhs(live)} = {self.cbv(live)} + {self.expr(live, 1)}",
            lambda: f"{s} = {self.cbv(live)}",
            lambda: f"{a}({r.randint(0, 3)}:{r.randint(4, 6)}) = (/ ({s} * i9, i9 = 1, 3) /)",
            lambda: f"ch = {self.cbd(live)}",
        ]
        forms.append(lambda: f"write(*,*) {self.arg(live)}, {s}")
        forms.append(lambda: f"read(*,*) {r.choice([s, self.sref(live), a + '(' + self.subscript(live) + ')'])}")
        forms.append(lambda: f"if ({self.cond(live)}) return")
        if live:
            forms.append(lambda: f"if ({self.cond(live)}) exit")
            forms.append(lambda: f"if ({self.cond(live)}) cycle")
        if self.pure_sub:
            # a PURE subroutine defined elsewhere (known finding C11-pure-subroutine-args-read)
            forms.append(lambda: f"call epsub({self.arg(live)}, {self.expr(live, 1)})")
            forms.append(lambda: f"call epsub({s}, {s})")
        return [ind + r.choice(forms)()]

    def assign(self, live, ind="  "):
        x = self.rng.random()
        if x < 0.35:
            return self.special(live, ind)
        if x < 0.42:
            s = self.rng.choice(self.scalars)
            return ([f"{ind}do while ({s} < {self.rng.randint(3, 9)} .and. {self.ref(live)} > {self.rng.randint(-3, 2)})"]
                    + [ind + "  " + self.special(live, "")[0] if self.rng.random() < 0.3 else ind + "  " + super().assign(live, "")[0]]
                    + [f"{ind}  {s} = {s} + {self.rng.randint(1, 2)}", f"{ind}end do"])
        return super().assign(live, ind)


def gen_source(rng, nstmts=5, pure_sub=False):
    scalars = ["s0", "s1", "t"][: rng.randint(2, 3)]
    arrays1 = ["a", "b", "c"][: rng.randint(2, 3)]
    arrays2 = ["m"] if rng.random() < 0.4 else []
    loopvars = ["i", "j", "k"]
    g = Gen(rng, scalars, arrays1, arrays2, loopvars, pure_sub=pure_sub)
    body = g.block([], nstmts, ind="    ")
    prog = minif.Prog(scalars, arrays1, arrays2, loopvars, [], body)
    decls = ["  " + d for d in prog.decls()] + EXTRA_DECLS + ["    integer :: i9"]
    return HEADER + "\n".join(decls) + "\n" + "\n".join(body) + "\n" + FOOTER
