"""C19: running the real PSyAD code and exporting its input/output.

pipeline(src, active):  FortranReader -> preprocess_trans -> generate_adjoint (exactly the
steps of generate_adjoint_str, whose string result is compared with ours) and exports
* the ORIGINAL TL routine and the real adjoint routine to MiniF (executed by the Lean MiniF
  semantics: the property itself),
* the preprocessed TL routine and the real adjoint to the *linear form* of Model/AD.lean
  (structural comparison with the model's `adjoint`)."""
import minif
from minif import Unsupported


class NotLinear(Exception):
    """statement outside the linear form of the model (PSyAD has to refuse it as well, unless
    it is only outside the *modelled* subset: see OutsideModel)"""


class OutsideModel(Exception):
    """accepted by PSyAD but not representable in Model/AD.lean (passive statements, division)"""


def _replace_codeblocks(routine):
    """The reversed loop start contains a CodeBlock holding the *text* `mod(hi-lo,step)`; a
    compiler reads that text, so do we: re-parse it in the routine's scope."""
    from psyclone.psyir.nodes import CodeBlock
    from psyclone.psyir.frontend.fortran import FortranReader
    for cb in routine.walk(CodeBlock):
        if cb.structure == CodeBlock.Structure.EXPRESSION:
            txt = str(cb.get_ast_nodes[0])
            cb.replace_with(FortranReader().psyir_from_expression(txt, routine.symbol_table))


def _is_active(node, active):
    from psyclone.psyir.nodes import Reference
    return any(r.symbol.name.lower() in active for r in node.walk(Reference))


def _is_passive_stmt(node, active):
    """a statement PSyAD keeps unchanged (hoisted); an IF/loop that has become empty in the adjoint
    (e.g. the adjoint of `x = x`) is structure, not a passive statement"""
    from psyclone.psyir import nodes as N
    if _is_active(node, active):
        return False
    return not isinstance(node, (N.IfBlock, N.Loop)) or bool(node.walk((N.Assignment, N.CodeBlock, N.Call)))


def _aref(ref, names):
    from psyclone.psyir import nodes as N
    if isinstance(ref, N.ArrayReference):
        idx = [minif.export_expr(i, names) for i in ref.indices]
        if any(isinstance(i, N.Range) for i in ref.indices) or not 1 <= len(idx) <= 2:
            raise OutsideModel("array section")
        return [names.id(ref.name), idx[0], idx[1] if len(idx) == 2 else ["lit", 0]]
    if type(ref) is N.Reference:
        return [names.id(ref.name), ["lit", 0], ["lit", 0]]
    raise NotLinear("reference " + type(ref).__name__)


def _split(node, neg):
    from psyclone.psyir import nodes as N
    if isinstance(node, N.BinaryOperation) and node.operator == N.BinaryOperation.Operator.ADD:
        return _split(node.children[0], neg) + _split(node.children[1], neg)
    if isinstance(node, N.BinaryOperation) and node.operator == N.BinaryOperation.Operator.SUB:
        return _split(node.children[0], neg) + _split(node.children[1], not neg)
    return [(node, neg)]


def _term(node, neg, active, names):
    from psyclone.psyir import nodes as N
    from psyclone.psyir.symbols import INTEGER_TYPE
    copy = node.copy()
    refs = [r for r in copy.walk(N.Reference) if r.symbol.name.lower() in active]
    if not refs:
        raise NotLinear("no active reference in a term")
    # several active references: the first one is "the" reference as in AssignmentTrans.apply, the others stay in the
    # coefficient, which C19.Accepted refuses (non-linear term)
    ref = refs[0]
    # the path from the reference to the term root: products and signs only
    cur = ref
    while cur is not copy:
        par = cur.parent
        if isinstance(par, N.BinaryOperation) and par.operator == N.BinaryOperation.Operator.MUL:
            pass
        elif isinstance(par, N.UnaryOperation) and par.operator in (N.UnaryOperation.Operator.MINUS,
                                                                    N.UnaryOperation.Operator.PLUS):
            pass
        elif (isinstance(par, N.BinaryOperation) and par.operator == N.BinaryOperation.Operator.DIV
              and par.children[0] is cur):
            raise OutsideModel("division by a passive expression")
        else:
            raise NotLinear("active variable below " + type(par).__name__)
        cur = par
    aref = _aref(ref, names)
    if ref is copy:
        coef = ["lit", 1]
    else:
        ref.replace_with(N.Literal("1", INTEGER_TYPE))
        coef = minif.export_expr(copy, names)
    return [1 if neg else 0, coef, aref]


def lin_routine(children, active, names, locals_=()):
    """Top level of a routine: returns (prelude, form, interleaved).  `prelude` = the leading passive scalar
    assignments (MiniF), whose values are needed to evaluate the model's read-only-passive-store operations;
    `interleaved` = there are passive statements elsewhere (then those operations are not meaningful)."""
    children = list(children)
    k = 0
    while k < len(children) and _is_passive_stmt(children[k], active) and _is_scalar_passign(children[k]):
        k += 1
    prelude = [minif.export_stmt(c, names) for c in children[:k]]
    interleaved = any(_is_passive_stmt(d, active) and d.walk(_assignment_cls())
                      for c in children[k:] for d in c.walk(_stmt_classes()))
    return prelude, lin_stmt(children, active, names), interleaved


def _assignment_cls():
    from psyclone.psyir import nodes as N
    return N.Assignment


def _stmt_classes():
    from psyclone.psyir import nodes as N
    return (N.Assignment, N.IfBlock, N.Loop)


def _is_scalar_passign(node):
    from psyclone.psyir import nodes as N
    return isinstance(node, N.Assignment) and type(node.lhs) is N.Reference


SEC_EV = "sec__ev"


def _section_element_statement(node):
    """array-section assignment -> (element count n, element statement): every section subscript
    `lo:hi:st` becomes `lo + E*st` where E is the element counter `sec__ev` (one section dimension) or
    MOD(sec__ev, n1) / sec__ev / n1 (two section dimensions, first one fastest)"""
    from psyclone.psyir import nodes as N
    from psyclone.psyir.symbols import DataSymbol, INTEGER_TYPE
    lsec = _sections(node.lhs)
    counts = [c for _, _, _, c in lsec]
    if not 1 <= len(counts) <= 2:
        raise OutsideModel("array assignment with %d section dimensions" % len(counts))
    ev = DataSymbol(SEC_EV, INTEGER_TYPE)

    def counter(k):
        if len(counts) == 1:
            return N.Reference(ev)
        n1 = N.Literal(str(counts[0]), INTEGER_TYPE)
        if k == 0:
            return N.IntrinsicCall.create(N.IntrinsicCall.Intrinsic.MOD, [N.Reference(ev), n1])
        return N.BinaryOperation.create(N.BinaryOperation.Operator.DIV, N.Reference(ev), n1)
    copy = node.copy()
    for ref in [r for r in copy.walk(N.ArrayReference) if any(isinstance(i, N.Range) for i in r.indices)]:
        sec = _sections(ref)
        if [c for _, _, _, c in sec] != counts:
            raise OutsideModel("non-conformable sections")
        for k, (pos, lo, st, _) in enumerate(sec):
            ref.children[pos].replace_with(N.BinaryOperation.create(
                N.BinaryOperation.Operator.ADD, N.Literal(str(lo), INTEGER_TYPE),
                N.BinaryOperation.create(N.BinaryOperation.Operator.MUL, counter(k), N.Literal(str(st), INTEGER_TYPE))))
    n = 1
    for c in counts:
        n *= c
    return n, copy


def lin_stmt(node, active, names):
    """PSyIR -> linear form (nested lists) of Model/AD.lean; blocks are ["seqs", ...]."""
    from psyclone.psyir import nodes as N
    if isinstance(node, (list, N.Schedule)):
        return ["seqs"] + [lin_stmt(c, active, names) for c in (node.children if isinstance(node, N.Schedule) else node)]
    if isinstance(node, N.Assignment):
        if node.lhs.symbol.name.lower() not in active:
            if type(node.lhs) is not N.Reference:
                raise OutsideModel("assignment to a passive array element")
            return ["pas", names.id(node.lhs.name), minif.export_expr(node.rhs, names)]
        if node.walk(N.Range):
            try:
                n, elem = _section_element_statement(node)
            except Unsupported as e:
                raise OutsideModel(str(e))
            f = lin_stmt(elem, active, names)
            return ["sec", names.id(SEC_EV), ["lit", n], f[1], f[2]]
        lhs = _aref(node.lhs, names)
        parts = _split(node.rhs, False)
        if len(parts) == 1 and isinstance(parts[0][0], N.Literal) and float(parts[0][0].value.replace("d", "e").split("_")[0]) == 0.0:
            return ["asg", lhs, []]
        return ["asg", lhs, [_term(t, neg, active, names) for t, neg in parts]]
    if isinstance(node, N.IfBlock):
        els = lin_stmt(node.else_body, active, names) if node.else_body is not None else ["seqs"]
        return ["ite", minif.export_expr(node.condition, names), lin_stmt(node.if_body, active, names), els]
    if isinstance(node, N.Loop):
        return ["loop", names.id(node.variable.name), minif.export_expr(node.start_expr, names),
                minif.export_expr(node.stop_expr, names), minif.export_expr(node.step_expr, names),
                lin_stmt(node.loop_body, active, names)]
    raise OutsideModel(type(node).__name__)


# ---------------------------------------------------------------------------------------------
# MiniF export with array-section assignments expanded into elementwise statements
def _const(node):
    """integer value of a section bound: literals, +,-,*, unary minus, LBOUND/UBOUND of a declared literal bound"""
    from psyclone.psyir import nodes as N
    from psyclone.psyir.symbols import ArrayType
    if isinstance(node, N.Literal):
        return int(node.value)
    if isinstance(node, N.UnaryOperation) and node.operator == N.UnaryOperation.Operator.MINUS:
        return -_const(node.children[0])
    if isinstance(node, N.BinaryOperation) and node.operator.name in ("ADD", "SUB", "MUL"):
        a, b = _const(node.children[0]), _const(node.children[1])
        return {"ADD": a + b, "SUB": a - b, "MUL": a * b}[node.operator.name]
    if isinstance(node, N.IntrinsicCall) and node.intrinsic.name in ("LBOUND", "UBOUND"):
        sym = node.arguments[0].symbol
        dim = _const(node.arguments[1]) - 1
        shape = sym.datatype.shape[dim]
        if isinstance(shape, ArrayType.ArrayBounds):
            return _const(shape.lower if node.intrinsic.name == "LBOUND" else shape.upper)
    raise Unsupported("section bound is not a compile-time constant: " + node.debug_string())


def _sections(ref):
    """[(position, start, step, count)] of the Range subscripts of an array reference"""
    from psyclone.psyir import nodes as N
    out = []
    for pos, idx in enumerate(ref.indices):
        if isinstance(idx, N.Range):
            lo, hi, st = _const(idx.start), _const(idx.stop), _const(idx.step)
            if st == 0:
                raise Unsupported("zero stride")
            out.append((pos, lo, st, max(0, (hi - lo + st) // st) if st > 0 else max(0, (lo - hi - st) // (-st))))
    return out


def _expand_section_assignment(node, names):
    """Fortran array assignment: every element of the RHS is evaluated before any element is stored.
    Exported as  tmp(e) = rhs_e  for all e, then  lhs_e = tmp(e)  for all e."""
    import itertools
    from psyclone.psyir import nodes as N
    from psyclone.psyir.symbols import INTEGER_TYPE
    lsec = _sections(node.lhs)
    counts = [c for _, _, _, c in lsec]
    if not 1 <= len(counts) <= 2:
        raise Unsupported("array assignment with %d section dimensions" % len(counts))
    tmp = names.id("sec__tmp")
    first, second = [], []
    for e in itertools.product(*[range(c) for c in counts]):
        copy = node.copy()
        for ref in [r for r in copy.walk(N.ArrayReference) if any(isinstance(i, N.Range) for i in r.indices)]:
            sec = _sections(ref)
            if [c for _, _, _, c in sec] != counts:
                raise Unsupported("non-conformable sections in " + node.debug_string())
            for (pos, lo, st, _), ek in zip(sec, e):
                ref.children[pos].replace_with(N.Literal(str(lo + ek * st), INTEGER_TYPE))
        if any(isinstance(r, N.Range) for r in copy.walk(N.Range)):
            raise Unsupported("section outside an array reference")
        te = [["lit", x] for x in e] + ([["lit", 0]] if len(e) == 1 else [])
        first.append(["store2", tmp, te[0], te[1], minif.export_expr(copy.rhs, names)])
        lhs = minif.export_stmt(N.Assignment.create(copy.lhs.copy(), N.Literal("0", INTEGER_TYPE)), names)
        second.append(lhs[:-1] + [["idx2", tmp, te[0], te[1]]])
    return ["seqs"] + first + second


def folded(routine):
    """copy of a routine with LBOUND/UBOUND of declared constant bounds replaced by literals (array
    notation lowered by preprocess_trans produces `do idx = LBOUND(a,1), UBOUND(a,1)`; PSyAD itself
    ignores active arrays inside LBOUND/UBOUND)"""
    from psyclone.psyir import nodes as N
    from psyclone.psyir.symbols import INTEGER_TYPE
    work = routine.copy()
    for call in work.walk(N.IntrinsicCall):
        if call.intrinsic.name in ("LBOUND", "UBOUND") and call.parent is not None:
            try:
                call.replace_with(N.Literal(str(_const(call)), INTEGER_TYPE))
            except (Unsupported, ValueError, AttributeError, IndexError, TypeError):
                pass
    return work


def export_routine(routine, names):
    """MiniF export of a routine body (bounds folded, array sections expanded)"""
    return export_x(list(folded(routine).children), names)


def _export_with_return(stmts, names, cont):
    """RETURN (outside loops) has no MiniF counterpart: it is eliminated while exporting.  `cont` = the
    (already exported) statements that run after `stmts` when control falls through.  A RETURN drops the rest
    of the list and the continuation; an IF that contains a RETURN receives the continuation in both branches:
        [if (c) then A else B end if; REST] ; cont   ==>   ite c (A ; REST ; cont) (B ; REST ; cont)
    with the same rule applied inside A and B."""
    from psyclone.psyir import nodes as N
    out = []
    for pos, c in enumerate(stmts):
        if isinstance(c, N.Return):
            return out
        if c.walk(N.Return):
            if not isinstance(c, N.IfBlock):
                raise Unsupported("RETURN inside " + type(c).__name__)
            rest = _export_with_return(stmts[pos + 1:], names, cont)
            els = list(c.else_body.children) if c.else_body is not None else []
            out.append(["ite", minif.export_expr(c.condition, names),
                        ["seqs"] + _export_with_return(list(c.if_body.children), names, rest),
                        ["seqs"] + _export_with_return(els, names, rest)])
            return out
        out.append(export_x(c, names))
    return out + cont


def export_x(node, names):
    """minif.export_stmt plus array-section assignments (constant section bounds)"""
    from psyclone.psyir import nodes as N
    if isinstance(node, (list, tuple)):
        if any(c.walk(N.Return) for c in node):
            return ["seqs"] + _export_with_return(list(node), names, [])
        return ["seqs"] + [export_x(c, names) for c in node]
    if isinstance(node, N.Schedule):
        return export_x(list(node.children), names)
    if isinstance(node, N.Loop) and node.walk(N.Return):
        raise Unsupported("RETURN inside a loop")
    if isinstance(node, N.Assignment) and node.walk(N.Range):
        return _expand_section_assignment(node, names)
    if isinstance(node, N.IfBlock):
        els = export_x(node.else_body, names) if node.else_body is not None else ["skip"]
        return ["ite", minif.export_expr(node.condition, names), export_x(node.if_body, names), els]
    if isinstance(node, N.Loop):
        return ["loop", names.id(node.variable.name), minif.export_expr(node.start_expr, names),
                minif.export_expr(node.stop_expr, names), minif.export_expr(node.step_expr, names),
                export_x(node.loop_body, names)]
    return minif.export_stmt(node, names)


class Result:
    pass


def pipeline(src, active, want_test=False, use_api=True, extra_refusals=()):
    """Run the real code.  Result fields: status 'ok'|'refused'|'crashed', exc, names, tl_minif,
    tlpp_minif, ad_minif, tl_form/ad_form (or None with form_why), ad_str, api_matches, test_str.
    `use_api=False` skips the (duplicate) call of generate_adjoint_str and only replays its steps."""
    from psyclone.psyir.frontend.fortran import FortranReader
    from psyclone.psyir.backend.fortran import FortranWriter
    from psyclone.psyir.nodes import Routine
    from psyclone.psyad.tl2ad import generate_adjoint, generate_adjoint_str
    from psyclone.psyad.transformations.preprocess import preprocess_trans
    from psyclone.psyad.transformations import TangentLinearError
    from psyclone.psyir.backend.visitor import VisitorError
    refusals = (TangentLinearError, VisitorError, NotImplementedError) + tuple(extra_refusals)
    res = Result()
    res.names = minif.Names()
    active = [a.lower() for a in active]
    res.exc = res.tl_form = res.ad_form = res.form_why = res.ad_str = res.test_str = None
    res.tl_minif = res.tlpp_minif = res.ad_minif = None
    res.prelude = []
    res.interleaved = False
    res.api_matches = True
    res.status = "ok"
    use_api = use_api or want_test
    # the original routine (before preprocessing) as MiniF
    orig = FortranReader().psyir_from_source(src)
    try:
        res.tl_minif = export_routine(orig.walk(Routine)[0], res.names)
    except Unsupported as e:
        res.form_why = "Unsupported: " + str(e)
    if use_api:
        try:
            res.ad_str, res.test_str = generate_adjoint_str(src, active, create_test=want_test)
        except refusals as e:
            res.status, res.exc = "refused", type(e).__name__ + ": " + str(e)[:200]
        except Exception as e:      # noqa  (crash of the real code: reported by the caller)
            res.status, res.exc = "crashed", type(e).__name__ + ": " + str(e)[:200]
    # the same steps as generate_adjoint_str, keeping the PSyIR
    tl = FortranReader().psyir_from_source(src)
    try:
        preprocess_trans(tl, active)
        tl_routine = tl.walk(Routine)[0]
        try:
            res.tlpp_minif = export_routine(tl_routine, res.names)
            res.prelude, res.tl_form, res.interleaved = lin_routine(folded(tl_routine).children, active, res.names)
        except (NotLinear, OutsideModel, Unsupported) as e:
            res.form_why = type(e).__name__ + ": " + str(e)
        if res.status != "ok":
            return res
        ad = generate_adjoint(tl, active)
    except refusals as e:
        if use_api:
            res.status, res.exc = "crashed", "steps refuse but the API did not: " + str(e)[:200]
        else:
            res.status, res.exc = "refused", type(e).__name__ + ": " + str(e)[:200]
        return res
    except Exception as e:      # noqa
        res.status, res.exc = "crashed", type(e).__name__ + ": " + str(e)[:200]
        return res
    try:
        written = FortranWriter()(ad)
    except refusals as e:
        # generate_adjoint_str writes the adjoint as its last step: a failing writer is its refusal too
        if use_api:
            res.status, res.exc = "crashed", "writer refuses but the API did not: " + str(e)[:200]
        else:
            res.status, res.exc = "refused", type(e).__name__ + ": " + str(e)[:200]
        return res
    if use_api:
        res.api_matches = (written == res.ad_str)
    else:
        res.ad_str = written
    ad_routine = ad.walk(Routine)[0]
    _replace_codeblocks(ad_routine)
    try:
        res.ad_minif = export_routine(ad_routine, res.names)
    except Unsupported as e:
        # a limit of the exporter, not of PSyAD: the caller counts the kernel as unexportable
        res.ad_minif, res.form_why = None, "adjoint not exportable: " + str(e)
        return res
    if res.tl_form is not None:
        try:
            _, res.ad_form, _ = lin_routine(folded(ad_routine).children, active, res.names)
        except (NotLinear, OutsideModel, Unsupported) as e:
            res.ad_form, res.form_why = None, "adjoint: " + type(e).__name__ + ": " + str(e)
    return res


def bindings(kern, names, active_vals=None):
    """passive values (and optionally active values) as MiniF bindings"""
    out = []
    for name, v in kern.passive_vals.items():
        if isinstance(v, dict):
            out += [((names.id(name), i), x) for i, x in v.items()]
        else:
            out.append(((names.id(name),), v))
    for loc, v in (active_vals or {}).items():
        out.append((loc, v))
    return out


def active_locs(kern, names, a_lo, a_hi, m_lo, m_hi):
    import itertools
    dims = getattr(kern, "dims", None)
    if dims:
        locs = []
        for name in kern.scalars + kern.arrays1 + kern.arrays2:
            rs = [range(lo, hi + 1) for lo, hi in dims.get(name, [])]
            locs += [(names.id(name),) + t for t in itertools.product(*rs)]
        return locs
    locs = [(names.id(s),) for s in kern.scalars]
    for a in kern.arrays1:
        locs += [(names.id(a), i) for i in range(a_lo, a_hi + 1)]
    for m in kern.arrays2:
        locs += [(names.id(m), i, j) for i in range(m_lo, m_hi + 1) for j in range(m_lo, m_hi + 1)]
    return locs


def compile_and_run_harness(tl_src, ad_src, test_src):
    """gfortran: TL module + adjoint module + generated harness.  Returns (status, output)."""
    import os
    import shutil
    import subprocess
    import tempfile
    import common
    if shutil.which("gfortran") is None:
        raise common.Infra("gfortran not available")
    d = tempfile.mkdtemp(prefix="psyverif-c19-")
    try:
        for fn, txt in (("tl.f90", tl_src), ("ad.f90", ad_src), ("harness.f90", test_src)):
            with open(os.path.join(d, fn), "w") as f:
                f.write(txt)
        p = subprocess.run(["gfortran", "-O0", "-fcheck=bounds", "tl.f90", "ad.f90", "harness.f90", "-o", "h.x"], cwd=d,
                           stdout=subprocess.PIPE, stderr=subprocess.STDOUT, text=True, timeout=120)
        if p.returncode != 0:
            return "compile-error", p.stdout[-1500:]
        try:
            q = subprocess.run(["./h.x"], cwd=d, stdout=subprocess.PIPE, stderr=subprocess.STDOUT, text=True, timeout=60)
        except subprocess.TimeoutExpired:
            return "timeout", ""
        if q.returncode != 0:
            return "run-error", q.stdout[-800:]
        return ("passed" if "PASSED" in q.stdout else "failed"), q.stdout.strip()
    finally:
        shutil.rmtree(d, ignore_errors=True)
