"""C21 helpers: metadata specs (JSON-able dicts), a seeded generator of mostly-valid LFRic kernel
metadata, and synthesis of the kernel-metadata module and of an algorithm file that invokes it
with suitably typed arguments.

A spec is
  {"name": kernel base name, "operates_on": "cell_column"|"domain"|"dof",
   "args": [arg...], "funcs": [{"fs","basis","diff","diff_first"}], "shapes": [shape...], "targets": [fs...],
   "refelem": [prop...], "mesh": [prop...]}
  arg = {"k":"field","dt":"real"|"integer","vec":n,"acc":A,"fs":F,"st":S,"mesh":"none"|"coarse"|"fine"}
      | {"k":"op","acc":A,"to":F,"from":F} | {"k":"cma","acc":A,"to":F,"from":F}
      | {"k":"scalar","dt":"real"|"integer"|"logical","acc":"read"}
"""

FS = (["w0", "w1", "w2", "w2v", "w2h", "w2broken", "w2trace", "w2vtrace", "w2htrace", "w3", "wtheta",
       "wchi", "any_w2"]
      + [f"any_space_{i}" for i in range(1, 11)]                    # ids 13..22 (model: anySpaceBase = 13)
      + [f"any_discontinuous_space_{i}" for i in range(1, 11)])     # ids 23..32
DISC = {"w3", "wtheta", "w2v", "w2vtrace", "w2broken"} | {f"any_discontinuous_space_{i}" for i in range(1, 11)}
# pairs (a, b) of distinct space names where a is a substring of b: a comparison by `in`, `startswith`
# or a regex prefix instead of equality confuses exactly these
CONFUSABLE = [(a, b) for a in FS for b in FS if a != b and a in b]
READ_ONLY = {"wchi"}
ACCESS = ["read", "write", "readwrite", "inc", "readinc", "sum"]
STENCILS = ["none", "x1d", "y1d", "xory1d", "cross", "region", "cross2d"]
SHAPES = ["xyoz", "face", "edge", "evaluator"]
GH_SHAPE = {"xyoz": "gh_quadrature_xyoz", "face": "gh_quadrature_face", "edge": "gh_quadrature_edge",
            "evaluator": "gh_evaluator"}
REFPROPS = ["normals_to_horizontal_faces", "normals_to_vertical_faces", "normals_to_faces",
            "outward_normals_to_horizontal_faces", "outward_normals_to_vertical_faces",
            "outward_normals_to_faces"]
MESHPROPS = ["adjacent_face"]
DTYPES = ["real", "integer", "logical"]
OPERATES = ["cell_column", "domain", "dof"]
MESHARG = ["none", "coarse", "fine"]
BC_NAMES = ["enforce_bc", "enforce_operator_bc"]


def fs_id(name):
    return FS.index(name)


# ---------------------------------------------------------------------------------------------
# source synthesis
def _arg_meta(a):
    if a["k"] == "field":
        t = "gh_field" + (f"*{a['vec']}" if a["vec"] > 1 else "")
        s = f"arg_type({t}, gh_{a['dt']}, gh_{a['acc']}, {a['fs']}"
        if a["st"] != "none":
            s += f", stencil({a['st']})"
        if a["mesh"] != "none":
            s += f", mesh_arg=gh_{a['mesh']}"
        return s + ")"
    if a["k"] == "op":
        return f"arg_type(gh_operator, gh_real, gh_{a['acc']}, {a['to']}, {a['from']})"
    if a["k"] == "cma":
        return f"arg_type(gh_columnwise_operator, gh_real, gh_{a['acc']}, {a['to']}, {a['from']})"
    return f"arg_type(gh_scalar, gh_{a['dt']}, gh_{a['acc']})"


def _array(decl_type, name, items):
    n = len(items)
    body = ", &\n          ".join(items)
    return f"     type({decl_type}), dimension({n}) :: {name} = &\n       (/ {body} /)\n"


def kernel_source(md):
    n = md["name"]
    out = [f"module {n}_mod\n  use argument_mod\n  use fs_continuity_mod\n  use kernel_mod\n"
           f"  use constants_mod\n  implicit none\n  type, extends(kernel_type) :: {n}_type\n"]
    out.append(_array("arg_type", "meta_args", [_arg_meta(a) for a in md["args"]]))
    if md["funcs"]:
        items = []
        for f in md["funcs"]:
            ops = [x for x, on in (("gh_basis", f["basis"]), ("gh_diff_basis", f["diff"])) if on]
            if f.get("diff_first"):
                ops.reverse()
            items.append(f"func_type({f['fs']}, {', '.join(ops)})")
        out.append(_array("func_type", "meta_funcs", items))
    if md["refelem"]:
        out.append(_array("reference_element_data_type", "meta_reference_element",
                          [f"reference_element_data_type({p})" for p in md["refelem"]]))
    if md["mesh"]:
        out.append(_array("mesh_data_type", "meta_mesh", [f"mesh_data_type({p})" for p in md["mesh"]]))
    out.append(f"     integer :: operates_on = {md['operates_on']}\n")
    if len(md["shapes"]) == 1:
        out.append(f"     integer :: gh_shape = {GH_SHAPE[md['shapes'][0]]}\n")
    elif md["shapes"]:
        out.append(f"     integer :: gh_shape({len(md['shapes'])}) = (/ "
                   + ", ".join(GH_SHAPE[s] for s in md["shapes"]) + " /)\n")
    if md["targets"]:
        out.append(f"     integer :: gh_evaluator_targets({len(md['targets'])}) = (/ "
                   + ", ".join(md["targets"]) + " /)\n")
    out.append(f"   contains\n     procedure, nopass :: code => {n}_code\n  end type {n}_type\n"
               f"contains\n  subroutine {n}_code()\n  end subroutine {n}_code\nend module {n}_mod\n")
    return "".join(out)


def alg_source(md):
    """An algorithm program invoking the kernel once, every argument a plain variable of the
    type/precision the stub generator assumes (field_type = r_def, integer_field_type, operator_type,
    columnwise_operator_type = r_solver, real(r_def)/integer(i_def)/logical(l_def) scalars)."""
    n = md["name"]
    decls, actuals = [], []
    for i, a in enumerate(md["args"], 1):
        if a["k"] == "field":
            t = "field_type" if a["dt"] == "real" else "integer_field_type"
            v = f"f{i}"
            decls.append(f"  type({t}) :: {v}" + (f"({a['vec']})" if a["vec"] > 1 else ""))
            actuals.append(v)
            if a["st"] != "none":
                decls.append(f"  integer(i_def) :: {v}_extent")
                actuals.append(f"{v}_extent")
                if a["st"] == "xory1d":
                    decls.append(f"  integer(i_def) :: {v}_dirn")
                    actuals.append(f"{v}_dirn")
        elif a["k"] == "op":
            decls.append(f"  type(operator_type) :: op{i}")
            actuals.append(f"op{i}")
        elif a["k"] == "cma":
            decls.append(f"  type(columnwise_operator_type) :: cma{i}")
            actuals.append(f"cma{i}")
        else:
            t = {"real": "real(r_def)", "integer": "integer(i_def)", "logical": "logical(l_def)"}[a["dt"]]
            decls.append(f"  {t} :: s{i}")
            actuals.append(f"s{i}")
    if md["funcs"]:
        for s in md["shapes"]:
            if s != "evaluator":
                decls.append(f"  type(quadrature_{s}_type) :: qr_{s}")
                actuals.append(f"qr_{s}")
    uses = ["  use constants_mod, only: r_def, i_def, l_def",
            "  use field_mod, only: field_type",
            "  use integer_field_mod, only: integer_field_type",
            "  use operator_mod, only: operator_type",
            "  use columnwise_operator_mod, only: columnwise_operator_type",
            "  use quadrature_xyoz_mod, only: quadrature_xyoz_type",
            "  use quadrature_face_mod, only: quadrature_face_type",
            "  use quadrature_edge_mod, only: quadrature_edge_type",
            f"  use {n}_mod, only: {n}_type"]
    return ("program alg\n" + "\n".join(uses) + "\n  implicit none\n" + "\n".join(decls)
            + f"\n  call invoke({n}_type({', '.join(actuals)}))\nend program alg\n")


# ---------------------------------------------------------------------------------------------
# generator
def _field(rng, fs, acc, dt="real", vec=1, st="none", mesh="none"):
    return {"k": "field", "dt": dt, "vec": vec, "acc": acc, "fs": fs, "st": st, "mesh": mesh}


def _write_acc(rng, fs):
    if fs in DISC:
        return rng.choice(["write", "readwrite", "readwrite"])
    return rng.choice(["inc", "inc", "readinc", "write"])


def _pick_fs(rng, pool=None, writable=False):
    pool = list(pool or FS)
    if writable:
        pool = [f for f in pool if f not in READ_ONLY] or ["w2"]
    return rng.choice(pool)


def _scalar(rng):
    return {"k": "scalar", "dt": rng.choice(DTYPES), "acc": "read"}


def _basis_parts(rng, md, p=0.6):
    """meta_funcs / gh_shape / targets / reference element / mesh for a general-purpose kernel."""
    spaces = []
    for a in md["args"]:
        for key in ("fs", "to", "from"):
            if key in a and a[key] not in spaces:
                spaces.append(a[key])
    if spaces and rng.random() < p:
        k = rng.randint(1, min(3, len(spaces)))
        concrete = [f for f in spaces if not f.startswith("any_") or f == "any_w2"]
        if concrete and rng.random() < 0.9:
            spaces_f = concrete
        else:
            spaces_f = spaces
        chosen = rng.sample(spaces_f, min(k, len(spaces_f)))
        for fs in chosen:
            b, d = rng.choice([(True, False), (False, True), (True, True)])
            md["funcs"].append({"fs": fs, "basis": b, "diff": d,
                                "diff_first": b and d and rng.random() < 0.3})
        nshape = rng.choice([1, 1, 2, 2, 3])
        md["shapes"] = rng.sample(SHAPES, nshape)
        if "evaluator" in md["shapes"] and rng.random() < 0.5:
            md["targets"] = rng.sample(spaces, rng.randint(1, min(2, len(spaces))))
    if rng.random() < 0.35:
        md["refelem"] = [rng.choice(REFPROPS) for _ in range(rng.randint(1, 3))]
    if rng.random() < 0.3:
        md["mesh"] = ["adjacent_face"]


def gen_general(rng):
    md = blank("kg")
    nargs = rng.randint(1, 6)
    has_op = rng.random() < 0.4
    pool = rng.sample(FS, rng.randint(1, 4))
    if rng.random() < 0.3:
        pool = list(dict.fromkeys(pool[:2] + list(rng.choice(CONFUSABLE))))
    for i in range(nargs):
        r = rng.random()
        if r < 0.15:
            md["args"].append(_scalar(rng))
        elif r < 0.35 and has_op:
            md["args"].append({"k": "op", "acc": rng.choice(["read", "write", "readwrite"]),
                               "to": _pick_fs(rng, pool), "from": _pick_fs(rng, pool)})
        else:
            fs = _pick_fs(rng, pool)
            dt = "real" if has_op or rng.random() < 0.8 else "integer"
            vec = rng.choice([1, 1, 1, 2, 3])
            if rng.random() < 0.4 or fs in READ_ONLY:
                st = rng.choice(STENCILS) if rng.random() < 0.6 else "none"
                md["args"].append(_field(rng, fs, "read", dt, vec, st))
            else:
                md["args"].append(_field(rng, fs, _write_acc(rng, fs), dt, vec))
    if not any(a["acc"] != "read" for a in md["args"]):
        fs = _pick_fs(rng, pool, writable=True)
        md["args"].insert(rng.randint(0, len(md["args"])), _field(rng, fs, _write_acc(rng, fs)))
    _basis_parts(rng, md)
    return md


def gen_cma(rng):
    md = blank("kc")
    kind = rng.choice(["assembly", "apply", "matrix-matrix"])
    to, frm = _pick_fs(rng, writable=True), _pick_fs(rng)
    r = rng.random()
    if r < 0.25:
        frm = to
    elif r < 0.6:
        to, frm = rng.choice(CONFUSABLE)
        if rng.random() < 0.5:
            to, frm = frm, to
    if kind == "assembly":
        args = [{"k": "cma", "acc": rng.choice(["write", "readwrite"]), "to": to, "from": frm},
                {"k": "op", "acc": "read", "to": to, "from": frm}]
        for _ in range(rng.randint(0, 2)):
            r = rng.random()
            if r < 0.4:
                args.append(_field(rng, _pick_fs(rng, [to, frm, "w3"]), "read"))
            elif r < 0.7:
                args.append(_scalar(rng))
            else:
                args.append({"k": "op", "acc": "read", "to": _pick_fs(rng), "from": _pick_fs(rng)})
        rng.shuffle(args)
        md["args"] = args
        if rng.random() < 0.3:
            _basis_parts(rng, md, p=0.8)
            md["mesh"] = []     # CMA kernel + meta_mesh crashes both real generators (see c21.py)
    elif kind == "apply":
        args = [_field(rng, to, _write_acc(rng, to)), _field(rng, frm, "read"),
                {"k": "cma", "acc": "read", "to": to, "from": frm}]
        rng.shuffle(args)
        md["args"] = args
    else:
        args = [{"k": "cma", "acc": rng.choice(["write", "readwrite"]), "to": to, "from": frm}]
        for _ in range(rng.randint(1, 3)):
            if rng.random() < 0.7:
                a, b = _pick_fs(rng), _pick_fs(rng)
                if rng.random() < 0.3:
                    b = a
                args.append({"k": "cma", "acc": "read", "to": a, "from": b})
            else:
                args.append(_scalar(rng))
        rng.shuffle(args)
        md["args"] = args
    return md


def gen_intergrid(rng):
    md = blank("ki")
    fine_fs, coarse_fs = rng.sample(FS, 2)
    prolong = rng.random() < 0.5
    # prolongation writes the fine field, restriction writes the coarse one
    wfs, rfs = (fine_fs, coarse_fs) if prolong else (coarse_fs, fine_fs)
    wmesh, rmesh = ("fine", "coarse") if prolong else ("coarse", "fine")
    if wfs in READ_ONLY:
        wfs = "w2"
        if rfs == "w2":
            rfs = "w1"
    args = [_field(rng, wfs, _write_acc(rng, wfs), vec=rng.choice([1, 1, 3]), mesh=wmesh),
            _field(rng, rfs, "read", vec=rng.choice([1, 1, 3]), mesh=rmesh)]
    for _ in range(rng.randint(0, 2)):
        if rng.random() < 0.5:
            args.append(_field(rng, wfs, "read", mesh=wmesh))
        else:
            args.append(_field(rng, rfs, "read", mesh=rmesh))
    rng.shuffle(args)
    md["args"] = args
    return md


def gen_domain(rng, operates="domain"):
    md = blank("kd" if operates == "domain" else "kf")
    md["operates_on"] = operates
    pool = rng.sample(sorted(DISC), rng.randint(1, 2)) if rng.random() < 0.8 else rng.sample(FS, 2)
    n = rng.randint(1, 4)
    for _ in range(n):
        if rng.random() < 0.25:
            md["args"].append(_scalar(rng))
        else:
            fs = _pick_fs(rng, pool)
            acc = "read" if rng.random() < 0.4 or fs in READ_ONLY else _write_acc(rng, fs)
            md["args"].append(_field(rng, fs, acc, rng.choice(["real", "real", "integer"]),
                                     rng.choice([1, 1, 2])))
    if not any(a["acc"] != "read" for a in md["args"]):
        fs = _pick_fs(rng, pool, writable=True)
        md["args"].insert(0, _field(rng, fs, _write_acc(rng, fs)))
    return md


def gen_bc(rng):
    if rng.random() < 0.5:
        md = blank("enforce_bc")
        md["args"] = [_field(rng, "any_space_1", "inc")]
        if rng.random() < 0.4:
            md["args"].append(_field(rng, rng.choice(["w3", "w1"]), "read"))
    else:
        md = blank("enforce_operator_bc")
        a, b = _pick_fs(rng), _pick_fs(rng)
        md["args"] = [{"k": "op", "acc": "readwrite", "to": a, "from": b}]
    return md


def blank(name):
    return {"name": name, "operates_on": "cell_column", "args": [], "funcs": [], "shapes": [],
            "targets": [], "refelem": [], "mesh": []}


def gen_valid(rng):
    r = rng.random()
    if r < 0.55:
        return gen_general(rng)
    if r < 0.72:
        return gen_cma(rng)
    if r < 0.82:
        return gen_intergrid(rng)
    if r < 0.90:
        return gen_domain(rng)
    if r < 0.94:
        return gen_domain(rng, "dof")
    return gen_bc(rng)


def gen_malformed(rng):
    """Mostly invalid variations: the real metadata parser is expected to refuse most of these;
    the check only records refusals (and still checks the property when one is accepted)."""
    md = gen_valid(rng)
    r = rng.random()
    if r < 0.25 and md["args"]:
        a = rng.choice(md["args"])
        a["acc"] = rng.choice(ACCESS)
    elif r < 0.45:
        md["operates_on"] = rng.choice(OPERATES)
    elif r < 0.6:
        md["shapes"] = [rng.choice(SHAPES) for _ in range(rng.randint(1, 3))]
    elif r < 0.75:
        md["args"].append({"k": "cma", "acc": "read", "to": "w1", "from": "w2"})
    elif r < 0.9:
        fields = [a for a in md["args"] if a["k"] == "field"]
        if fields:
            rng.choice(fields)["st"] = rng.choice(STENCILS)
            rng.choice(fields)["mesh"] = rng.choice(MESHARG)
    else:
        md["funcs"].append({"fs": rng.choice(FS), "basis": True, "diff": False})
    return md


def systematic_family():
    """Mesh property x reference-element property subsets, run first in every run: each of the six
    (outward) normals properties alone and every unordered pair, with and without adjacent_face, plus
    adjacent_face alone; on a minimal kernel (scalar + one field)."""
    import itertools
    subsets = [[p] for p in REFPROPS] + [list(c) for c in itertools.combinations(REFPROPS, 2)]
    out = []
    for mesh in (["adjacent_face"], []):
        for i, ps in enumerate([[]] + subsets if mesh else subsets):
            md = blank("ks")
            md["args"] = [{"k": "scalar", "dt": "real", "acc": "read"},
                          {"k": "field", "dt": "real", "vec": 1, "acc": "inc", "fs": "w1", "st": "none",
                           "mesh": "none"}]
            # pairs are given in both orders across the two mesh settings
            md["refelem"] = list(reversed(ps)) if (not mesh and len(ps) == 2) else list(ps)
            md["mesh"] = list(mesh)
            out.append(md)
    return out


def _cma_kernel(kind, to, frm, i):
    md = blank(f"kq{i}")
    rng = None
    wacc = "readwrite" if to in DISC else "inc"
    if kind == "assembly":
        md["args"] = [{"k": "cma", "acc": "write", "to": to, "from": frm},
                      {"k": "op", "acc": "read", "to": to, "from": frm}]
        if i % 2:
            md["args"].reverse()     # LMA operator first: inside the scope of C21_doc_cma_assembly
    elif kind == "apply":
        md["args"] = [_field(rng, to, wacc), _field(rng, frm, "read"),
                      {"k": "cma", "acc": "read", "to": to, "from": frm}]
    else:
        md["args"] = [{"k": "cma", "acc": "write", "to": to, "from": frm},
                      {"k": "cma", "acc": "read", "to": frm, "from": to},
                      {"k": "scalar", "dt": "real", "acc": "read"}]
    return md


def cma_family():
    """to/from pairs x {assembly, apply, matrix-matrix}, run first in every run: every pair of distinct
    space names where one is a substring of the other, in both directions, plus an equal and an
    unrelated pair."""
    pairs = []
    for a, b in CONFUSABLE:
        pairs += [(a, b), (b, a)]
    pairs += [("w2", "w2"), ("any_space_1", "any_space_1"), ("w0", "w3"), ("any_space_2", "any_discontinuous_space_2")]
    out = []
    for i, (to, frm) in enumerate(pairs):
        for kind in ("assembly", "apply", "matrix-matrix"):
            out.append(_cma_kernel(kind, to, frm, len(out)))
    return out


def confusable_family():
    """General-purpose kernels whose arguments live on confusable space names (unique_fss, ndf/undf/dofmap,
    basis and diff-basis names, evaluator targets, the any_space_1 test of the boundary-condition kernel)."""
    out = []
    for n, (a, b) in enumerate(CONFUSABLE):
        first, second = (a, b) if n % 2 == 0 else (b, a)
        md = blank(f"kn{n}")
        md["args"] = [_field(None, first, "readwrite" if first in DISC else "inc"),
                      _field(None, second, "read", vec=2),
                      {"k": "op", "acc": "read", "to": second, "from": first},
                      _field(None, first, "read", st="cross")]
        concrete = [f for f in (second, first) if not f.startswith("any_") or f == "any_w2"]
        md["funcs"] = [{"fs": f, "basis": True, "diff": True, "diff_first": False} for f in concrete]
        if concrete:
            md["shapes"] = ["evaluator", "xyoz"] if n % 2 else ["face", "evaluator"]
            md["targets"] = [second, first] if n % 3 == 0 else []
        out.append(md)
    for args in ([("any_space_10", "inc")], [("any_space_1", "inc"), ("any_space_10", "read")],
                 [("any_space_10", "inc"), ("any_space_1", "read")]):
        md = blank("enforce_bc")
        md["args"] = [_field(None, fs, acc) for fs, acc in args]
        out.append(md)
    return out


def evaluator_family():
    """Evaluator kernels x update access of the arguments, run first in every run.  The evaluator targets
    (one basis / differential-basis array per target) are either given by gh_evaluator_targets or DEFAULT to
    the spaces of the arguments the kernel updates: every update access (inc, readinc, write, readwrite) on
    continuous / discontinuous / any_* spaces, as the only updated argument (scalar field, vector field;
    evaluator alone and mixed with quadrature shapes), every ordered pair of distinct update accesses on two
    updated arguments, updated operators ('to' space), and explicit targets overriding the default."""
    import itertools
    upd = [("inc", "w0"), ("readinc", "w0"), ("write", "w0"), ("write", "w3"), ("readwrite", "w3"),
           ("inc", "any_space_1"), ("readinc", "any_w2"), ("readwrite", "any_discontinuous_space_1")]
    bfs = "w1"                      # read-only argument's space: the one that needs basis functions
    both = [{"fs": bfs, "basis": True, "diff": True, "diff_first": False}]
    out = []

    def add(args, funcs, shapes, targets=()):
        md = blank(f"ke{len(out)}")
        md["args"], md["funcs"], md["shapes"], md["targets"] = args, funcs, list(shapes), list(targets)
        out.append(md)

    # 1. one updated argument, default targets
    for n, (acc, fs) in enumerate(upd):
        add([_field(None, fs, acc), _field(None, bfs, "read")], both, ["evaluator"])
        add([_field(None, bfs, "read"), _field(None, fs, acc, vec=3)],
            [{"fs": bfs, "basis": n % 2 == 0, "diff": n % 2 == 1, "diff_first": False}], ["evaluator", "xyoz"])
        add([{"k": "scalar", "dt": "real", "acc": "read"}, _field(None, fs, acc), _field(None, bfs, "read")],
            both, ["face", "evaluator"])
    # 2. two updated arguments with different update accesses on different spaces, default targets
    space = {"inc": ("w0", "w2"), "readinc": ("w0", "w2"), "write": ("w3", "wtheta"), "readwrite": ("w3", "wtheta")}
    for a1, a2 in itertools.permutations(["inc", "readinc", "write", "readwrite"], 2):
        f1, f2 = space[a1][0], space[a2][1]
        add([_field(None, f1, a1), _field(None, f2, a2), _field(None, bfs, "read")],
            both + [{"fs": f1, "basis": True, "diff": False, "diff_first": False}], ["evaluator"])
    # 3. updated operators (target = 'to' space), alone and next to an updated field
    for acc in ("write", "readwrite"):
        add([{"k": "op", "acc": acc, "to": "w2", "from": "w3"}, _field(None, bfs, "read")], both, ["evaluator"])
        add([_field(None, "w0", "readinc"), {"k": "op", "acc": acc, "to": "w3", "from": "w0"},
             _field(None, bfs, "read")], both, ["evaluator", "edge"])
    # 4. explicit gh_evaluator_targets override the default (a read-only space as the only target)
    for acc, fs in upd:
        add([_field(None, fs, acc), _field(None, bfs, "read")], both, ["evaluator"], [bfs])
    return out
