"""C28 — PSyData regions are entered and left in matched pairs.

Correspondence: generated routines (loops with EXIT/CYCLE under IF, early RETURN, forward GOTO, nested
loops, branches, SELECT CASE, and block constructs that PSyclone keeps as whole CodeBlocks — ASSOCIATE,
BLOCK, DO with a referenced construct name — containing dense statement lists with clean nested
constructs and control transfers in every position, nested two deep; the abstraction opens the fparser2
parse tree of every CodeBlock) x every consecutive-statement range of every Schedule x {ProfileTrans, ExtractTrans,
NanTestTrans, ReadOnlyVerifyTrans} (plus second applications on already instrumented trees):
real validate/apply/lower_to_language_level vs. the Lean model (accept/refuse, tree after apply incl. the
PSyData variable chosen by next_available_name, lowered code, region names).  Also: OpenMP/OpenACC
directives built around statements (directive-dependent refusals), the options node-type-check / prefix /
region_name, clashes with the PSyData symbol names; `get_unique_region_name` vs. `C28.uniqueNames` on
GOcean invokes; the PSyKAl `gen_code` names of LFRic modules with several invokes (incl. LFRicExtractTrans,
which takes its names from the table) vs. `C28.genCodeNames`.

Property on the real code (every case): the REAL lowered tree is abstracted into `C28.Stmt` and the
driver explores all oracles (branch choices / trip counts 0..B for the first D queries) — every trace
must be Dyck; region names of the lowered code must be pairwise distinct unless user-supplied.
Thorough tier: the instrumented Fortran is compiled with gfortran against a checking PSyData stub
library and run on 16 input sets (a seeded sample of ~8% of the accepted cases, at most 250).

The model is in FIXED mode (fixes/C28-exit-in-region.patch, fixes/C28-return-in-codeblock.patch)."""
import contextlib
import glob
import io
import json
import os

import common
from common import driver, sx, parse_sx
from props import c28_gen as G

B_TRIPS = 2


def depth_bound(tier):
    return 10 if tier == "thorough" else 8


# ---------------------------------------------------------------------------------- real code
_PARSED = {}


def parse_source(src):
    """a fresh copy of the PSyIR of the source (parsed once)"""
    from psyclone.psyir.frontend.fortran import FortranReader
    from psyclone.psyir.nodes import Routine
    if src not in _PARSED:
        if len(_PARSED) > 8:
            _PARSED.clear()
        _PARSED[src] = FortranReader().psyir_from_source(src)
    psyir = _PARSED[src].copy()
    return psyir, psyir.walk(Routine)[0]


def trans_of(name):
    from psyclone.psyir import transformations as T
    return getattr(T, name)()


def real_apply(routine, step):
    """applies one step (trans, path, i, j, name) to the real tree.
    returns "ok" | "refused" | "error:<class>" and the message"""
    from psyclone.psyir.transformations import TransformationError
    if step[0] == "dir":
        # a directive built directly around children[i:j] (not a PSyData step)
        _, num, path, i, j = step
        sched = G.navigate(routine, [tuple(p) for p in path])
        nodes = sched.children[i:j]
        for n in nodes:
            n.detach()
        sched.addchild(G.make_dir(num, nodes), i)
        return "ok", ""
    tname, path, i, j, name = step[:5]
    opt = step[5] if len(step) > 5 else None
    sched = G.navigate(routine, [tuple(p) for p in path])
    nodes = sched.children[i:j]
    options = {"region_name": tuple(name)} if name else {}
    if opt == "notypecheck":
        options["node-type-check"] = False
    elif opt == "badprefix":
        options["prefix"] = "bogus"
    elif opt == "badname":
        options["region_name"] = ("only-one",) if i % 2 else ("", "empty-module")
    options = options or None
    try:
        with contextlib.redirect_stdout(io.StringIO()), contextlib.redirect_stderr(io.StringIO()):
            trans_of(tname).apply(nodes, options)
    except TransformationError as err:
        return "refused", str(err.value)[:200]
    except Exception as err:  # pylint: disable=broad-except
        return "error:" + type(err).__name__, str(err)[:200]
    return "ok", ""


def lowered(psyir, routine_name, want_text):
    """lowers a copy of the tree; returns (routine of the lowered copy, Fortran text or None)"""
    from psyclone.psyir.nodes import Routine
    from psyclone.psyir.backend.fortran import FortranWriter
    cp = psyir.copy()
    text = None
    if want_text:
        try:
            text = FortranWriter()(cp)     # the writer lowers a copy of its own
        except Exception:  # pylint: disable=broad-except
            text = None
    cp.lower_to_language_level()
    return [r for r in cp.walk(Routine) if r.name == routine_name][0], text


def fortran_of(case):
    """the instrumented Fortran of a case (re-runs the history)"""
    from psyclone.psyir.backend.fortran import FortranWriter
    psyir, routine = parse_source(case.src)
    for st in case.steps:
        if real_apply(routine, st)[0] != "ok":
            return None
    try:
        return FortranWriter()(psyir)
    except Exception:  # pylint: disable=broad-except
        return None


def new_region(routine, before_ids):
    from psyclone.psyir.nodes import PSyDataNode
    return [n for n in routine.walk(PSyDataNode) if id(n) not in before_ids]


# ---------------------------------------------------------------------------------- one case
class Case:
    """source + history of steps; the last step is the one under test"""

    def __init__(self, src, steps, origin):
        self.src, self.steps, self.origin = src, steps, origin
        self.lines = {}        # what -> index into the driver batch
        self.real = {}

    def payload(self):
        return {"source": self.src, "steps": self.steps, "origin": self.origin}


def prepare(case, ids_by_case, tier):
    """runs the real code for a case and builds the driver lines; returns list of (key, line)"""
    ids = G.Ids()
    ids_by_case[id(case)] = ids
    psyir, routine = parse_source(case.src)
    for st in case.steps[:-1]:
        verdict, msg = real_apply(routine, st)
        if verdict != "ok":
            raise common.Infra(f"C28: history step {st} no longer accepted ({verdict}: {msg}) in {case.origin}")
    step = case.steps[-1]
    tname, path, i, j, name = step[:5]
    opt = step[5] if len(step) > 5 else None
    path = [tuple(p) for p in path]
    sched = G.navigate(routine, path)
    frames = G.frames_of(routine, path, ids)
    pre = G.abs_nodes(sched.children[:i], ids)
    mid = G.abs_nodes(sched.children[i:j], ids)
    post = G.abs_nodes(sched.children[j:], ids)
    from psyclone.psyir.nodes import PSyDataNode
    before = {id(n) for n in routine.walk(PSyDataNode)}
    before_vars = {n.var_name.lower() for n in routine.walk(PSyDataNode)}
    verdict, msg = real_apply(routine, step)
    case.real = {"verdict": verdict, "message": msg}
    lines = []
    kind = G.TRANS.index(tname)
    if verdict == "ok":
        new = new_region(routine, before)
        if len(new) != 1:
            case.real["verdict"] = "error:no-single-new-node"
        else:
            case.real["fresh_var"] = new[0].var_name.lower() not in before_vars
    nm = [ids.name(name[0]), ids.name(name[1])] if name and opt != "badname" else "-"
    opts = [0 if opt == "notypecheck" else 1, 0 if opt == "badprefix" else 1, 0 if opt == "badname" else 1]
    clash = 1 if G.clash_of(case.src, kind) else 0
    lines.append(("apply", sx(["apply", frames, pre, mid, post, kind, nm, opts, clash])))
    if case.real["verdict"] == "ok":
        case.real["after"] = sx(G.abs_sched(routine, ids))
        case.real["auto_flags"] = [n.region_name is None for n in routine.walk(PSyDataNode)]
        names = []
        case.real["routine_id"] = ids.name(routine.name)
        try:
            low, text = lowered(psyir, routine.name, False)
        except Exception as err:  # pylint: disable=broad-except
            # e.g. a directive that cannot be lowered where the generator put it: nothing to run
            case.real["lowering_error"] = type(err).__name__ + ": " + str(err)[:120]
            return lines
        case.real["lowered"] = sx(G.abs_sched(low, ids, names))
        case.real["names"] = names
        case.real["fortran"] = text
        lines.append(("lower", sx(["lower", case.real["routine_id"], G.abs_sched(routine, ids)])))
        lines.append(("explore", "(explore %s %d %d)" % (case.real["lowered"], B_TRIPS, depth_bound(tier))))
    return lines


def name_of(rn, ids):
    inv = {v: k for k, v in ids.names.items()}
    if rn[0] == "u":
        return (inv[rn[1]], inv[rn[2]])
    return (inv[rn[1]], f"r{rn[2]}")


def judge(chk, case, out, ids, gf, stats):
    """compares model and real outputs of one case; returns a violation payload or None"""
    mv = parse_sx(out["apply"])
    model_verdict, pinned_verdict, model_after = mv[0], mv[1], mv[2]
    real = case.real
    rv = real["verdict"]
    stats["real_" + rv.split(":")[0]] = stats.get("real_" + rv.split(":")[0], 0) + 1
    stats["model_" + str(model_verdict)] = stats.get("model_" + str(model_verdict), 0) + 1
    if pinned_verdict == "ok" and model_verdict != "ok":
        stats["refused_only_by_fixed_rule"] = stats.get("refused_only_by_fixed_rule", 0) + 1
    agreed = (rv == "ok") == (model_verdict == "ok") and not rv.startswith("error")
    why = None
    opted_out = any(len(st) > 5 and st[5] == "notypecheck" for st in case.steps)
    if rv == "ok" and "lowered" not in real:
        stats["lowering_errors"] = stats.get("lowering_errors", 0) + 1
        stats.setdefault("lowering_error_samples", [])
        if len(stats["lowering_error_samples"]) < 3:
            stats["lowering_error_samples"].append(real.get("lowering_error"))
    if rv == "ok":
        if agreed and sx(model_after) != real["after"]:
            agreed, why = False, "tree after apply differs (statements, placement or PSyData variable)"
        if agreed and "lowered" in real:
            ml = parse_sx(out["lower"])
            if sx(ml[0]) != real["lowered"]:
                agreed, why = False, "lowered code differs (placement of PreStart/PostEnd)"
            else:
                mnames = [name_of(rn, ids) for rn in ml[1]]
                if mnames != [tuple(n) for n in real["names"]]:
                    agreed, why = False, f"region names differ: model {mnames} real {real['names']}"
        if not real.get("fresh_var", True):
            agreed, why = False, "the new PSyData node re-uses the PSyData variable of another node"
    nontrivial = rv == "ok" or model_verdict != "empty"
    chk.case({"source": case.src, "steps": case.steps, "real": rv, "model": model_verdict},
             nontrivial=nontrivial, agreed=agreed)
    # ---- the property itself, on the real instrumented code
    viol = None
    if opted_out:
        stats["opted_out_of_node_type_check"] = stats.get("opted_out_of_node_type_check", 0) + 1
    if rv == "ok" and "lowered" in real and not opted_out:
        ex = parse_sx(out["explore"])
        stats["oracle_runs"] = stats.get("oracle_runs", 0) + (ex[1] if ex[0] == "ok" else 0)
        if ex[0] == "bad":
            stats["failing_inputs"] = stats.get("failing_inputs", 0) + 1
            detailed = stats["failing_inputs"] <= 5
            if detailed:
                real["fortran"] = real["fortran"] or fortran_of(case)
            viol = dict(case.payload(), kind="failing-input",
                        observed={"oracle": ex[1], "trace": sx(ex[2]), "outcome": sx(ex[3]),
                                  "lowered": real["lowered"]},
                        expected="every execution calls PreStart/PostEnd in properly nested, matched pairs "
                                 "(or validate refuses the region)",
                        fortran=real["fortran"])
            if gf is not None and real["fortran"] and detailed:
                viol["gfortran"] = list(gf.run(real["fortran"]))
        else:
            flags = real["auto_flags"] if len(real["auto_flags"]) == len(real["names"]) else [True] * len(real["names"])
            auto = [tuple(n) for n, is_auto in zip(real["names"], flags) if is_auto]
            if len(set(auto)) != len(auto):
                viol = dict(case.payload(), kind="failing-input", observed={"names": real["names"]},
                            expected="regions without user-supplied name get pairwise distinct names")
        if viol is None and gf is not None and stats["gf_budget"] > 0 and chk.rng.random() < 0.08:
            real["fortran"] = real["fortran"] or fortran_of(case)
        if viol is None and gf is not None and real["fortran"] and stats["gf_budget"] > 0:
            stats["gf_budget"] -= 1
            res = gf.run(real["fortran"])
            stats["gfortran_" + res[0]] = stats.get("gfortran_" + res[0], 0) + 1
            if res[0] == "mismatch":
                viol = dict(case.payload(), kind="failing-input", observed={"gfortran": list(res)},
                            expected="the checking PSyData library sees matched PreStart/PostEnd pairs",
                            fortran=real["fortran"])
            elif res[0] == "skip":
                stats.setdefault("gfortran_skips", []).append(res[1][:120])
    if not agreed and viol is None:
        chk.correspondence_broken(
            why or f"validate: real {rv} ({real['message'][:80]}) vs model {model_verdict}",
            case.payload(), out.get("apply"), {k: real.get(k) for k in ("verdict", "message", "after", "lowered", "names")})
    return viol


# ---------------------------------------------------------------------------------- case generation
def placements(routine):
    for path, sched in G.schedules(routine):
        n = len(sched.children)
        for i in range(n):
            for j in range(i + 1, n + 1):
                yield [list(p) for p in path], i, j


def cases_of_program(chk, src, origin, budget2):
    """level 1: every range x 4 transformations; level 2: after a few accepted first steps,
    sampled second placements"""
    rng = chk.rng
    _, routine = parse_source(src)
    # directives built around some statements first (they are part of the program, not PSyData steps)
    dirs = []
    if rng.random() < 0.4:
        for _ in range(rng.randint(1, 2)):
            st = random_dir_step(rng, routine)
            if st is None:
                break
            real_apply(routine, st)
            dirs.append(st)

    def opt():
        x = rng.random()
        return "notypecheck" if x < 0.04 else "badprefix" if x < 0.06 else "badname" if x < 0.08 else None

    first = []
    for path, i, j in placements(routine):
        for t in (G.TRANS if chk.tier == "thorough" else ["ProfileTrans", rng.choice(G.TRANS[1:])]):
            name = None
            if rng.random() < 0.08:
                name = rng.choice([["mymod", "myreg"], ["mymod", "other"], ["work", "r0"]])
            first.append([t, path, i, j, name, opt()])
    cap = 300 if chk.tier == "thorough" else 130
    if len(first) > cap:
        rng.shuffle(first)
        del first[cap:]
    out = [Case(src, dirs + [st], origin) for st in first]
    # level 2
    tried = 0
    rng.shuffle(first)
    for st in first:
        if budget2 <= 0 or tried >= 3:
            break
        if st[5] is not None:
            continue
        _, r2 = parse_source(src)
        for d in dirs:
            real_apply(r2, d)
        if real_apply(r2, st)[0] != "ok":
            continue
        tried += 1
        second = [[t, path, i, j, (["mymod", "myreg"] if rng.random() < 0.1 else None), opt()]
                  for path, i, j in placements(r2) for t in G.TRANS]
        rng.shuffle(second)
        for st2 in second[:budget2]:
            out.append(Case(src, dirs + [st, st2], origin))
    # an empty node list
    out.append(Case(src, dirs + [[rng.choice(G.TRANS), [], 0, 0, None, None]], origin))
    return out


def random_dir_step(rng, routine):
    """a directive around a random place: loop directives around one Loop, region directives around a range;
    `omp do` only inside an `omp parallel`, `acc loop` only inside an `acc parallel` (lowering checks that)"""
    from psyclone.psyir.nodes import Loop, OMPParallelDirective, ACCParallelDirective, RegionDirective
    cands = []
    for path, sched in G.schedules(routine):
        n = len(sched.children)
        in_dir = sched.ancestor(RegionDirective) is not None
        for i in range(n):
            node = sched.children[i]
            if isinstance(node, Loop):
                if not in_dir:
                    cands.append(["dir", 2, [list(p) for p in path], i, i + 1])
                if sched.ancestor(OMPParallelDirective) is not None and not isinstance(sched.parent, RegionDirective):
                    cands += [["dir", 1, [list(p) for p in path], i, i + 1]] * 3
                if sched.ancestor(ACCParallelDirective) is not None and not isinstance(sched.parent, RegionDirective):
                    cands += [["dir", 4, [list(p) for p in path], i, i + 1]] * 3
            if not in_dir:
                j = rng.randint(i + 1, n)
                cands.append(["dir", rng.choice([0, 0, 0, 3, 5]), [list(p) for p in path], i, j])
    return rng.choice(cands) if cands else None


def corpus_cases():
    for f in sorted(glob.glob(os.path.join(common.ROOT, "corpus", "C28", "*.json"))):
        d = json.load(open(f))
        yield Case(d["source"], d["steps"], "corpus/" + os.path.basename(f))


# ---------------------------------------------------------------------------------- names table
NAMES_FILES = ["single_invoke_three_kernels.f90", "test11_different_iterates_over_one_invoke.f90",
               "single_invoke.f90", "single_invoke_two_identical_kernels.f90"]
NAMES_TRANS = ["PSyDataTrans", "ProfileTrans", "ExtractTrans"]


def _reset_names_table():
    """empties the region-name table where the code keeps it on the class (returns the saved table or None)"""
    from psyclone.psyir.transformations import PSyDataTrans
    saved = getattr(PSyDataTrans, "_used_kernel_names", None)
    if saved is not None:
        PSyDataTrans._used_kernel_names = {}
    return saved


def _restore_names_table(saved):
    from psyclone.psyir.transformations import PSyDataTrans
    if saved is not None:
        PSyDataTrans._used_kernel_names = saved


def names_sequence_run(seq, invokes=None):
    """executes a concrete sequence of `get_unique_region_name` requests against the real code.
    step = {file, invoke, i, j, trans, region_name, fresh}: nodes = children[i:j] of the schedule of invoke
    `invoke` of the GOcean test file `file`; `trans` the transformation class; `fresh`: a new transformation
    object for this request (otherwise one object per class shared by the whole sequence).
    Returns (generated names, model requests, Ids).  The caller resets/restores the class-level table."""
    from psyclone.psyGen import Kern
    from psyclone.tests.utilities import get_invoke
    invokes = {} if invokes is None else invokes
    shared, ids, got, reqs = {}, G.Ids(), [], []
    for st in seq:
        key = (st["file"], st["invoke"])
        if key not in invokes:
            invokes[key] = get_invoke(st["file"], "gocean", idx=st["invoke"], dist_mem=False)[1]
        inv = invokes[key]
        nodes = inv.schedule.children[st["i"]:st["j"]]
        if st["fresh"] or st["trans"] not in shared:
            trans = trans_of(st["trans"])
            if not st["fresh"]:
                shared[st["trans"]] = trans
        else:
            trans = shared[st["trans"]]
        if st.get("region_name"):
            nm = tuple(st["region_name"])
            got.append(tuple(trans.get_unique_region_name(nodes, {"region_name": nm})))
            reqs.append(["u", ids.name(nm[0]), ids.name(nm[1])])
            continue
        got.append(tuple(trans.get_unique_region_name(nodes, {})))
        kerns = [k for n in nodes for k in n.walk(Kern)]
        base = inv.name + (f":{kerns[0].name}" if len(kerns) == 1 else "")
        reqs.append(["a", ids.name(inv.invokes.psy.name), ids.name(base)])
    return got, reqs, ids


def names_duplicates(seq, got):
    auto = [g for g, st in zip(got, seq) if not st.get("region_name")]
    return sorted({g for g in auto if auto.count(g) > 1})


def names_check(chk, stats):
    """`PSyDataTrans.get_unique_region_name` (used by the GOcean/LFRic extraction) on GOcean invokes vs
    `C28.uniqueNames`; uniqueness of the generated names evaluated directly.  Every sequence is concrete
    (file, invoke, node range, transformation class, fresh or shared object) and is stored in the witness."""
    from psyclone.configuration import Config
    old_api = Config.get().api
    saved = _reset_names_table()
    try:
        from psyclone.tests.utilities import get_invoke
        invokes = {}
        for f in NAMES_FILES:
            try:
                invokes[(f, 0)] = get_invoke(f, "gocean", idx=0, dist_mem=False)[1]
            except Exception:  # pylint: disable=broad-except
                continue
        if not invokes:
            stats["names_table"] = "skipped: no GOcean test invoke available"
            return None
        rng = chk.rng
        keys = sorted(invokes)
        for _ in range(60 if chk.tier == "quick" else 400):
            _reset_names_table()
            seq = []
            mode = rng.choice(["fresh", "shared", "mixed"])
            for _ in range(rng.randint(2, 9)):
                f, k = rng.choice(keys)
                n = len(invokes[(f, k)].schedule.children)
                i = rng.randrange(n)
                j = rng.randint(i + 1, n)
                fresh = mode == "fresh" or (mode == "mixed" and rng.random() < 0.5)
                st = {"file": f, "invoke": k, "i": i, "j": j, "trans": rng.choice(NAMES_TRANS),
                      "region_name": None, "fresh": fresh}
                if rng.random() < 0.2:
                    st["trans"], st["region_name"] = "PSyDataTrans", list(rng.choice([("m", "r"), ("m", "s")]))
                seq.append(st)
            got, reqs, ids = names_sequence_run(seq, invokes)
            mo = parse_sx(driver("C28", [sx(["names", reqs])])[0])
            inv_names = {v: k for k, v in ids.names.items()}
            exp = [(inv_names[g[1]], inv_names[g[2]]) if g[0] == "u"
                   else (inv_names[g[1]], f"{inv_names[g[2]]}:r{g[3]}") for g in mo]
            agreed = exp == got
            chk.case({"names_sequence": seq, "got": got}, nontrivial=True, agreed=agreed)
            stats["names_sequences"] = stats.get("names_sequences", 0) + 1
            stats["names_" + mode] = stats.get("names_" + mode, 0) + 1
            dups = names_duplicates(seq, got)
            if dups:
                return {"kind": "failing-input", "names_sequence": seq, "names_requests": reqs, "observed": got,
                        "duplicates": dups, "expected": "generated region names pairwise distinct"}
            if not agreed:
                chk.correspondence_broken("get_unique_region_name differs from C28.uniqueNames",
                                          {"names_sequence": seq}, exp, got)
    finally:
        _restore_names_table(saved)
        Config.get()._api = old_api
    return None


def names_replay(seq, quiet=False):
    """re-executes a stored names-table sequence; True iff two requests without user name got the same name"""
    from psyclone.configuration import Config
    say = (lambda *a: None) if quiet else print
    old_api = Config.get().api
    saved = _reset_names_table()
    try:
        got, _, _ = names_sequence_run(seq)
    finally:
        _restore_names_table(saved)
        Config.get()._api = old_api
    dups = names_duplicates(seq, got)
    say("get_unique_region_name requests (GOcean test files; nodes = schedule.children[i:j]):")
    for st, g in zip(seq, got):
        say("  ", json.dumps(st), "->", g)
    say("expected: names of requests without region_name pairwise distinct; duplicates:", dups)
    return bool(dups)


# ---------------------------------------------------------------------------------- end to end, fresh objects
E2E_FILES = ["single_invoke_two_identical_kernels.f90", "single_invoke_three_kernels.f90",
             "test12_two_invokes_two_kernels.f90", "single_invoke_two_kernels.f90"]
E2E_TRANS = ["GOceanExtractTrans", "ProfileTrans"]


def e2e_trans(name):
    if name == "GOceanExtractTrans":
        from psyclone.domain.gocean.transformations import GOceanExtractTrans
        return GOceanExtractTrans()
    return trans_of(name)


def e2e_run(w):
    """w = {file, trans, fresh, steps: [[invoke, i, j]]}: applies the real transformation `trans` to the disjoint
    top-level ranges children[i:j] of the invokes of a GOcean test file (a new transformation object per region
    if `fresh`, one object for all otherwise), generates the PSy layer and returns (names in the PreStart calls
    of the generated text, model requests in text order or None, Ids, number of PostEnd calls)."""
    import re
    from psyclone.psyGen import Kern
    from psyclone.psyir.nodes import PSyDataNode
    from psyclone.tests.utilities import get_invoke
    psy, _ = get_invoke(w["file"], "gocean", idx=0, dist_mem=False)
    shared = e2e_trans(w["trans"])
    ids, order = G.Ids(), {}
    with contextlib.redirect_stdout(io.StringIO()), contextlib.redirect_stderr(io.StringIO()):
        # highest ranges first so that the indices of the remaining ranges stay valid
        for n, (k, i, j) in enumerate(sorted(w["steps"], key=lambda s: (s[0], -s[1]))):
            inv = psy.invokes.invoke_list[k]
            nodes = inv.schedule.children[i:j]
            before = {id(q) for q in inv.schedule.walk(PSyDataNode)}
            kerns = [q for nd in nodes for q in nd.walk(Kern)]
            base = inv.name + (f":{kerns[0].name}" if len(kerns) == 1 else "")
            (e2e_trans(w["trans"]) if w["fresh"] else shared).apply(nodes)
            for q in inv.schedule.walk(PSyDataNode):
                if id(q) not in before:
                    order[id(q)] = (n, base)
        reqs = None
        if w["trans"] == "GOceanExtractTrans":
            # names come from the table in application order; the text lists them in tree order
            reqs = []
            for inv in psy.invokes.invoke_list:
                for q in inv.schedule.walk(PSyDataNode):
                    reqs.append((order[id(q)][0], ["a", ids.name(psy.name), ids.name(order[id(q)][1])]))
        code = str(psy.gen)
    got = [tuple(re.findall(r'"([^"]*)"', a)[:2]) for a in re.findall(r"PreStart\(([^)]*)\)", code)]
    nend = len(re.findall(r"%\s*PostEnd\b", code))
    return got, reqs, ids, nend


def e2e_model_names(reqs, ids):
    """names the model gives to the extraction regions, in text order (requests are made in application order)"""
    by_time = sorted(range(len(reqs)), key=lambda p: reqs[p][0])
    mo = parse_sx(driver("C28", [sx(["names", [reqs[p][1] for p in by_time]])])[0])
    inv_names = {v: k for k, v in ids.names.items()}
    exp = [None] * len(reqs)
    for p, g in zip(by_time, mo):
        exp[p] = (inv_names[g[1]], f"{inv_names[g[2]]}:r{g[3]}")
    return exp


def e2e_check(chk, stats):
    """end to end: real GOceanExtractTrans / ProfileTrans, a FRESH transformation object per region (and one
    reused object), on GOcean invokes with repeated kernels; the (module, region) names in the PreStart calls of
    the generated PSy layer must be pairwise distinct, one PostEnd per PreStart, and (extraction) equal to
    `C28.uniqueNames` of the requests."""
    from psyclone.configuration import Config
    from psyclone.tests.utilities import get_invoke
    old_api = Config.get().api
    saved = _reset_names_table()
    rng = chk.rng
    try:
        shapes = {}
        for f in E2E_FILES:
            try:
                psy, _ = get_invoke(f, "gocean", idx=0, dist_mem=False)
                shapes[f] = [len(inv.schedule.children) for inv in psy.invokes.invoke_list]
            except Exception:  # pylint: disable=broad-except
                continue
        if not shapes:
            stats["e2e"] = "skipped: no GOcean test file available"
            return None
        todo = []
        # systematic part: every file x transformation x fresh/reused, one region per top-level loop
        for f in sorted(shapes):
            for t in E2E_TRANS:
                for fresh in (True, False):
                    todo.append({"file": f, "trans": t, "fresh": fresh,
                                 "steps": [[k, i, i + 1] for k, n in enumerate(shapes[f]) for i in range(n)]})
        if chk.tier == "quick":
            todo = [w for w in todo if w["fresh"] or w["file"] == E2E_FILES[0]]
        for _ in range(4 if chk.tier == "quick" else 30):
            f = rng.choice(sorted(shapes))
            steps = []
            for k, n in enumerate(shapes[f]):
                i = 0
                while i < n:
                    j = rng.randint(i + 1, n)
                    if rng.random() < 0.8:
                        steps.append([k, i, j])
                    i = j
            if steps:
                rng.shuffle(steps)
                todo.append({"file": f, "trans": rng.choice(E2E_TRANS), "fresh": rng.random() < 0.7, "steps": steps})
        for w in todo:
            _reset_names_table()
            try:
                got, reqs, ids, nend = e2e_run(w)
            except Exception as err:  # pylint: disable=broad-except
                stats["e2e_errors"] = stats.get("e2e_errors", 0) + 1
                stats["e2e_error_sample"] = type(err).__name__ + ": " + str(err)[:120]
                continue
            exp = e2e_model_names(reqs, ids) if reqs else None
            agreed = exp is None or exp == got
            chk.case({"e2e": w, "got": got}, nontrivial=len(got) > 1, agreed=agreed)
            stats["e2e_cases"] = stats.get("e2e_cases", 0) + 1
            stats["e2e_fresh" if w["fresh"] else "e2e_reused"] = stats.get("e2e_fresh" if w["fresh"] else "e2e_reused", 0) + 1
            if len(set(got)) != len(got) or nend != len(got) or len(got) != len(w["steps"]):
                return {"kind": "failing-input", "e2e": w, "observed": {"prestart_names": got, "postend_calls": nend},
                        "expected": f"{len(w['steps'])} PreStart calls with pairwise distinct (module, region) names "
                                    "and as many PostEnd calls in the generated PSy layer"}
            if not agreed:
                chk.correspondence_broken("PreStart names of the generated GOcean PSy layer differ from C28.uniqueNames",
                                          {"e2e": w}, exp, got)
    finally:
        _restore_names_table(saved)
        Config.get()._api = old_api
    return None


def e2e_replay(w, quiet=False):
    from psyclone.configuration import Config
    say = (lambda *a: None) if quiet else print
    old_api = Config.get().api
    saved = _reset_names_table()
    try:
        got, _, _, nend = e2e_run(w)
    finally:
        _restore_names_table(saved)
        Config.get()._api = old_api
    say("GOcean test file:", w["file"], " transformation:", w["trans"],
        "(a new object per region)" if w["fresh"] else "(one object reused)")
    say("regions [invoke, i, j] = schedule.children[i:j]:", w["steps"])
    say("observed PreStart names in the generated PSy layer:", got, " PostEnd calls:", nend)
    say("expected: pairwise distinct names, one PostEnd per PreStart, one pair per region")
    return len(set(got)) != len(got) or nend != len(got) or len(got) != len(w["steps"])


# ---------------------------------------------------------------------------------- several routines
def multi_names(src, tname):
    """instruments the whole body of every routine of a file; returns [(routine name, model names, real names)]
    with the model names still to be filled in, and the driver lines"""
    from psyclone.psyir.frontend.fortran import FortranReader
    from psyclone.psyir.nodes import Routine
    psyir = FortranReader().psyir_from_source(src)
    ids = G.Ids()
    per, lines = [], []
    for r in psyir.walk(Routine):
        real_apply(r, [tname, [], 0, len(r.children), None])
    low = psyir.copy()
    low.lower_to_language_level()
    for r, rl in zip(psyir.walk(Routine), low.walk(Routine)):
        names = []
        G.abs_sched(rl, ids, names)
        per.append((r.name, [tuple(n) for n in names]))
        lines.append(sx(["lower", ids.name(r.name), G.abs_sched(r, ids)]))
    return per, lines, ids


def duplicate_classes(per):
    """(known-class duplicates, other duplicates) among the generated names of a file"""
    seen, known, other = {}, [], []
    for ri, (rname, names) in enumerate(per):
        for n in names:
            if n in seen:
                rj = seen[n]
                (known if rj != ri and per[rj][0] == rname else other).append(n)
            else:
                seen[n] = ri
    return known, other


def gen_multi(rng):
    mods = []
    for m in range(rng.randint(2, 3)):
        subs = []
        for name in rng.sample(["work", "init", "step"], rng.randint(1, 2)):
            body = ["  a = a + 1.0"] + (["  do i = 1, 3", "    a = a * 0.5", "  end do"] if rng.random() < 0.5 else [])
            subs.append("\n".join([f"subroutine {name}(a)", "  real :: a", "  integer :: i"] + body +
                                  [f"end subroutine {name}"]))
        mods.append(f"module m{m}\ncontains\n" + "\n".join(subs) + f"\nend module m{m}\n")
    return "".join(mods)


def multi_check(chk, stats):
    """files with several modules whose routines may share names: names vs model, and the
    uniqueness clause evaluated directly (duplicates between same-named routines = known finding)"""
    for _ in range(6 if chk.tier == "quick" else 40):
        src = gen_multi(chk.rng)
        tname = chk.rng.choice(["ProfileTrans", "NanTestTrans"])
        per, lines, ids = multi_names(src, tname)
        outs = driver("C28", lines)
        agreed = all([name_of(rn, ids) for rn in parse_sx(o)[1]] == names for o, (_, names) in zip(outs, per))
        chk.case({"multi_source": src, "trans": tname, "names": per}, nontrivial=True, agreed=agreed)
        known, other = duplicate_classes(per)
        stats["multi_routine_files"] = stats.get("multi_routine_files", 0) + 1
        if known:
            stats["known_class_same_routine_name"] = stats.get("known_class_same_routine_name", 0) + 1
        if other:
            return {"kind": "failing-input", "multi_source": src, "trans": tname, "observed": per,
                    "expected": "generated region names pairwise distinct (outside the known same-routine-name class)"}
        if not agreed:
            chk.correspondence_broken("region names of a multi-routine file differ from C28.loweredNames",
                                      {"multi_source": src, "trans": tname}, outs, per)
    return None


# ---------------------------------------------------------------------------------- gen_code names
def gencode_check(chk, stats):
    """PSyKAl code generation (`PSyDataNode.gen_code`, LFRic): region names of all PSyData nodes of a PSy-layer
    module with several invokes vs `C28.genCodeNames` (+ `C28.uniqueNames` for the names that
    `LFRicExtractTrans` obtains from `get_unique_region_name` after its validate has passed — a refused
    apply does not touch the table); uniqueness evaluated directly."""
    import re
    from psyclone.configuration import Config
    from psyclone.psyir.transformations import PSyDataTrans
    from psyclone.psyir.nodes import PSyDataNode
    from psyclone.psyGen import Kern
    old_api = Config.get().api
    saved = getattr(PSyDataTrans, "_used_kernel_names", None)
    files = ["3.1_multi_functions_multi_invokes.f90", "4.5_multikernel_invokes.f90", "1.2_multi_invoke.f90",
             "4_multikernel_invokes.f90"]
    rng = chk.rng
    try:
        from psyclone.tests.utilities import get_invoke
        from psyclone.domain.lfric.transformations import LFRicExtractTrans
        done = 0
        for _ in range(8 if chk.tier == "quick" else 40):
            try:
                psy, _ = get_invoke(rng.choice(files), "lfric", idx=0, dist_mem=False)
            except Exception:  # pylint: disable=broad-except
                continue
            if saved is not None:
                PSyDataTrans._used_kernel_names = {}
            ids = G.Ids()
            reqs = []          # requests to get_unique_region_name, in call order
            extract_nodes = []
            for inv in psy.invokes.invoke_list:
                for _ in range(rng.randint(0, 3)):
                    scheds = [sc for _, sc in G.schedules(inv.schedule) if sc is inv.schedule or
                              isinstance(sc.parent, PSyDataNode)]
                    sched = rng.choice(scheds)
                    n = len(sched.children)
                    if not n:
                        continue
                    i = rng.randrange(n)
                    j = rng.randint(i + 1, n)
                    nodes = sched.children[i:j]
                    x = rng.random()
                    before = {id(q) for q in inv.schedule.walk(PSyDataNode)}
                    try:
                        if x < 0.2:
                            nm = rng.choice([("um", "ur"), ("um", "us")])
                            trans_of("ProfileTrans").apply(nodes, {"region_name": nm})
                        elif x < 0.45:
                            kerns = [k for q in nodes for k in q.walk(Kern)]
                            base = inv.name + (f":{kerns[0].name}" if len(kerns) == 1 else "")
                            # apply validates first (7cab1a8): a refused apply leaves the table untouched,
                            # the name is requested once validate has passed
                            with contextlib.redirect_stdout(io.StringIO()), contextlib.redirect_stderr(io.StringIO()):
                                LFRicExtractTrans().validate(nodes, {})
                                reqs.append(["a", ids.name(psy.name), ids.name(base)])
                                LFRicExtractTrans().apply(nodes)
                            new = [q for q in inv.schedule.walk(PSyDataNode) if id(q) not in before]
                            extract_nodes += [(q, len(reqs) - 1) for q in new]
                        else:
                            trans_of(rng.choice(["ProfileTrans", "NanTestTrans", "ReadOnlyVerifyTrans"])).apply(nodes)
                    except Exception:  # pylint: disable=broad-except
                        continue       # refused placements are not the subject here
            try:
                with contextlib.redirect_stdout(io.StringIO()), contextlib.redirect_stderr(io.StringIO()):
                    code = str(psy.gen)
            except Exception as err:  # pylint: disable=broad-except
                stats["gencode_generation_errors"] = stats.get("gencode_generation_errors", 0) + 1
                stats["gencode_error_sample"] = type(err).__name__ + ": " + str(err)[:100]
                continue
            got = [tuple(re.findall(r'"([^"]*)"', a)[:2]) for a in re.findall(r"PreStart\(([^)]*)\)", code)]
            # model: names from the table for the extract nodes, then the gen_code numbering
            inv_names = lambda: {v: k for k, v in ids.names.items()}
            table = parse_sx(driver("C28", [sx(["names", reqs])])[0]) if reqs else []
            tnames = [(inv_names()[g[1]], f"{inv_names()[g[2]]}:r{g[3]}") for g in table]
            by_node = {id(q): tnames[k] for q, k in extract_nodes}
            nodes_desc, flags = [], []
            root = psy.invokes.invoke_list[0].schedule.root
            for q in root.walk(PSyDataNode):
                inv = q.ancestor(type(psy.invokes.invoke_list[0].schedule)).invoke
                kerns = q.walk(Kern)
                base = inv.name + (f":{kerns[0].name}" if len(kerns) == 1 else "")
                if id(q) in by_node:
                    user = by_node[id(q)]
                elif q.region_name is not None:
                    user = (q.module_name, q.region_name)
                else:
                    user = None
                nodes_desc.append([[ids.name(user[0]), ids.name(user[1])] if user else "-", ids.name(base)])
                flags.append(user is None or id(q) in by_node)
            mo = parse_sx(driver("C28", [sx(["gencode", ids.name(psy.name), nodes_desc])])[0])
            names = inv_names()
            exp = [(names[g[1]], names[g[2]]) if g[0] == "u" else (names[g[1]], f"{names[g[2]]}:r{g[3]}") for g in mo]
            agreed = exp == got
            chk.case({"gencode": psy.name, "got": got}, nontrivial=len(got) > 1, agreed=agreed)
            done += 1
            if len(flags) == len(got):
                qs = root.walk(PSyDataNode)
                table_named = [g for g, q, f in zip(got, qs, flags) if f and id(q) in by_node]
                position_named = [g for g, q, f in zip(got, qs, flags) if f and id(q) not in by_node]
            else:
                table_named, position_named = got, []
            if len(set(table_named)) != len(table_named) or len(set(position_named)) != len(position_named):
                return {"kind": "failing-input", "gencode": psy.name, "observed": got,
                        "expected": "generated region names of a PSy-layer module pairwise distinct"}
            if set(table_named) & set(position_named):
                # known finding C28-mixed-naming-schemes
                stats["known_class_mixed_naming_schemes"] = stats.get("known_class_mixed_naming_schemes", 0) + 1
            if not agreed:
                chk.correspondence_broken("gen_code region names differ from C28.genCodeNames", psy.name, exp, got)
        stats["gencode_modules"] = done
    finally:
        if saved is not None:
            PSyDataTrans._used_kernel_names = saved
        Config.get()._api = old_api
    return None


def gencode_witness(w, quiet=True):
    """known finding C28-mixed-naming-schemes: [(trans, invoke index, i, j)] on an LFRic test file;
    True iff two generated names coincide"""
    import re
    from psyclone.configuration import Config
    from psyclone.psyir.transformations import PSyDataTrans
    from psyclone.tests.utilities import get_invoke
    from psyclone.domain.lfric.transformations import LFRicExtractTrans
    old_api, saved = Config.get().api, getattr(PSyDataTrans, "_used_kernel_names", None)
    try:
        if saved is not None:
            PSyDataTrans._used_kernel_names = {}
        psy, _ = get_invoke(w["file"], "lfric", idx=0, dist_mem=False)
        with contextlib.redirect_stdout(io.StringIO()), contextlib.redirect_stderr(io.StringIO()):
            for tname, k, i, j in w["steps"]:
                nodes = psy.invokes.invoke_list[k].schedule.children[i:j]
                (LFRicExtractTrans() if tname == "LFRicExtractTrans" else trans_of(tname)).apply(nodes)
            code = str(psy.gen)
        got = [tuple(re.findall(r'"([^"]*)"', a)[:2]) for a in re.findall(r"PreStart\(([^)]*)\)", code)]
        if not quiet:
            print("file:", w["file"], "steps:", w["steps"], "\nobserved region names:", got,
                  "\nexpected: pairwise distinct")
        return len(set(got)) != len(got)
    finally:
        if saved is not None:
            PSyDataTrans._used_kernel_names = saved
        Config.get()._api = old_api


# ---------------------------------------------------------------------------------- run
def run(chk):
    chk.cov["rule"] = (
        "case = (generated routine, history of PSyData transformations, last placement = a consecutive range "
        "of a Schedule, transformation); every range of every Schedule x 4 transformations at level 1, sampled "
        "second applications on instrumented trees; non-trivial = the real code accepted, or it refused for a "
        "reason other than an empty node list; distinct by canonical JSON. Property evaluation per accepted case: "
        f"all oracles with answers 0..{B_TRIPS} for the first {depth_bound(chk.tier)} queries on the REAL lowered tree "
        "(exploration, bounded) + name uniqueness; thorough: gfortran run against the checking stub library")
    chk.assumptions += [
        "only terminating executions; GOTOs are forward jumps to a labelled CONTINUE in the same or an enclosing "
        "statement list (no jump into a block); STOP/ERROR STOP, alternate returns and I/O ERR=/END= branches are "
        "outside the model",
        "the routine has no user symbol called <prefix>_psy_data[_n] (the PSyData variable names are then exactly "
        "those of C28.nextVar; compared on every accepted case)",
        "options['node-type-check']=False is an explicit opt-out: such cases are compared with the model but not "
        "counted as violations (C28.node_type_check_off_counterexample)",
        "construct names of EXIT/CYCLE refer to DO constructs of the same CodeBlock (PSyclone keeps a DO whose name "
        "is referenced as one CodeBlock); SELECT TYPE, WHERE/FORALL constructs inside CodeBlocks are not generated",
        "directives are built directly (OMPParallel/OMPDo/OMPParallelDo/ACCParallel/ACCLoop/ACCKernels), not through "
        "their transformations; when such a tree cannot be lowered only validate/apply are compared",
        "model is in FIXED mode: fixes/C28-exit-in-region.patch + fixes/C28-return-in-codeblock.patch"]
    chk.cov["trusted_base"] = [
        "Lean 4.33.0 kernel", "axioms propext/Classical.choice/Quot.sound only (audited)",
        "harness abstraction PSyIR -> C28.Stmt (harness/props/c28_gen.py: abs_node/abs_codeblock/frames_of)",
        "Drivers/C28.lean glue (S-expression parser, frame -> Ctx, oracle exploration)",
        "fparser2 parse of the generated Fortran; gfortran 12 + the checking PSyData stub (thorough tier)"]
    chk.lean()
    stats = {"gf_budget": 0}
    gf = None
    if chk.tier == "thorough":
        try:
            gf = G.Gfortran()
            stats["gf_budget"] = 250
        except Exception as err:  # pylint: disable=broad-except
            raise common.Infra(str(err))
    try:
        _run(chk, stats, gf)
    finally:
        if gf is not None:
            gf.close()
    stats.pop("gf_budget", None)
    chk.cov["distribution"] = stats
    chk.cov["exploration_only"] = ("oracle exploration of the real instrumented trees is bounded "
                                   f"(answers 0..{B_TRIPS}, first {depth_bound(chk.tier)} queries)")


def _run(chk, stats, gf):
    nprog = 24 if chk.tier == "thorough" else 9
    cases = list(corpus_cases())
    feats = {}
    for p in range(nprog):
        src, features = G.gen_program(chk.rng)
        for f in features:
            feats[f] = feats.get(f, 0) + 1
        cases += cases_of_program(chk, src, f"gen-{chk.seed}-{p}", 25 if chk.tier == "thorough" else 8)
    stats["programs"] = nprog
    stats["program_features"] = feats
    ids_by_case, batch, index = {}, [], []
    for c in cases:
        lines = prepare(c, ids_by_case, chk.tier)
        index.append((c, {k: len(batch) + n for n, (k, _) in enumerate(lines)}))
        batch += [ln for _, ln in lines]
    outs = driver("C28", batch)
    confirm = None
    nviol = 0
    for c, where in index:
        out = {k: outs[n] for k, n in where.items()}
        if any(o in ("bad-input", "bad-line") for o in out.values()):
            raise common.Infra(f"C28 driver rejected a line of case {c.payload()}: {out}")
        if gf is None and confirm is None and c.real["verdict"] == "ok" and out.get("explore", "").startswith("(bad"):
            try:
                confirm = G.Gfortran()     # confirm failing inputs with gfortran even in the quick tier
            except Exception:  # pylint: disable=broad-except
                confirm = False
        viol = judge(chk, c, out, ids_by_case[id(c)], gf or (confirm or None), stats)
        if viol is not None:
            nviol += 1
            if nviol <= 5:
                chk.violation(viol)
    if confirm:
        confirm.close()
    v = multi_check(chk, stats)
    if v is not None:
        chk.violation(v)
    v = names_check(chk, stats)
    if v is not None:
        chk.violation(v)
    v = e2e_check(chk, stats)
    if v is not None:
        chk.violation(v)
    v = gencode_check(chk, stats)
    if v is not None:
        chk.violation(v)
    for e in common.known_findings("C28"):
        if replay_witness(e["witness"], quiet=True):
            chk.known(e["what"])


# ---------------------------------------------------------------------------------- replay
def replay_witness(payload, quiet=False):
    """re-runs a stored input against the real code; True iff the property fails on it"""
    say = (lambda *a: None) if quiet else print
    if "multi_source" in payload:
        per, _, _ = multi_names(payload["multi_source"], payload.get("trans", "ProfileTrans"))
        known, other = duplicate_classes(per)
        say("source:\n" + payload["multi_source"])
        say("observed region names per routine:", per)
        say("expected: pairwise distinct generated names; duplicates:", known + other)
        return bool(known or other)
    if "gencode_witness" in payload:
        return gencode_witness(payload["gencode_witness"], quiet)
    if "gencode" in payload:
        say("gen_code names witness: re-run `./check C28` (sequence-dependent)")
        return False
    if "names_sequence" in payload:
        return names_replay(payload["names_sequence"], quiet)
    if "e2e" in payload:
        return e2e_replay(payload["e2e"], quiet)
    if "names_requests" in payload:
        say("names-table witness without stored sequence (written by an older harness): re-run `./check C28`")
        return False
    case = Case(payload["source"], payload["steps"], "replay")
    ids = {}
    lines = prepare(case, ids, "thorough")
    say("source:\n" + case.src)
    say("steps:", case.steps)
    say("real verdict:", case.real["verdict"], case.real["message"])
    if case.real["verdict"] != "ok":
        say("property: holds (the region is refused)")
        return False
    outs = driver("C28", [ln for _, ln in lines])
    out = {k: o for (k, _), o in zip(lines, outs)}
    case.real["fortran"] = case.real["fortran"] or fortran_of(case)
    say("instrumented code:\n" + (case.real["fortran"] or case.real["lowered"]))
    ex = parse_sx(out["explore"])
    bad = ex[0] == "bad"
    if bad:
        say("observed: oracle", ex[1], "gives trace", sx(ex[2]), "outcome", sx(ex[3]))
        say("expected: properly nested, matched PreStart/PostEnd pairs")
        if case.real["fortran"]:
            try:
                gf = G.Gfortran()
                say("gfortran run against the checking PSyData library:", gf.run(case.real["fortran"]))
                gf.close()
            except Exception as err:  # pylint: disable=broad-except
                say("gfortran confirmation unavailable:", err)
    names = [tuple(n) for n in case.real["names"]]
    flags = case.real["auto_flags"] if len(case.real["auto_flags"]) == len(names) else [True] * len(names)
    auto = [n for n, is_auto in zip(names, flags) if is_auto]
    if len(set(auto)) != len(auto):
        say("observed: duplicate generated region names", names)
        bad = True
    if not bad:
        say(f"property: holds on this input ({ex[1]} executions explored, all matched)")
    return bad


def replay(payload):
    if "broken" in payload:
        # a broken correspondence/proof without failing input: re-run the disagreeing case
        rc = 0
        for b in payload["broken"]:
            case = b.get("case")
            if b.get("kind") != "correspondence" or not isinstance(case, dict) or "source" not in case:
                print("broken:", b.get("what"))
                rc = 1
                continue
            c = Case(case["source"], case["steps"], "replay")
            ids = {}
            lines = prepare(c, ids, "quick")
            outs = driver("C28", [ln for _, ln in lines])
            out = {k: o for (k, _), o in zip(lines, outs)}
            mv = parse_sx(out["apply"])
            print("steps:", c.steps, "\nreal:", c.real["verdict"], c.real["message"], "\nmodel:", mv[0])
            same = (c.real["verdict"] == "ok") == (mv[0] == "ok") and not c.real["verdict"].startswith("error")
            if same and c.real["verdict"] == "ok":
                ml = parse_sx(out["lower"])
                same = sx(mv[2]) == c.real["after"] and sx(ml[0]) == c.real["lowered"] and \
                    [name_of(rn, ids[id(c)]) for rn in ml[1]] == [tuple(n) for n in c.real["names"]]
                print("real after apply :", c.real["after"], "\nmodel after apply:", sx(mv[2]))
                print("real lowered :", c.real["lowered"], c.real["names"], "\nmodel lowered:", sx(ml[0]), sx(ml[1]))
            print("model and real code", "agree" if same else "DISAGREE")
            if not same:
                rc = 1
        return rc
    return 1 if replay_witness(payload) else 0
