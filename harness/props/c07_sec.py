"""C07 — SYSTEMATIC family of array-section actual arguments (enumerated, not sampled at random).

One program per point of
    actual array (rank 1: a(0:10), c(10); rank 2: mm(0:5,2:7); rank 3: t3(0:3,2:5,1:4))
  x kind of every index position (scalar index | section), at least one section      [position of the sections]
  x class of every scalar index  (declared lower bound | interior literal | variable | expression)
  x class of every section       (`:` | `lb:` | `lb:lb+2` | `lb+1:lb+3` | `lb+1:` | `i:i+1`)     [literal / variable bounds]
  x declared lower bound of every formal dimension (assumed `:` | `0:` | `2:` | `3:` | explicit `2:3` (rank 1))
  x step of one section          (none | `:1` | `:2` -> refused by validate)
  x callee body                  (two element-wise bodies; a whole-array / full-range body, gfortran only)
The position kinds x index classes x section classes are enumerated completely for rank <= 2 (quick tier: the
one-section patterns completely, the two-section pattern by a pair-covering subset; thorough: everything, twice with
different formal bounds), rank 3 by a rotating subset (quick: three points per pattern of section positions; thorough:
every sixth point of the complete enumeration); formal bounds, steps and bodies rotate over the enumeration with a seed-dependent offset.

Every array element has a distinct initial value and the callee writes position-dependent values, so an index map
that is off by anything changes the output.  The callee writes no variable the actual mentions (IndexStable holds):
every accepted case is inside the proved domain."""
import itertools

ARRS = {"a": [(0, 10)], "c": [(1, 10)], "mm": [(0, 5), (2, 7)], "t3": [(0, 3), (2, 5), (1, 4)]}
IX_CLASSES = ["lb", "mid", "var", "expr"]
SEC_CLASSES = ["full", "lb_open", "lb", "mid", "mid_open", "var"]
FORMAL_CLASSES = ["assumed", "lo0", "lo2", "lo3", "explicit"]
STEPS = [None, None, "1", None, None, "2"]


def ix_text(cls, dim, pos):
    lo, _ = dim
    return {"lb": str(lo), "mid": str(lo + 1), "var": "i" if pos % 2 == 0 else "j", "expr": "j-1"}[cls]


def sec_text(cls, dim, step):
    lo, _ = dim
    t = {"full": ":", "lb_open": f"{lo}:", "lb": f"{lo}:{lo + 2}", "mid": f"{lo + 1}:{lo + 3}", "mid_open": f"{lo + 1}:",
         "var": "i:i+1"}[cls]
    if step:
        t = t + ":" + step        # `:`->`::s`, `lo:`->`lo::s`, `lo:hi`->`lo:hi:s`
    return t


def formal_dim(cls, rank):
    """-> (declaration text, lower bound)"""
    if cls == "explicit" and rank > 1:
        cls = "lo2"          # an explicit-shape dummy of rank > 1 is sequence associated: extents would have to match
    return {"assumed": (":", 1), "lo0": ("0:", 0), "lo2": ("2:", 2), "lo3": ("3:", 3), "explicit": ("2:3", 2)}[cls]


def body(rank, los, variant):
    """callee statements touching the 2 x .. x 2 block at the declared lower bounds of `x`"""
    def el(offs, first=None):
        parts = [str(lo + o) for lo, o in zip(los, offs)]
        if first is not None:
            parts[0] = first
        return "x(" + ", ".join(parts) + ")"
    z = [0] * rank
    one = [1] * rank
    lo1 = los[0]
    out = []
    if variant == 0:
        out += [f"    do l = {lo1}, {lo1 + 1}",
                f"      {el(z, 'l')} = {el(z, 'l')} + 1000 * (l - {lo1} + 1)",
                "    enddo"]
    else:
        lv = "l" if lo1 == 0 else f"l + {lo1}"
        out += ["    do l = 0, 1",
                f"      {el(z, lv)} = {el(one, lv)} * 2 + l",
                "    enddo"]
    out.append(f"    p = {el(one)}")
    mixed = [0] + [1] * (rank - 1) if rank > 1 else [1]
    out.append(f"    {el(mixed)} = p + 5")
    flip = [1] + [0] * (rank - 1)
    out.append(f"    r = {el(flip)} - {el(z)} * 2")
    if variant == 2:
        full = "x(" + ", ".join([":"] * rank) + ")"
        out.append(f"    {full} = {full} + 3")
        out.append("    x = x * 2")
    return out


def frame(call_lines, sub_lines, rank3):
    init = ["    i = 2", "    j = 3", "    n = 1", "    t = 2", "    k = 7",
            "    do ii = 0, 10", "      a(ii) = 100 + ii", "    enddo",
            "    do ii = 2, 12", "      b(ii) = 300 + ii", "    enddo",
            "    do ii = 1, 10", "      c(ii) = 500 + ii", "    enddo",
            "    do jj = 2, 7", "      do ii = 0, 5", "        mm(ii, jj) = 700 + ii + 10 * jj", "      enddo", "    enddo"]
    prints = ["    print *, i, j, n, t, k", "    print *, a", "    print *, b", "    print *, c", "    print *, mm"]
    decl = ["    integer :: i, j, n, t, k, ii, jj, kk", "    integer, dimension(0:10) :: a",
            "    integer, dimension(2:12) :: b", "    integer, dimension(10) :: c", "    integer, dimension(0:5,2:7) :: mm"]
    if rank3:
        decl.append("    integer, dimension(0:3,2:5,1:4) :: t3")
        init += ["    do kk = 1, 4", "      do jj = 2, 5", "        do ii = 0, 3",
                 "          t3(ii, jj, kk) = 2000 + ii + 10 * jj + 100 * kk", "        enddo", "      enddo", "    enddo"]
        prints.append("    print *, t3")
    lines = ["module m", "  implicit none", "contains", "  subroutine main()"] + decl + init + list(call_lines) + prints
    lines += ["  end subroutine main"] + list(sub_lines) + ["end module m"]
    return "\n".join(lines) + "\n"


def points(arr):
    """all (kinds, classes) of the index positions of `arr`, at least one section"""
    dims = ARRS[arr]
    for kinds in itertools.product("ir", repeat=len(dims)):
        if "r" not in kinds:
            continue
        for classes in itertools.product(*[(IX_CLASSES if kd == "i" else SEC_CLASSES) for kd in kinds]):
            yield "".join(kinds), classes


def build(arr, kinds, classes, fcls, step_at, step, variant):
    """one program; `fcls`: class of each formal dimension; `step` applied to the `step_at`-th section"""
    dims = ARRS[arr]
    rank = kinds.count("r")
    parts, nsec = [], 0
    for pos, (kd, cls) in enumerate(zip(kinds, classes)):
        if kd == "i":
            parts.append(ix_text(cls, dims[pos], pos))
        else:
            parts.append(sec_text(cls, dims[pos], step if (step and nsec == step_at % rank) else None))
            nsec += 1
    fd = [formal_dim(c, rank) for c in fcls[:rank]]
    decl = ",".join(d for d, _ in fd)
    los = [lo for _, lo in fd]
    sub = ["  subroutine s(x, r)", f"    integer, dimension({decl}), intent(inout) :: x", "    integer, intent(inout) :: r",
           "    integer :: l, p"] + body(rank, los, variant) + ["  end subroutine s"]
    call = [f"    call s({arr}({', '.join(parts)}), n)"]
    return frame(call, sub, arr == "t3")


def family(rng, thorough):
    """-> list of (src, kind).  Deterministic enumeration; `rng` only chooses the rotation offsets."""
    off = rng.randrange(1000)
    sel = []
    for arr in ("a", "c", "mm"):
        for kinds, classes in points(arr):
            if kinds == "rr" and not thorough:
                # pair-covering subset of the 6 x 6 section classes: every class in each position, three partners each
                a, b = SEC_CLASSES.index(classes[0]), SEC_CLASSES.index(classes[1])
                if (b - a - off) % 6 not in (0, 2, 3):
                    continue
            if arr in ("a", "c") and not thorough and (SEC_CLASSES.index(classes[0]) + (arr == "c") + off) % 2:
                continue
            sel.append((arr, kinds, classes))
    p3 = list(points("t3"))
    if thorough:
        sel += [("t3", k, c) for k, c in p3[off % 6::6]]
    else:
        # every pattern of section positions, rotating through the classes
        by = {}
        for k, c in p3:
            by.setdefault(k, []).append(c)
        for k in sorted(by):
            cs = by[k]
            for m in range(3):
                sel.append(("t3", k, cs[(off * 7 + m * (len(cs) // 3) + m) % len(cs)]))
    out = []
    for n, (arr, kinds, classes) in enumerate(sel):
        for rep in range(2 if (thorough and arr != "t3") else 1):
            x = n + off + rep * 2
            fcls = [FORMAL_CLASSES[(x + 2 * d + rep) % 5] for d in range(3)]
            step = STEPS[(x * 5 + rep) % 6]
            variant = 2 if (x % 11 == 5) else x % 2
            src = build(arr, kinds, classes, fcls, x // 6, step, variant)
            out.append((src, f"sec:{arr}:{kinds}"))
    return out
