"""C18 end-to-end family: the call sites that apply the limiter (generator.main / generate, Kern.rename_and_write in
psyGen.py, kernel_tools.run).  Every scenario is run twice in-process: once as the user asked (`-l output|all|off`)
and once as the UNLIMITED reference (`-l off`, and FortLineLength.process replaced by the identity so that the
kernels written by rename_and_write are unlimited too).  The property clauses are then evaluated on every emitted
file: no line > 132 when limiting was requested (always, for transformed kernels), the same logical lines as the
unlimited text (Lean spec `logical`, c18_spec.py), re-limiting is the identity.  The glue model is
`emitted = process 132 unlimited` (Lean: C18.emit); a difference from it that is not a clause failure is a broken
correspondence only."""
import contextlib
import io
import os
import shutil
import tempfile

import common
import c18_spec as spec

LIMIT = 132


def _tf(*p):
    return os.path.join(common.REPO, "src", "psyclone", "tests", "test_files", *p)


def _read(path):
    with open(path, encoding="utf8") as f:
        return f.read()


# ---- generated inputs ---------------------------------------------------------------------------------
def no_invoke_program(r, variant):
    """A valid algorithm-layer file WITHOUT invoke(): long declaration, comment, statement, call with a character
    literal containing `!` and `&`, and a directive (all outside the known defect classes)."""
    n = r.randint(11, 16)
    w = r.choice([9, 12, 15])
    names = [f"field_number_{i:02d}"[:w] + f"{i:02d}" for i in range(1, n + 1)]
    ind = " " * r.choice([2, 4, 8])
    words = "this comment is deliberately long and says nothing useful at all but it goes on and on until it is well past " \
            "the one hundred and thirty two column limit of free form Fortran, really"
    lines = [f"program no_invokes_{variant}", ind + "implicit none",
             ind + "real :: " + ", ".join(names),
             ind + "real :: total_of_all_the_fields",
             ind + "integer :: i",
             ind + "! " + words,
             ind + "call random_number(" + names[0] + ")",
             ind + "total_of_all_the_fields = " + " + ".join(names) + " + " + " * ".join(names[:4])]
    if variant % 3 != 0:
        lines.append(ind + "write(*,*) 'a literal with ! and & inside, long enough to need wrapping: " + "x y " * 30 + "', "
                     + ", ".join(names[:5]))
    if variant % 2 == 0:
        lines += [ind + "!$omp parallel do default(shared), private(i), schedule(static), firstprivate(" + ", ".join(names[:8]) + ")",
                  ind + "do i = 1, 10", ind + "  total_of_all_the_fields = total_of_all_the_fields + " + names[1],
                  ind + "end do", ind + "!$omp end parallel do"]
    lines += [ind + "write(*,*) total_of_all_the_fields", f"end program no_invokes_{variant}", ""]
    return "\n".join(lines)


def nemo_program(r):
    n = r.randint(8, 12)
    terms = " + ".join(f"umask(ji,jj,jk) * {i}.0" for i in range(1, n + 6))
    decl = ", ".join(f"a_rather_long_scalar_name_{i:02d}" for i in range(1, n))
    return "\n".join([
        "program nemo_long", "  implicit none", "  integer :: ji, jj, jk", "  integer, parameter :: jpi=2, jpj=4, jpk=6",
        "  real :: " + decl, "  real, dimension(jpi,jpj,jpk) :: umask, vmask",
        "  ! a comment that is much longer than the limit: " + "word " * 30,
        "  do jk = 1, jpk", "    do jj = 1, jpj", "      do ji = 1, jpi",
        "        vmask(ji,jj,jk) = " + terms, "      end do", "    end do", "  end do",
        "  vmask(1:jpi,1:jpj,1:jpk) = " + " + ".join(["umask(jpi, jpj, jpk)"] * 9),
        "end program nemo_long", ""])


ACC_SCRIPT = '''
def trans(psy):
    from psyclone.transformations import ACCRoutineTrans
    rtrans = ACCRoutineTrans()
    for invoke in psy.invokes.invoke_list:
        for kern in invoke.schedule.coded_kernels():
            rtrans.apply(kern)
    return psy
'''


def scenarios(r, thorough=False):
    """-> list of dict(name, tool, api, files{rel: text}, main, args, kern_out)"""
    out = []
    for v in range(6 if thorough else 3):
        out.append({"name": f"noinvoke-{v}", "tool": "psyclone", "api": r.choice(["dynamo0.3", "gocean1.0"]),
                    "files": {"alg.f90": no_invoke_program(r, v)}, "main": "alg.f90",
                    "mode": "output", "kern_out": False})
    out.append({"name": "noinvoke-short-all", "tool": "psyclone", "api": "dynamo0.3",
                "files": {"alg.f90": "program p\n  implicit none\n  integer :: i\n  i = 1\nend program p\n"},
                "main": "alg.f90", "mode": "all", "kern_out": False})
    # LFRic: PSy layer with long argument lists
    out.append({"name": "lfric-invoke", "tool": "psyclone", "api": "dynamo0.3",
                "files": {"alg.f90": _read(_tf("dynamo0p3", "1.1.0_single_invoke_xyoz_qr.f90")),
                          "testkern_qr_mod.F90": _read(_tf("dynamo0p3", "testkern_qr_mod.F90"))},
                "main": "alg.f90", "mode": r.choice(["output", "all"]), "kern_out": False})
    # GOcean: long field names make the PSy layer long; a long statement in a kernel that a script transforms
    alg = _read(_tf("gocean1p0", "single_invoke_three_kernels.f90"))
    suffix = "_with_a_very_long_name_" + "x" * r.randint(10, 20)
    for nm in ("cu_fld", "cv_fld", "unew_fld", "uold_fld", "p_fld", "u_fld", "v_fld"):
        alg = alg.replace(nm, nm[:-4] + suffix + "_fld")
    kern = _read(_tf("gocean1p0", "compute_cu_mod.f90"))
    stmt = "CU(I,J) = 0.5d0*(P(i+1,J)+P(I,J))*U(I,J)"
    if stmt not in kern:
        raise common.Infra("gocean test kernel compute_cu_mod.f90 has changed")
    kern = kern.replace(stmt, stmt + " + 0.0d0*(" + " + ".join(["p(i,j)*u(i,j)"] * r.randint(12, 18)) + ")")
    out.append({"name": "gocean-invoke-kernel-output", "tool": "psyclone", "api": "gocean1.0",
                "files": {"alg.f90": alg, "compute_cu_mod.f90": kern,
                          "compute_cv_mod.f90": _read(_tf("gocean1p0", "compute_cv_mod.f90")),
                          "time_smooth_mod.f90": _read(_tf("gocean1p0", "time_smooth_mod.f90")),
                          "acc_script.py": ACC_SCRIPT},
                "main": "alg.f90", "mode": "output", "script": "acc_script.py", "kern_out": True})
    out.append({"name": "nemo", "tool": "psyclone", "api": "nemo", "files": {"alg.f90": nemo_program(r)},
                "main": "alg.f90", "mode": "output", "kern_out": False, "no_oalg": True})
    out.append({"name": "kern-stub", "tool": "psyclone-kern", "api": "lfric",
                "files": {"testkern_qr_mod.F90": _read(_tf("dynamo0p3", "testkern_qr_mod.F90"))},
                "main": "testkern_qr_mod.F90", "mode": "output", "kern_out": False})
    return out


# ---- running ---------------------------------------------------------------------------------------------
@contextlib.contextmanager
def identity_limiter():
    from psyclone import line_length
    orig = line_length.FortLineLength.process
    line_length.FortLineLength.process = lambda self, text: text
    try:
        yield
    finally:
        line_length.FortLineLength.process = orig


def run_tool(sc, mode, workdir):
    """Run the real entry point in-process; returns (exit code, {role: text}, console tail)."""
    from psyclone.configuration import Config
    for rel, text in sc["files"].items():
        with open(os.path.join(workdir, rel), "w", encoding="utf8") as f:
            f.write(text)
    outd = os.path.join(workdir, "out")
    kdir = os.path.join(workdir, "kern")
    os.makedirs(outd)
    os.makedirs(kdir)
    main_file = os.path.join(workdir, sc["main"])
    if sc["tool"] == "psyclone":
        from psyclone.generator import main
        args = [main_file, "-api", sc["api"], "-l", mode, "-opsy", os.path.join(outd, "psy.f90")]
        if not sc.get("no_oalg"):
            args += ["-oalg", os.path.join(outd, "alg.f90")]
        if sc["api"] != "nemo":
            args += ["-d", workdir]
        if sc.get("script"):
            args += ["-s", os.path.join(workdir, sc["script"])]
        if sc["kern_out"]:
            args += ["-okern", kdir, "--kernel-renaming", "multiple"]
    else:
        from psyclone.kernel_tools import run as main
        args = ["-api", sc["api"], "-gen", "stub", "-l", mode, "-o", os.path.join(outd, "stub.f90"), main_file]
    buf = io.StringIO()
    Config._instance = None
    cwd = os.getcwd()
    try:
        os.chdir(workdir)
        with contextlib.redirect_stdout(buf), contextlib.redirect_stderr(buf):
            main(args)
        rc = 0
    except SystemExit as e:
        rc = e.code or 0
    finally:
        os.chdir(cwd)
        Config._instance = None
    files = {}
    for d, role in ((outd, "out"), (kdir, "kern")):
        for fn in sorted(os.listdir(d)):
            files[f"{role}/{fn}"] = _read(os.path.join(d, fn))
    return rc, files, buf.getvalue()[-400:]


def run_scenario(sc):
    """-> dict(rc, rc_ref, limited{role:text}, unlimited{role:text}, console)"""
    base = tempfile.mkdtemp(prefix="c18e2e-")
    try:
        d1, d2 = os.path.join(base, "a"), os.path.join(base, "b")
        os.makedirs(d1)
        os.makedirs(d2)
        rc, lim, con = run_tool(sc, sc["mode"], d1)
        with identity_limiter():
            rc2, unl, con2 = run_tool(sc, "off", d2)
        return {"rc": rc, "rc_ref": rc2, "limited": lim, "unlimited": unl, "console": con if rc else con2 if rc2 else ""}
    finally:
        shutil.rmtree(base, ignore_errors=True)


def real_process(text):
    from psyclone.line_length import FortLineLength
    from psyclone.errors import InternalError
    try:
        return FortLineLength(LIMIT).process(text)
    except InternalError:
        return None


def evaluate(sc, res):
    """-> (fails [(role, clause, detail)], glue_diffs [(role, detail)], stats)"""
    fails, glue = [], []
    stats = {"files": 0, "files_with_long_lines": 0}
    if res["rc"] != 0 or res["rc_ref"] != 0:
        return fails, glue, stats
    for role, unl in sorted(res["unlimited"].items()):
        limiting = sc["mode"] != "off" or role.startswith("kern/")
        lim = res["limited"].get(role)
        stats["files"] += 1
        ulines = unl.split("\n")
        has_long = any(len(l) > LIMIT for l in ulines)
        stats["files_with_long_lines"] += has_long
        if lim is None:
            fails.append((role, "emitted", "file emitted by the unlimited run is missing from the requested run"))
            continue
        if not limiting:
            continue
        llines = lim.split("\n")
        too = [l for l in llines if len(l) > LIMIT]
        if too:
            fails.append((role, "length", f"{len(too)} output line(s) longer than {LIMIT}, first has {len(too[0])}: {too[0][:80]!r}..."))
        a, b = spec.logical(ulines), spec.logical(llines)
        if a != b and not spec.unsafe_reasons(LIMIT, ulines):
            k = next((i for i, (x, y) in enumerate(zip(a, b)) if x != y), min(len(a), len(b)))
            fails.append((role, "same-program", f"logical lines differ from the unlimited output at item {k}: "
                          f"{a[k:k + 1]!r} vs {b[k:k + 1]!r}"))
        again = real_process(lim)
        if again != lim:
            fails.append((role, "idempotent", "applying FortLineLength(132).process to the emitted file changes it"
                          if again is not None else "re-applying the limiter raises InternalError"))
        expect = real_process(unl)
        if expect is not None and expect != lim:
            glue.append((role, "emitted text differs from FortLineLength(132).process(unlimited text)"))
    return fails, glue, stats


def payload(sc, role, clause, detail):
    return {"kind": "e2e", "scenario": sc, "output": role, "clause": clause, "observed": detail,
            "expected": f"every emitted file limited to {LIMIT} columns when `-l {sc['mode']}` is requested (always for "
                        "transformed kernels), with the logical lines of the unlimited output, and a fixed point of the limiter"}


def replay(p):
    sc = p["scenario"]
    res = run_scenario(sc)
    fails, glue, _ = evaluate(sc, res)
    print(f"scenario {sc['name']}: {sc['tool']} -api {sc['api']} -l {sc['mode']}  (exit {res['rc']}, reference exit {res['rc_ref']})")
    for role in sorted(res["limited"]):
        ls = res["limited"][role].split("\n")
        print(f"  emitted {role}: {len(ls)} lines, longest {max(map(len, ls))}")
    print("expected:", p.get("expected"))
    for role, clause, detail in fails:
        print(f"FAILED clause {clause} on {role}: {detail}")
    if not fails:
        print("property holds on every emitted file")
    want = p.get("clause")
    return 1 if any(c == want or want is None for _, c, _ in fails) else 0
