"""C24 — seeded generator of LFRic algorithm files and the structured description of each invoke.

An argument expression is a dict
  {"lit": bool, "canon": str, "root": str|None, "src": str, "dirconst": bool}
canon = the text parse/algorithm.py is expected to produce modulo white space (lower case, no blanks);
root  = the `varname` (name root used for the PSy-layer symbol) computed HERE, independently of
        parse.algorithm.create_var_name, from the structured form;
src   = what is written in the file (random case / blanks).
"""
import re

# (file, module, type) of bundled test kernels (src/psyclone/tests/test_files/dynamo0p3)
KERNELS = [
    ("testkern_mod.F90", "testkern_mod", "testkern_type"),
    ("testkern_one_int_scalar_mod.f90", "testkern_one_int_scalar_mod", "testkern_one_int_scalar_type"),
    ("testkern_two_int_scalars_mod.f90", "testkern_two_int_scalars_mod", "testkern_two_int_scalars_type"),
    ("testkern_stencil_mod.f90", "testkern_stencil_mod", "testkern_stencil_type"),
    ("testkern_stencil_xory1d_mod.f90", "testkern_stencil_xory1d_mod", "testkern_stencil_xory1d_type"),
    ("testkern_stencil_multi_mod.f90", "testkern_stencil_multi_mod", "testkern_stencil_multi_type"),
    ("testkern_qr_mod.F90", "testkern_qr_mod", "testkern_qr_type"),
    ("testkern_coord_w0_mod.f90", "testkern_coord_w0_mod", "testkern_coord_w0_type"),
    ("testkern_operator_mod.f90", "testkern_operator_mod", "testkern_operator_type"),
]
BUILTINS = ["setval_c", "setval_x", "x_plus_y", "inc_x_plus_y", "inc_ax_plus_y", "ax_plus_by",
            "inc_x_times_y", "a_times_x", "x_minus_y"]

# base names per kind (disjoint, so that every name has one declared type)
FIELD = ["f1", "f2", "f3", "f4", "m1", "m2", "g1", "g2"]
# names that clash with PSy-layer internals which PSyclone creates through the symbol table (handled by renaming).
# NOT generated: <arg>_proxy, map_<space>, ndf_<space>, undf_<space> — created without consulting the symbol
# table (known finding C24-psy-internal-name-clash, replayed separately).
FIELD_TRICKY = ["cell", "nlayers", "df", "f1_data", "f2_stencil_map",
                "f2_stencil_size", "loop0_start", "f1_1", "fa_1", "obj_f1", "mesh"]
FIELD_CLASH = ["f1_proxy", "map_w1", "ndf_w1", "undf_w2"]     # declared, never generated (known-finding witness)
FIELD_ARR = ["fa", "fb"]
VEC = ["chi", "vec"]
RSCAL = ["a", "b", "alpha"]
RSCAL_ARR = ["ra"]
ISCAL = ["n1", "n2", "depth", "istp"]
ISCAL_ARR = ["ia"]
DIRN = ["dirn", "dirn2"]
QR = ["qr", "qr2"]
QR_ARR = ["qra"]
OP = ["op1", "op2"]
CONT = ["obj", "self", "info"]          # scalar containers of derived type
CONT_ARR = ["objs"]
INDICES = ["1", "2", "3", "i", "i+1", "n", "1+i"]
RLITS = ["1.0_r_def", "0.5_r_def", "2.0", "-1.0_r_def", "0.0_r_def", "2.0_r_def*3.0_r_def"]
ILITS = ["1", "2", "3", "2_i_def"]


def var(canon, root):
    return {"lit": False, "dirconst": False, "canon": canon, "root": root, "src": canon}


def lit(text):
    return {"lit": True, "dirconst": False, "canon": text, "root": None, "src": text}


def _noisy_seg(rng, text, mode, keep_case):
    out = []
    for ch in text:
        c = ch
        if ch.isalpha() and not keep_case:
            if mode == "upper":
                c = ch.upper()
            elif mode == "mixed" and rng.random() < 0.4:
                c = ch.upper()
        if ch in "%()+*," and rng.random() < 0.35:
            c = rng.choice([" " + c, c + " ", " " + c + " "])
        out.append(c)
    return "".join(out)


def noisy(rng, text, literal=False, member_noise=False):
    """random case and blanks; does not change the Fortran meaning.  Literals keep their case (a kind suffix
    'r_deF' crashes the LFRic precision lookup); the NAME of a %-component keeps its case unless member_noise
    (PSyIR compares member names case-sensitively: finding C24-psyir-path-spelling-classes)."""
    mode = rng.choice(["same", "same", "upper", "mixed"])
    if literal:
        return _noisy_seg(rng, text, mode, True)
    segs = text.split("%")
    out = [_noisy_seg(rng, segs[0], mode, False)]
    for seg in segs[1:]:
        m = re.match(r"([a-z_]\w*)(.*)", seg)
        name, rest = (m.group(1), m.group(2)) if m else ("", seg)
        out.append(_noisy_seg(rng, name, mode, not member_noise) + _noisy_seg(rng, rest, mode, False))
    return rng.choice(["%", " %", "% ", " % "]).join(out)


def spelling_class(src):
    """key of the class of a written expression under PSyIR SymbolicMaths.equal: symbols and index expressions are
    case-insensitive (indices compared symbolically: i+1 == 1+i), member names after % are case-SENSITIVE."""
    t = re.sub(r"\s+", "", src)
    segs = t.split("%")

    def idx_norm(x):
        return re.sub(r"\((\d+)\+([a-z]\w*)\)", r"(\2+\1)", x.lower())
    out = [idx_norm(segs[0])]
    for seg in segs[1:]:
        m = re.match(r"([A-Za-z_]\w*)(.*)", seg)
        out.append(m.group(1) + idx_norm(m.group(2)))
    return "%".join(out)


class Pools:
    """Expression factory for one algorithm file (keeps the expressions already used so that
    repetitions across kernels / invokes are frequent)."""

    def __init__(self, rng, tricky=True, clash=False):
        self.rng = rng
        self.tricky = tricky
        self.clash = clash            # also produce names of PSy-layer internals made by string concatenation
        self.member_noise = rng.choice([0.0, 0.0, 0.0, 0.15])
        self.used = {}      # kind -> list of expressions already produced

    def _base(self, kind):
        r = self.rng
        if kind == "field":
            if self.clash and r.random() < 0.2:
                return r.choice(FIELD_CLASH), False
            if self.tricky and r.random() < 0.12:
                return r.choice(FIELD_TRICKY), False
            if r.random() < 0.25:
                return r.choice(FIELD_ARR), True
            return r.choice(FIELD), False
        if kind == "vec":
            return r.choice(VEC), False
        if kind == "rscalar":
            return (r.choice(RSCAL_ARR), True) if r.random() < 0.2 else (r.choice(RSCAL), False)
        if kind in ("iscalar", "extent"):
            return (r.choice(ISCAL_ARR), True) if r.random() < 0.25 else (r.choice(ISCAL), False)
        if kind == "direction":
            x = r.random()
            if x < 0.5:
                return r.choice(DIRN), False
            if x < 0.7:
                return r.choice(ISCAL_ARR), True
            return r.choice(ISCAL), False
        if kind == "qr":
            return (r.choice(QR_ARR), True) if r.random() < 0.25 else (r.choice(QR), False)
        if kind == "op":
            return r.choice(OP), False
        raise ValueError(kind)

    def fresh(self, kind):
        r = self.rng
        if kind == "direction" and r.random() < 0.3:
            d = r.choice(["x_direction", "y_direction"])
            return {"lit": False, "dirconst": True, "canon": d, "root": d, "src": d}
        if kind == "rscalar" and r.random() < 0.3:
            return lit(r.choice(RLITS))
        if kind in ("iscalar", "extent") and r.random() < 0.25:
            # a stencil extent literal with a kind suffix makes PSyclone abort with ValueError (int('2_i_def'))
            return lit(r.choice(ILITS if kind == "iscalar" else ILITS[:3]))
        base, is_arr = self._base(kind)
        leaf = base + ("(" + r.choice(INDICES) + ")" if is_arr else "")
        x = r.random()
        if x < 0.62:
            return var(leaf, base)
        if x < 0.85:                       # obj%leaf
            c = r.choice(CONT)
            return var(c + "%" + leaf, c + "_" + base)
        if x < 0.95:                       # objs(k)%leaf
            c = r.choice(CONT_ARR)
            return var(c + "(" + r.choice(["1", "2", "i"]) + ")%" + leaf, c + "_" + base)
        c, d = r.sample(CONT, 2)           # obj%self%leaf
        return var(c + "%" + d + "%" + leaf, c + "_" + d + "_" + base)

    def pick(self, kind, avoid=()):
        """an expression of the kind; repeats an earlier one with probability ~0.55"""
        r = self.rng
        foreign = {"extent": ["iscalar", "direction"], "iscalar": ["extent"], "direction": ["extent", "iscalar"]}
        for _ in range(8):
            src = r.choice(foreign[kind]) if kind in foreign and r.random() < 0.12 else kind
            pool = self.used.get(src, [])
            if pool and r.random() < 0.55:
                e = dict(r.choice(pool))
            else:
                e = self.fresh(kind)
            if kind == "direction" and e["lit"]:
                continue
            if kind != "direction" and e["dirconst"]:
                continue
            if kind == "extent" and e["lit"] and "_" in e["canon"]:
                continue
            if e["canon"] in avoid and r.random() < 0.995:
                continue
            break
        e = dict(e)
        e["src"] = noisy(r, e["canon"], literal=e["lit"], member_noise=r.random() < self.member_noise)
        e["cls"] = None if (e["lit"] or e["dirconst"]) else spelling_class(e["src"])
        if not e["dirconst"]:
            self.used.setdefault(kind, []).append(e)
        return e


def declared_names():
    decl = []
    decl.append("type(field_type) :: " + ", ".join(FIELD + FIELD_TRICKY + FIELD_CLASH + [n + "(4)" for n in FIELD_ARR]
                                                    + [n + "(3)" for n in VEC]))
    decl.append("real(r_def) :: " + ", ".join(RSCAL + [n + "(4)" for n in RSCAL_ARR]))
    decl.append("integer(i_def) :: " + ", ".join(ISCAL + DIRN + [n + "(4)" for n in ISCAL_ARR] + ["i", "n"]))
    decl.append("type(quadrature_xyoz_type) :: " + ", ".join(QR + [n + "(4)" for n in QR_ARR]))
    decl.append("type(operator_type) :: " + ", ".join(OP))
    decl.append("type(holder_type) :: " + ", ".join(CONT + [n + "(2)" for n in CONT_ARR]))
    return decl


def render_file(rng, invokes, unit="program"):
    """invokes: list of {"name": str|None, "name_src": str|None, "kernels": [{"kname","builtin","args":[expr]}]}"""
    mods = {}
    for inv in invokes:
        for k in inv["kernels"]:
            if not k["builtin"]:
                mods[k["module"]] = k["kname"]
    lines = []
    head = ["use constants_mod, only: i_def, r_def", "use field_mod, only: field_type",
            "use operator_mod, only: operator_type", "use quadrature_xyoz_mod, only: quadrature_xyoz_type",
            "use flux_direction_mod, only: x_direction, y_direction", "use holder_mod, only: holder_type"]
    head += [f"use {m}, only: {t}" for m, t in sorted(mods.items())]
    body = []
    for inv in invokes:
        parts = []
        for k in inv["kernels"]:
            kn = noisy(rng, k["kname"]) if k["builtin"] else k["kname"]
            parts.append(kn.replace(" ", "") + "(" + ", ".join(a["src"] for a in k["args"]) + ")")
        if inv["name"] is not None:
            parts.insert(rng.randint(0, len(parts)), inv["name_src"])
        body.append("call invoke( " + ", &\n       ".join(parts) + " )")
        if rng.random() < 0.3:
            body.append("call other_routine(f1, " + rng.choice(["f2", "depth"]) + ")")
    if unit == "program":
        lines.append("program alg_c24")
        lines += ["  " + h for h in head] + ["  implicit none"] + ["  " + d for d in declared_names()]
        lines += ["  " + b for b in body]
        lines.append("end program alg_c24")
    else:
        lines.append("module alg_c24_mod")
        lines += ["  " + h for h in head] + ["  implicit none", "contains", "  subroutine run_it()"]
        lines += ["    " + d for d in declared_names()] + ["    " + b for b in body]
        lines += ["  end subroutine run_it", "end module alg_c24_mod"]
    return "\n".join(lines) + "\n"


def norm(text):
    return re.sub(r"\s+", "", text).lower()
