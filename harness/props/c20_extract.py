"""C20 translator: live LFRic built-ins (lowered PSyIR + generated PSy-layer text), their metadata,
the DoF-loop bounds under the DM x annexed settings, and the formula blocks of
doc/user_guide/dynamo0p3.rst  ->  a small expression AST (nested lists), printed as Lean
(`Gen/Builtins.lean`, `Gen/BuiltinsThm.lean`) and as S-expressions for the model driver.

AST (expressions):  [fld i] [scal i] [lit n d] [add a b] [sub a b] [mul a b] [div a b] [pow a b]
                    [neg a] [abs a] [sign a b] [min a b] [max a b] [toInt a] [toReal a] [mod a b] [unk k]
     (code stmts):  [fassign t e] [sassign t e] [rand t]
     (doc stmts):   [arrayAssign t e] [sum t e] [randomFill t]
`i`/`t` are 0-based positions in the built-in's argument list (as documented and as called)."""
import os
import re
import tempfile
import zlib
from fractions import Fraction

import common

SETTINGS = [(False, False), (False, True), (True, False), (True, True)]   # (distributed_memory, annexed)
BIN = {"ADD": "add", "SUB": "sub", "MUL": "mul", "DIV": "div", "POW": "pow"}
INTR2 = {"SIGN": "sign", "MIN": "min", "MAX": "max", "MOD": "mod"}
INTR1 = {"ABS": "abs", "INT": "toInt", "REAL": "toReal"}


class Unsupported(Exception):
    pass


def _cfg():
    from psyclone.configuration import Config
    cfg = Config.get()
    cfg.api = "dynamo0.3"
    return cfg


def builtin_map():
    _cfg()
    from psyclone.domain.lfric import lfric_builtins as lb
    return lb.BUILTIN_MAP


# --------------------------------------------------------------------------- metadata
def metadata(cls):
    out = []
    for a in cls.metadata().meta_args:
        kind = "field" if type(a).__name__ == "FieldArgMetadata" else "scalar"
        out.append((kind, a.datatype.lower(), a.access.lower()))
    return out


def f90_metadata(repo=None):
    """name(lower) -> [(kind, dtype, access)] parsed (regex) from parse/lfric_builtins_mod.f90."""
    path = os.path.join(repo or common.REPO, "src", "psyclone", "parse", "lfric_builtins_mod.f90")
    text = open(path).read()
    out = {}
    for m in re.finditer(r"type,\s*public,\s*extends\(kernel_type\)\s*::\s*(\w+)(.*?)end type", text, re.S | re.I):
        args = []
        for a in re.finditer(r"arg_type\(\s*(GH_\w+)\s*,\s*(GH_\w+)\s*,\s*(GH_\w+)", m.group(2), re.I):
            args.append(("field" if a.group(1).upper() == "GH_FIELD" else "scalar", a.group(2).lower(), a.group(3).lower()))
        out[m.group(1).lower()] = args
    return out


# --------------------------------------------------------------------------- synthetic algorithm
def alg_source(names=None):
    decls, calls, order = set(), [], []
    for name, cls in builtin_map().items():
        if names is not None and name not in names:
            continue
        args, nf, ns = [], 0, 0
        for kind, dtype, _ in metadata(cls):
            if kind == "field":
                nf += 1
                v = ("f%d" if dtype == "gh_real" else "g%d") % nf
                decls.add(("type(field_type) :: " if dtype == "gh_real" else "type(integer_field_type) :: ") + v)
            else:
                ns += 1
                v = ("a%d" if dtype == "gh_real" else "n%d") % ns
                decls.add(("real(r_def) :: " if dtype == "gh_real" else "integer(i_def) :: ") + v)
            args.append(v)
        calls.append(f"  call invoke({cls._case_name}({', '.join(args)}))")
        order.append((name, cls._case_name, args))
    src = ("program c20_alg\n  use constants_mod, only: r_def, i_def\n  use field_mod, only: field_type\n"
           "  use integer_field_mod, only: integer_field_type\n  implicit none\n"
           + "".join(f"  {d}\n" for d in sorted(decls)) + "\n".join(calls) + "\nend program c20_alg\n")
    return src, order


class _ParseCache:
    """Within-run memo of fparser-one's parse of the (unchanged) built-in definition file: the real
    BuiltInKernelTypeFactory re-parses it once per built-in call (68 x ~0.3 s)."""

    def __enter__(self):
        from fparser import api as fpapi
        self.fpapi, self.orig, memo = fpapi, fpapi.parse, {}

        def cached(fname, *a, **k):
            key = (fname, a, tuple(sorted(k.items())))
            if key not in memo:
                memo[key] = self.orig(fname, *a, **k)
            return memo[key]
        fpapi.parse = cached
        return self

    def __exit__(self, *a):
        self.fpapi.parse = self.orig


_ALG = {}
LAST_GEN = {}      # full PSy-layer module text of the last build() (used by the OpenMP execution oracle)


def parsed_algorithm(names=None, cache=True):
    key = (tuple(sorted(names)) if names is not None else None)
    if key in _ALG:
        return _ALG[key]
    _cfg()
    from psyclone.parse.algorithm import parse
    src, order = alg_source(names)
    with tempfile.TemporaryDirectory(prefix="c20_") as d:
        path = os.path.join(d, "c20_alg.f90")
        with open(path, "w") as f:
            f.write(src)
        if cache:
            with _ParseCache():
                _, info = parse(path, api="dynamo0.3")
        else:
            _, info = parse(path, api="dynamo0.3")
    _ALG[key] = (info, order, src)
    return _ALG[key]


# --------------------------------------------------------------------------- PSyIR -> AST
def lit_ast(text):
    t = text.strip().lower()
    t = re.sub(r"_\w+$", "", t).replace("d", "e")
    fr = Fraction(t)
    return ["lit", fr.numerator, fr.denominator]


def export_expr(node, fmap, smap, dfname):
    from psyclone.psyir.nodes import (BinaryOperation, UnaryOperation, IntrinsicCall, Literal, Reference,
                                      ArrayReference)
    rec = lambda n: export_expr(n, fmap, smap, dfname)   # noqa: E731
    if isinstance(node, ArrayReference):
        idx = node.indices
        if node.symbol.name in fmap and len(idx) == 1 and type(idx[0]) is Reference and idx[0].symbol.name == dfname:
            return ["fld", fmap[node.symbol.name]]
        raise Unsupported("array reference " + node.debug_string().strip())
    if isinstance(node, Literal):
        return lit_ast(node.value)
    if isinstance(node, BinaryOperation):
        op = BIN.get(node.operator.name)
        if op is None:
            raise Unsupported("operator " + node.operator.name)
        return [op, rec(node.children[0]), rec(node.children[1])]
    if isinstance(node, UnaryOperation):
        if node.operator.name == "MINUS":
            return ["neg", rec(node.children[0])]
        if node.operator.name == "PLUS":
            return rec(node.children[0])
        raise Unsupported("unary " + node.operator.name)
    if isinstance(node, IntrinsicCall):
        name = node.intrinsic.name
        args = [a for a, n in zip(node.arguments, node.argument_names) if n is None or n.lower() != "kind"]
        if name in INTR1 and len(args) == 1:
            return [INTR1[name], rec(args[0])]
        if name in INTR2 and len(args) >= 2 and (len(args) == 2 or name in ("MIN", "MAX")):
            out = [INTR2[name], rec(args[0]), rec(args[1])]
            for a in args[2:]:
                out = [INTR2[name], out, rec(a)]
            return out
        raise Unsupported("intrinsic " + name)
    if type(node) is Reference:
        if node.symbol.name in smap:
            return ["scal", smap[node.symbol.name]]
        raise Unsupported("reference " + node.symbol.name)
    raise Unsupported(type(node).__name__)


def unk(what):
    return ["unk", zlib.crc32(what.encode()) % 100000]


def export_stmt(stmt, fmap, smap, dfname):
    from psyclone.psyir.nodes import Assignment, IntrinsicCall, ArrayReference, Reference
    try:
        if isinstance(stmt, Assignment):
            rhs = export_expr(stmt.rhs, fmap, smap, dfname)
            lhs = stmt.lhs
            if isinstance(lhs, ArrayReference):
                l = export_expr(lhs, fmap, smap, dfname)
                return ["fassign", l[1], rhs]
            if type(lhs) is Reference and lhs.symbol.name in smap:
                return ["sassign", smap[lhs.symbol.name], rhs]
            raise Unsupported("lhs " + lhs.debug_string().strip())
        if isinstance(stmt, IntrinsicCall) and stmt.intrinsic.name == "RANDOM_NUMBER" and len(stmt.arguments) == 1:
            l = export_expr(stmt.arguments[0], fmap, smap, dfname)
            return ["rand", l[1]]
        raise Unsupported(type(stmt).__name__)
    except Unsupported as e:
        return ["fassign", 99, unk(str(e))]


def classify_bound(text):
    t = text.strip().lower().replace(" ", "")
    if re.fullmatch(r"undf_\w+", t):
        return ["undf"]
    if t.endswith("%get_last_dof_owned()"):
        return ["owned"]
    if t.endswith("%get_last_dof_annexed()"):
        return ["annexed"]
    m = re.search(r"%get_last_dof_halo\((\d*)\)$", t)
    if m:
        return ["halo", int(m.group(1) or 0)]
    try:
        return ["const", int(t)]
    except ValueError:
        return ["other", zlib.crc32(t.encode()) % 100000]


def _norm_f(s):
    return re.sub(r"\s+", "", s).lower()


def build(dm, annexed, names=None, cache=True, omp=None):
    """Generate the PSy layer of the synthetic one-built-in invokes under one setting and export, per
    built-in: the lowered loop body, the loop bounds as they appear in the generated Fortran text,
    the zero-initialisation of a reduction variable, what follows the loop.  `omp`: None, "paralleldo",
    "do" (OMPParallelTrans + Dynamo0p3OMPLoopTrans) or "do-reprod"."""
    cfg = _cfg()
    from psyclone.psyGen import PSyFactory
    from psyclone.domain.lfric import LFRicLoop, LFRicConstants
    from psyclone.domain.lfric.lfric_builtins import LFRicBuiltIn
    from psyclone.psyir.nodes import Loop, Directive
    from psyclone.psyir.backend.fortran import FortranWriter
    info, order, _ = parsed_algorithm(names, cache)
    lconf = cfg.api_conf("lfric")
    old = (cfg.distributed_memory, lconf._compute_annexed_dofs)
    cfg.distributed_memory = dm
    lconf._compute_annexed_dofs = annexed
    try:
        psy = PSyFactory("dynamo0.3", distributed_memory=dm).create(info)
        invokes = psy.invokes.invoke_list
        if len(invokes) != len(order):
            raise common.Infra(f"C20: {len(invokes)} invokes for {len(order)} built-ins")
        recs, pre = [], []
        suffix = LFRicConstants().ARG_TYPE_SUFFIX_MAPPING
        for inv, (lname, cname, argnames) in zip(invokes, order):
            sched = inv.schedule
            kerns = sched.walk(LFRicBuiltIn)
            loops = sched.walk(LFRicLoop)
            if len(kerns) != 1 or len(loops) != 1:
                raise common.Infra(f"C20: invoke of {cname} has {len(kerns)} built-ins / {len(loops)} loops")
            kern, loop = kerns[0], loops[0]
            table = sched.symbol_table
            fmap, smap = {}, {}
            for pos, arg in enumerate(kern.args):
                if arg.is_field:
                    fmap[table.lookup_with_tag(f"{arg.name}:{suffix[arg.argument_type]}").name] = pos
                elif arg.is_scalar and arg.name:
                    smap[arg.name] = pos
            if omp:
                _apply_omp(sched, loop, kern, omp)
            pre.append({"name": lname, "case_name": cname, "args": argnames, "fmap": fmap, "smap": smap,
                        "ub_name": loop.upper_bound_name, "ub_fortran": loop._upper_bound_fortran(),
                        "lb_fortran": loop._lower_bound_fortran(), "is_reduction": bool(kern.is_reduction),
                        "dfname": kern.get_dof_loop_index_symbol().name,
                        "schedule_kinds": [type(c).__name__ for c in sched.children]})
        code_text = str(psy.gen)
        LAST_GEN["text"] = code_text
        LAST_GEN["order"] = order
        subs = dict((m.group(1).lower(), m.group(0)) for m in
                    re.finditer(r"SUBROUTINE (\w+)\(.*?END SUBROUTINE \1", code_text, re.S))
        fw = FortranWriter()
        for inv, p in zip(invokes, pre):
            sched = inv.schedule
            if omp:
                # PSyIR lowering of OpenMP directives around a reduction is not supported by this PSyclone
                # version (the f2pygen path generates them): lower the built-in itself only.
                for k in sched.walk(LFRicBuiltIn):
                    k.lower_to_language_level()
            else:
                sched.lower_to_language_level()
            loops = sched.walk(Loop)
            rec = dict(p)
            rec["setting"] = [dm, annexed]
            if len(loops) != 1 or len(loops[0].loop_body.children) != 1:
                rec["body"] = ["fassign", 99, unk("loop shape")]
                rec["body_fortran"] = ""
            else:
                stmt = loops[0].loop_body.children[0]
                rec["body"] = export_stmt(stmt, p["fmap"], p["smap"], p["dfname"])
                rec["body_fortran"] = fw._visit(stmt).strip().splitlines()[-1].strip()
                if not omp:
                    rec["loop_var"] = loops[0].variable.name
                    rec["step"] = fw(loops[0].step_expr).strip()
            rec["directives"] = [type(d).__name__ for d in sched.walk(Directive)]
            text = subs.get(inv.name.lower(), "")
            rec.update(_from_text(text, p, rec))
            del rec["fmap"], rec["smap"]
            recs.append(rec)
        return recs
    finally:
        cfg.distributed_memory, lconf._compute_annexed_dofs = old


def _apply_omp(sched, loop, kern, mode):
    """mode: "paralleldo" | "do" | "do-reprod", or a pair (mode, omp_schedule)."""
    from psyclone.transformations import DynamoOMPParallelLoopTrans, Dynamo0p3OMPLoopTrans, OMPParallelTrans
    schedule = "static"
    if isinstance(mode, (tuple, list)):
        mode, schedule = mode
    if mode == "paralleldo":
        DynamoOMPParallelLoopTrans(omp_schedule=schedule).apply(loop)
    else:
        Dynamo0p3OMPLoopTrans(omp_schedule=schedule).apply(loop, {"reprod": mode == "do-reprod"})
        OMPParallelTrans().apply(loop.parent.parent)


def _from_text(text, p, rec):
    """Loop bounds / zero-initialisation / loop body as written in the generated PSy-layer subroutine."""
    out = {"text_ok": False}
    lines = [l.strip() for l in text.splitlines()]
    code = [l for l in lines if l and not l.startswith("!")]
    m_lo = [re.fullmatch(r"loop0_start = (.*)", l) for l in code]
    m_hi = [re.fullmatch(r"loop0_stop = (.*)", l) for l in code]
    lo = [m.group(1) for m in m_lo if m]
    hi = [m.group(1) for m in m_hi if m]
    out["lo_text"] = lo[0] if len(lo) == 1 else None
    out["ub_text"] = hi[0] if len(hi) == 1 else None
    out["lo"] = classify_bound(lo[0]) if len(lo) == 1 else ["other", 0]
    out["ub"] = classify_bound(hi[0]) if len(hi) == 1 else ["other", 0]
    dos = [i for i, l in enumerate(code) if re.match(r"DO \w+\s*=", l)]
    ends = [i for i, l in enumerate(code) if l == "END DO"]
    out["do_lines"] = [code[i] for i in dos]
    body = []
    if dos and ends:
        body = [l for l in code[dos[0] + 1:ends[0]] if not l.startswith("!$")]
    out["body_text"] = body
    # zero-initialisation of scalar arguments before the loop
    init = []
    for l in code[:dos[0]] if dos else []:
        m = re.fullmatch(r"(\w+) = ([-+0-9.eEdD]+(?:_\w+)?)", l)
        if m and m.group(1) in p["smap"]:
            init.append(["sassign", p["smap"][m.group(1)], lit_ast(m.group(2))])
            out.setdefault("init_text", []).append(l)
    out["init"] = init
    out["after_loop"] = [l for l in code[ends[-1] + 1:] if not l.startswith("END SUBROUTINE")
                         and not l.startswith("!$")] if ends else []
    out["omp_lines"] = [l for l in lines if l.startswith("!$omp")]
    # the OpenMP directives that enclose the DoF loop (everything opened and not closed before the DO)
    first_do = next((i for i, l in enumerate(lines) if re.match(r"DO \w+\s*=", l)), len(lines))
    out["omp_enclosing"] = [l for l in lines[:first_do] if l.startswith("!$omp") and not l.startswith("!$omp end")]
    out["region_text"] = text
    out["code_lines"] = code
    shape_ok = (len(dos) == 1 and len(ends) == 1 and len(body) == 1
                and _norm_f(code[dos[0]]) == _norm_f(f"DO {p['dfname']} = loop0_start, loop0_stop, 1")
                and _norm_f(body[0]) == _norm_f(rec.get("body_fortran", "")))
    out["text_ok"] = bool(shape_ok)
    return out


# --------------------------------------------------------------------------- documentation
def doc_sections(repo=None):
    """name(lower) -> {"title", "signature", "args" [(name, bold)], "formula" [lines]} from the rst."""
    path = os.path.join(repo or common.REPO, "doc", "user_guide", "dynamo0p3.rst")
    t = open(path).read().splitlines()
    try:
        i0 = next(i for i, l in enumerate(t) if l.startswith(".. _lfric-built-ins-real:"))
    except StopIteration:
        raise common.Infra("C20: label lfric-built-ins-real not found in dynamo0p3.rst")
    i1 = next((i for i, l in enumerate(t) if i > i0 and l.startswith("Boundary Conditions")), len(t))
    heads = [(t[i].strip(), i) for i in range(i0, i1 - 1)
             if t[i].strip() and re.fullmatch(r"\^{3,}", t[i + 1].strip())]
    heads.append(("", i1))
    out = {}
    for (name, s), (_, e) in zip(heads, heads[1:]):
        body = t[s + 2:e]
        for k in range(len(body) - 1):
            if body[k].strip() and re.fullmatch(r"[#+=\-~]{3,}", body[k + 1].strip()):
                body = body[:k]
                break
        sig = next((l.strip() for l in body if l.startswith("**" + name + "**")), None)
        args = []
        if sig:
            inner = sig[sig.index("(") + 1: sig.rindex(")")]
            for a in inner.split(","):
                a = a.strip()
                args.append((a.strip("*"), a.startswith("**")))
        blocks, k = [], 0
        while k < len(body):
            if body[k].rstrip().endswith("::"):
                k += 1
                blk = []
                while k < len(body) and (not body[k].strip() or body[k].startswith(" ")):
                    if body[k].strip():
                        blk.append(body[k].strip())
                    k += 1
                blocks.append(blk)
            else:
                k += 1
        out[name.lower()] = {"title": name, "signature": sig, "args": args,
                             "formula": blocks[0] if blocks else None, "nblocks": len(blocks)}
    return out


TOK = re.compile(r"\s*(\*\*|\(:\)|kind\s*=\s*\w+<\w+>|kind\s*=\s*\w+|\d+\.\d*(?:[eEdD][-+]?\d+)?(?:_\w+)?|\d+(?:_\w+)?|\w+|[-+*/(),=])")


def _tokens(s):
    out, pos = [], 0
    s = s.strip()
    while pos < len(s):
        m = TOK.match(s, pos)
        if not m:
            raise Unsupported("doc token at: " + s[pos:])
        out.append(m.group(1))
        pos = m.end()
    return out


class _P:
    """Recursive descent over Fortran operator precedence: ** (right) > * / > unary - > + -."""

    def __init__(self, toks, names):
        self.t, self.i, self.names = toks, 0, names

    def peek(self):
        return self.t[self.i] if self.i < len(self.t) else None

    def eat(self, x=None):
        tok = self.peek()
        if tok is None or (x is not None and tok != x):
            raise Unsupported(f"doc: expected {x} got {tok}")
        self.i += 1
        return tok

    def expr(self):
        if self.peek() in ("-", "+"):
            op = self.eat()
            left = self.term()
            if op == "-":
                left = ["neg", left]
        else:
            left = self.term()
        while self.peek() in ("+", "-"):
            op = self.eat()
            right = self.term()
            left = ["add" if op == "+" else "sub", left, right]
        return left

    def term(self):
        left = self.factor()
        while self.peek() in ("*", "/"):
            op = self.eat()
            right = self.factor()
            left = ["mul" if op == "*" else "div", left, right]
        return left

    def factor(self):
        base = self.primary()
        if self.peek() == "**":
            self.eat()
            if self.peek() == "-":
                self.eat()
                return ["pow", base, ["neg", self.factor()]]
            return ["pow", base, self.factor()]
        return base

    def primary(self):
        tok = self.eat()
        if tok == "(":
            e = self.expr()
            self.eat(")")
            return e
        if re.match(r"\d", tok):
            return lit_ast(tok)
        up = tok.upper()
        if tok in self.names:
            pos, is_field = self.names[tok]
            if self.peek() == "(:)":
                self.eat()
                if not is_field:
                    raise Unsupported("doc: (:) on scalar " + tok)
                return ["fld", pos]
            if self.peek() == "(" and self.t[self.i + 1:self.i + 3] == ["df", ")"]:
                self.i += 3
                return ["fld", pos]
            if is_field:
                raise Unsupported("doc: whole field without (:) " + tok)
            return ["scal", pos]
        if self.peek() == "(" and (up in INTR1 or up in INTR2):
            self.eat("(")
            args = [self.expr()]
            while self.peek() == ",":
                self.eat()
                if self.peek() and self.peek().startswith("kind"):
                    self.eat()
                    continue
                args.append(self.expr())
            self.eat(")")
            if up in INTR1 and len(args) == 1:
                return [INTR1[up], args[0]]
            if up in INTR2 and len(args) >= 2:
                out = [INTR2[up], args[0], args[1]]
                for a in args[2:]:
                    out = [INTR2[up], out, a]
                return out
        raise Unsupported("doc: unknown name " + tok)


def parse_doc(section, meta):
    """Formula block -> doc stmt AST, argument names resolved to positions by the signature line."""
    if not section or not section.get("formula") or not section.get("args"):
        return ["arrayAssign", 98, unk("no formula")]
    names = {}
    for pos, (n, _) in enumerate(section["args"]):
        is_field = meta[pos][0] == "field" if pos < len(meta) else n.lstrip("i").startswith("field")
        names[n] = (pos, is_field)
    lines = section["formula"]
    try:
        if len(lines) == 3 and re.fullmatch(r"do df = 1, ndofs", lines[0]) and lines[2] == "end do":
            m = re.fullmatch(r"(\w+)\(df\) = RAND\(\)", lines[1])
            if m and m.group(1) in names:
                return ["randomFill", names[m.group(1)][0]]
            raise Unsupported("doc loop form")
        if len(lines) != 1:
            raise Unsupported("doc: multi-line formula")
        toks = _tokens(lines[0])
        eq = toks.index("=")
        lhs, rhs = toks[:eq], toks[eq + 1:]
        if len(lhs) == 2 and lhs[1] == "(:)" and lhs[0] in names and names[lhs[0]][1]:
            p = _P(rhs, names)
            e = p.expr()
            if p.peek() is not None:
                raise Unsupported("doc: trailing tokens")
            return ["arrayAssign", names[lhs[0]][0], e]
        if len(lhs) == 1 and lhs[0] in names and not names[lhs[0]][1] and rhs[:2] == ["SUM", "("] and rhs[-1] == ")":
            p = _P(rhs[2:-1], names)
            e = p.expr()
            if p.peek() is not None:
                raise Unsupported("doc: trailing tokens")
            return ["sum", names[lhs[0]][0], e]
        raise Unsupported("doc: statement form")
    except (Unsupported, ValueError, IndexError) as e:
        return ["arrayAssign", 98, unk(str(e))]


# --------------------------------------------------------------------------- printers
def lean_expr(e):
    k = e[0]
    if k in ("fld", "scal", "unk"):
        return f"(.{k} {e[1]})"
    if k == "lit":
        return f"(.lit ({e[1]}) {e[2]})"
    return "(." + k + " " + " ".join(lean_expr(x) for x in e[1:]) + ")"


def lean_stmt(s):
    if s[0] in ("rand", "randomFill"):
        return f"(.{s[0]} {s[1]})"
    return f"(.{s[0]} {s[1]} {lean_expr(s[2])})"


def lean_bound(b):
    return "." + b[0] + ("" if len(b) == 1 else f" {b[1]}")


def pretty(e):
    k = e[0]
    if k == "fld":
        return f"x{e[1]}(df)"
    if k == "scal":
        return f"s{e[1]}"
    if k == "unk":
        return f"?{e[1]}"
    if k == "lit":
        return str(Fraction(e[1], e[2]))
    sym = {"add": "+", "sub": "-", "mul": "*", "div": "/", "pow": "**"}
    if k in sym:
        return f"({pretty(e[1])} {sym[k]} {pretty(e[2])})"
    if k == "neg":
        return f"(-{pretty(e[1])})"
    return k.upper() + "(" + ", ".join(pretty(x) for x in e[1:]) + ")"


def pretty_stmt(s):
    if s[0] == "rand":
        return f"call random_number(x{s[1]}(df))"
    if s[0] == "randomFill":
        return f"x{s[1]}(1:n) = RAND()"
    if s[0] == "fassign":
        return f"x{s[1]}(df) = {pretty(s[2])}"
    if s[0] == "sassign":
        return f"s{s[1]} = {pretty(s[2])}"
    if s[0] == "arrayAssign":
        return f"x{s[1]}(1:n) = {pretty(s[2])}"
    return f"s{s[1]} = SUM_df {pretty(s[2])}"
