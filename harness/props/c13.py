"""C13 — clause lists of the real ACCDataTrans (parsed from the lowered `!$acc data`
directive; accept/refuse too) vs. the Lean model RegionData.accDataTrans / clauses, on all
consecutive-statement regions of generated routines; plus the property itself: the region is
run by the model of separate device memory (RegionData.execACC, fresh device memory filled
with junk) with the REAL clause lists and the host arrays are compared with host execution."""
import glob
import json
import os
import time

import common
import minif
from common import driver
from props import c12_region as R

JUNK = (777777, -424242)


def cases(chk):
    for path in sorted(glob.glob(os.path.join(common.ROOT, "corpus", "C13", "*.json"))):
        c = json.load(open(path))
        yield c["source"], c["n_init"], "corpus"
    for src, n_init in R.call_matrix():
        yield src, n_init, "callmatrix"
    n = 220 if chk.tier == "thorough" else 28
    for _ in range(n):
        module = chk.rng.random() < 0.25
        prog = R.gen_program(chk.rng, chk.rng.randint(3, 6), codeblocks=not module and chk.rng.random() < 0.2,
                             struct=not module and chk.rng.random() < 0.3, calls=chk.rng.random() < 0.2,
                             module=module)
        body = list(prog.body)
        x = chk.rng.random()
        origin = "gen"
        if x < 0.2:          # malformed stream: an excluded node type inside some regions
            tops = [n for n, l in enumerate(body) if not l.startswith("    ")]
            body.insert(chk.rng.choice(tops + [len(body)]), f"  print *, {prog.scalars[0]}")
            origin = "gen+codeblock"
        elif x < 0.3 and not module:
            body.append(f"  if ({prog.scalars[0]} > 50) return")
            origin = "gen+return"
        yield R.source_of(prog, body), R.n_init_nodes(prog), origin


def prepare(parsed, i, j, enter_data=False):
    nodes = parsed.region_nodes(i, j)
    real = R.real_acc_clauses(parsed, i, j, enter_data=enter_data)
    executable = not R.non_minif(nodes, parsed.names)
    items = R.item_sexps(parsed, nodes) if executable else R.access_items(parsed, nodes)
    excluded = any(it[0] == "x" for it in items)
    lines = [R.line("trans", 1 if enter_data else 0, parsed.parent_pairs(), items)]
    ctx = {"parsed": parsed, "i": i, "j": j, "enter": enter_data, "real": real, "excluded": excluded, "nexec": 0}
    if not excluded and nodes:
        region = parsed.export(nodes, access_only=not executable)
        lines.append(R.line("clauses", region))
        if isinstance(real, dict) and executable:
            try:
                prefix = parsed.prefix(i)
            except minif.Unsupported:
                prefix = None
            if prefix is not None:
                _, flat = parsed.queries()
                cl = [[parsed.vid(n) for n in real[k]] for k in ("copyin", "copyout", "copy")]
                for g in JUNK:
                    lines.append(R.line("execacc", prefix, region, cl[0], cl[1], cl[2], g, [list(c) for c in flat]))
                ctx["nexec"] = len(JUNK)
    return ctx, lines


def conclude(ctx, out):
    parsed, real = ctx["parsed"], ctx["real"]
    id2n = {v: k for k, v in parsed.names.table().items()}
    if out[0] == "refuse":
        model = "refuse"
    else:
        m = common.parse_sx(out[0])
        model = {k: sorted(id2n[x] for x in m[n]) for n, k in enumerate(("copyin", "copyout", "copy"))}
    res = {"real": real, "model": model, "fwor": None, "cnr": None, "ccov": None, "fails": [], "differing": []}
    if len(out) > 1:
        m = common.parse_sx(out[1])
        res["fwor"], res["cnr"], res["ccov"] = m[3] == 1, m[4] == 1, m[5] == 1
        if m[6] != 1 and ctx["nexec"]:
            raise common.Infra("exported region violates RegionData.covered (harness bug)")
    per, _ = parsed.queries()
    if not isinstance(real, dict):
        return res
    for g, o in zip(JUNK, out[2:2 + ctx["nexec"]]):
        acc, host = [R.split_values(per, v) for v in common.parse_sx(o)]
        named = set(sum(real.values(), []))
        for n, cs in per:
            if (parsed.rank[n] > 0 or n in named) and acc[n] != host[n] and n not in res["differing"]:
                k = next(k for k in range(len(cs)) if acc[n][k] != host[n][k])
                res["differing"].append(n)
                res["fails"].append(("host-array-differs", {"variable": n, "cell": list(cs[k][1:]),
                                                            "after_data_region": acc[n][k], "after_host_execution": host[n][k],
                                                            "device_junk": g}))
    return res


def check_region(parsed, i, j, enter_data=False):
    ctx, lines = prepare(parsed, i, j, enter_data)
    return conclude(ctx, driver("C13", lines))


def classify(res):
    if not res["fails"]:
        return None
    if res["real"] != res["model"] or not isinstance(res["real"], dict):
        return None
    if res["fwor"] or not res["real"]["copyout"]:
        return None                                   # C13_partial says this cannot happen
    if res["ccov"] and any(n not in res["real"]["copyout"] for n in res["differing"]):
        return None                                   # C13_deviation_covered_partial says this cannot happen
    return "C13-partial-write-copyout"


def run(chk):
    chk.cov["rule"] = ("every consecutive-statement region of the body of seeded MiniF routines (as C12), 30% of the "
                       "routines with an excluded node type (print CodeBlock / Return) at the top level, 20% with expression / "
                       "FORALL CodeBlocks, DO WHILE loops (8% of statements), 30% with structure members (parents added to "
                       "the clauses for the deep copy), 20% with calls of unknown intent and 25% module routines calling pure / "
                       "impure subroutines of the same module with keyword actuals (callee inlined: clauses AND execution), "
                       "element write directly followed by a call passing the same array, the systematic R.call_matrix() family, "
                       "dependent loop bounds, same-element write-then-read pairs, some regions retried "
                       "with an `enter data` directive in the routine, one empty region; non-trivial = accepted region "
                       "touching >=2 arrays, or a refusal; distinct by (source, region, enter_data)")
    chk.assumptions += [
        "MiniF subset; every array reference is indexed (no whole-array assignments, so no array is ever wholly "
        "written by a region)",
        "device model (RegionData.execACC): the whole region runs on the device store; fresh device memory holds junk "
        "(theorems: for every junk content; harness: two junk fills, different in every cell); copyin/copy at entry, "
        "copyout/copy at exit copy whole arrays; scalars in no clause are shared between host and device "
        "(outside the claim, as in the statement)",
        "gfortran's OpenACC without an offload target executes on the host with shared memory and therefore cannot "
        "exhibit missing or wrong data movement: it is NOT used as an oracle here"]
    chk.cov["trusted_base"] = ["Lean 4.33.0 kernel", "axioms propext/Classical.choice/Quot.sound only (audited)",
                               "MiniF semantics + PSyIR->MiniF exporter (harness/minif.py)",
                               "operational model of OpenACC data clauses RegionData.execACC",
                               "correspondence harness harness/props/c13.py, c12_region.py"]
    from psyclone.psyir.nodes import WhileLoop
    t0 = time.time()
    chk.lean()
    chk.cov["lean_build_audit_s"] = round(time.time() - t0, 1)
    dist = {"regions": 0, "programs": 0, "accepted": 0, "refused": 0, "model_agrees": 0, "FullyWrittenOrRead": 0,
            "CopyoutNotRead": 0, "CopyoutCovered": 0, "executed": 0, "failing_known": 0, "skipped_unsupported": 0, "regions_with_while": 0}
    todo, lines = [], []
    first = True
    for src, n_init, origin in cases(chk):
        parsed = R.Parsed(src, n_init)
        dist["programs"] += 1
        nb = len(parsed.body)
        regions = [(i, j, False) for i in range(nb) for j in range(i + 1, nb + 1)
                   if origin != "callmatrix" or (i, j) in ((1, 2), (0, 3))]
        if first:
            regions.append((0, 0, False))
            first = False
        if chk.rng.random() < 0.25 and nb:
            i = chk.rng.randrange(nb)
            regions.append((i, chk.rng.randint(i + 1, nb), True))
        for i, j, enter in regions:
            try:
                ctx, ls = prepare(parsed, i, j, enter)
            except (minif.Unsupported, NotImplementedError):
                dist["skipped_unsupported"] += 1
                continue
            ctx["at"] = len(lines)
            ctx["n"] = len(ls)
            todo.append(ctx)
            lines += ls
    t1 = time.time()
    outs = driver("C13", lines)
    chk.cov["driver_s"] = round(time.time() - t1, 1)
    reported = 0
    for ctx in todo:
        res = conclude(ctx, outs[ctx["at"]:ctx["at"] + ctx["n"]])
        case = {"source": ctx["parsed"].src, "n_init": ctx["parsed"].n_init, "region": [ctx["i"], ctx["j"]],
                "enter_data": ctx["enter"]}
        dist["regions"] += 1
        agreed = res["real"] == res["model"]
        dist["model_agrees"] += agreed
        dist["accepted" if isinstance(res["real"], dict) else "refused"] += 1
        dist["FullyWrittenOrRead"] += bool(res["fwor"])
        dist["CopyoutNotRead"] += bool(res["cnr"])
        dist["CopyoutCovered"] += bool(res["ccov"])
        dist["executed"] += ctx["nexec"] > 0
        dist["regions_with_while"] += any(n.walk(WhileLoop) for n in ctx["parsed"].region_nodes(ctx["i"], ctx["j"]))
        nontriv = not isinstance(res["real"], dict) or len(set(sum(res["real"].values(), []))) >= 2
        chk.case(dict(case, real=res["real"]), nontrivial=nontriv, agreed=agreed)
        if res["fails"]:
            if classify(res):
                dist["failing_known"] += 1
            elif reported < 3:
                reported += 1
                chk.violation(dict(case, kind="host-array-differs", observed=res["fails"], real_clauses=res["real"],
                                   model_clauses=res["model"],
                                   expected="host arrays after the data region (separate device memory, real clauses) "
                                            "equal host arrays after host execution, for any content of fresh device memory"))
        if not agreed and len(chk.broken) < 5:
            chk.correspondence_broken("ACCDataTrans clauses / refusal differ from RegionData.accDataTrans", case,
                                      res["model"], res["real"])
    chk.cov["distribution"] = dist
    for e in common.known_findings("C13"):
        w = e["witness"]
        res = check_region(R.Parsed(w["source"], w["n_init"]), *w["region"])
        if res["fails"] and classify(res) == e["id"]:
            chk.known(e["what"])


def replay(payload):
    parsed = R.Parsed(payload["source"], payload["n_init"])
    i, j = payload["region"]
    res = check_region(parsed, i, j, payload.get("enter_data", False))
    print(payload["source"])
    print("region: body statements", [i, j])
    print("real clauses:", res["real"], " model:", res["model"])
    print("expected:", payload.get("expected", ""))
    print("observed failures:", res["fails"] or "none")
    kf = classify(res)
    if res["fails"] and kf:
        print("(belongs to known finding", kf + ")")
    return 1 if res["fails"] and not kf else 0
