"""C18: Python re-implementation of the Lean specification `C18.logical` (Model/LineLen.lean) and of the
side condition `C18.safeLine`; used to evaluate the property on the real output of FortLineLength.process.
It is compared against the Lean definition through the model driver on every case."""

WS = set(range(9, 14)) | set(range(28, 33))


def is_ws(c):
    return ord(c) in WS


def lstrip(s):
    i = 0
    while i < len(s) and is_ws(s[i]):
        i += 1
    return s[i:]


def lower(s):
    return "".join(chr(ord(c) + 32) if "A" <= c <= "Z" else c for c in s)


def scan(q, s):
    """-> (code part, commentary or None, end quote state); q = '' outside character context"""
    for i, c in enumerate(s):
        if q == "":
            if c == "!":
                return s[:i], s[i:], ""
            if c in "'\"":
                q = c
        elif c == q:
            q = ""
    return s, None, q


def split_cont(b):
    j = len(b)
    while j > 0 and is_ws(b[j - 1]):
        j -= 1
    if j > 0 and b[j - 1] == "&":
        return b[:j - 1]
    return None


def cut_bang(s):
    i = s.find("!")
    return (s, None) if i < 0 else (s[:i], s[i:])


PUNCT = ",()="


def word_ch(c):
    return not is_ws(c) and c not in PUNCT


def joins(cur, c):
    return (cur != "" and all(word_ch(x) for x in cur) and word_ch(c)) or (cur == "=" and c in "=>")


def flush_tok(s):
    toks, cur = s
    return toks if cur == "" else toks + [cur]


def lex_feed(s, text):
    toks, cur = s
    for c in text:
        if is_ws(c):
            toks, cur = flush_tok((toks, cur)), ""
        elif joins(cur, c):
            cur += c
        else:
            toks, cur = flush_tok((toks, cur)), c
    return (toks, cur)


def classify(l):
    s = lstrip(l)
    if s == "":
        return 0
    if s[0] == "!":
        low = lower(s)
        if low.startswith("!$omp"):
            return 1
        if low.startswith("!$acc"):
            return 2
        return 3
    return 4


def flush_aux(aux):
    if aux is None:
        return []
    if aux[0] == "com":
        return [("c", aux[1])]
    return [("d", aux[1], tuple(flush_tok(aux[2])))]


def opt_comment(c):
    return [] if c is None else [("c", c)]


class St:
    def __init__(self):
        self.stmt = None   # (text, q)
        self.aux = None    # ("com", t) | ("dir", k, (toks, cur))


def step(st, l):
    """mutates st, returns emitted items"""
    k = classify(l)
    if k == 0:
        return []
    if k in (1, 2):
        rest = lstrip(l)[5:]
        is_cont = rest[:1] == "&"
        body = rest[1:] if is_cont else rest
        if st.aux is not None and st.aux[0] == "dir" and is_cont and st.aux[1] == k:
            start, items = st.aux[2], []
        else:
            start, items = ([], ""), flush_aux(st.aux)
        code, cm = cut_bang(body)
        b = split_cont(code)
        if b is not None:
            st.aux = ("dir", k, lex_feed(start, b + " "))      # the line end separates tokens
            return items + opt_comment(cm)
        st.aux = None
        return items + opt_comment(cm) + [("d", k, tuple(flush_tok(lex_feed(start, code))))]
    if k == 3:
        s = lstrip(l)
        if s.startswith("!& ") and st.aux is not None and st.aux[0] == "com":
            st.aux = ("com", st.aux[1] + s[3:])
            return []
        items = flush_aux(st.aux)
        st.aux = ("com", s)
        return items
    # code
    s = lstrip(l)
    if st.stmt is None:
        txt, q, content = "", "", s
    else:
        txt, q = st.stmt
        content = s[1:] if s[:1] == "&" else " " + s
    code, cm, q2 = scan(q, content)
    items = flush_aux(st.aux) + opt_comment(cm)
    st.aux = None
    b = split_cont(code)
    if b is not None:
        st.stmt = (txt + b, q2)
        return items
    st.stmt = None
    return items + [("s", txt + code)]


def logical(lines):
    st = St()
    out = []
    for l in lines:
        out += step(st, l)
    out += flush_aux(st.aux)
    if st.stmt is not None:
        out.append(("s", st.stmt[0]))
    return out


def show_items(items):
    """same text as the Lean driver prints for `(logical …)`"""
    def cs(t):
        return " ".join(str(ord(c)) for c in t)
    parts = []
    for it in items:
        if it[0] == "s":
            parts.append("(s " + cs(it[1]) + ")")
        elif it[0] == "c":
            parts.append("(c " + cs(it[1]) + ")")
        else:
            parts.append("(d %d " % it[1] + " ".join("(" + cs(t) + ")" for t in it[2]) + ")")
    return "(" + " ".join(parts) + ")"


# ---- side condition of C18_same_program_partial (Lean: C18.safeLine / C18.SafeFile) -------------------
def rstrip(s):
    j = len(s)
    while j > 0 and is_ws(s[j - 1]):
        j -= 1
    return s[:j]


def unsafe_reasons(L, lines, fixed=False, line_type=None):
    """For every line longer than L: the defect classes it falls in (threading the spec state).
    Returns a list of (line index, reason).  fixed=True: the side condition SafeFileF of the repaired code
    (no directive-compound-eq class; line_type = the live _get_line_type for `noStrip`)."""
    st = St()
    out = []
    for i, l in enumerate(lines):
        if len(l) > L:
            k = classify(l)
            if k in (1, 2):
                rest = lstrip(l)[5:]
                if "!" in rest:
                    out.append((i, "inline-comment"))
                if not fixed and any(l[j] == "=" and l[j + 1] in "=>" for j in range(len(l) - 1)):
                    out.append((i, "directive-compound-eq"))
                if is_ws(l[-1]):
                    out.append((i, "trailing-blank"))
            elif k == 4:
                s = lstrip(l)
                if st.stmt is None:
                    q, content = "", s
                else:
                    q = st.stmt[1]
                    content = s[1:] if s[:1] == "&" else " " + s
                if scan(q, content)[1] is not None:
                    out.append((i, "inline-comment"))
                if is_ws(l[-1]):
                    out.append((i, "trailing-blank"))
            if fixed and k in (0, 3) and line_type(l) != "comment" and rstrip(l).endswith("&") and is_ws(l[-1]):
                out.append((i, "trailing-blank"))
        step(st, l)
    return out
