"""C11 — VariablesAccessInfo(stmt) of the real code vs. the Lean model `C11.accS` (per-variable ordered access
lists with location numbers, end location, refusals), and the property itself on the real code: every variable a
statement may read / may modify (independent oracle: tree + declared intents + Fortran standard for intrinsic
subroutines; and the Lean tracing semantics `C11.execT` on concrete stores) must be reported read / written."""
import glob
import json
import os

import common
from common import sx
import minif
from props import c11_gen, c11_export as X, c11_progs, c11_cbfam

# The committed model follows the code with the four C11 fixes applied (fixes/C11-intrinsic-subroutine-args-written,
# C11-inquiry-subscripts, C11-pure-subroutine-local-intents, C11-codeblock-accesses): rule "fixed".
# Should C11-codeblock-accesses.patch not be applied to /repo: set this to "fixed3" and set the status of the entry
# C11-codeblock-accesses-ignored in known_findings.d/C11.json back to "finding".
# Once fixes/C11-inquiry-codeblock.patch is applied to /repo: set this to "fixed5" and the status of the entry
# C11-inquiry-codeblock-subscripts to "fixed-by-patch".
MODEL_RULE = os.environ.get("C11_MODEL_RULE", "fixed5")      # (the variable only serves to try a fix candidate)


# ---------------------------------------------------------------------------
def parse_source(src, convert):
    """source text -> FileContainer; `convert`: CALLs of intrinsic subroutines become IntrinsicCall nodes
    (the form PSyclone's own IntrinsicCall.create builds)."""
    from psyclone.psyir.frontend.fortran import FortranReader
    from psyclone.psyir import nodes as N
    psyir = FortranReader().psyir_from_source(src)
    if convert:
        names = {i.name for i in N.IntrinsicCall.Intrinsic}
        for call in psyir.walk(N.Call):
            if type(call) is N.Call and isinstance(call.parent, N.Schedule) and call.routine.name.upper() in names:
                intr = N.IntrinsicCall.Intrinsic[call.routine.name.upper()]
                args = []
                for a, kw in zip(list(call.arguments), list(call.argument_names)):
                    args.append((kw, a.copy()) if kw else a.copy())
                try:
                    new = N.IntrinsicCall.create(intr, args)
                except (TypeError, ValueError):
                    continue
                call.replace_with(new)
    # a PURE subroutine whose definition is elsewhere: the frontend cannot know it is pure, a resolved import would
    for call in psyir.walk(N.Call):
        if type(call) is N.Call and call.routine.name.lower().startswith("epsub"):
            call.routine.symbol.is_pure = True
    return psyir


def statement_nodes(psyir):
    """every statement the exporter knows, at every nesting level, in walk order"""
    from psyclone.psyir import nodes as N
    out = []
    for n in psyir.walk((N.Assignment, N.IfBlock, N.Loop, N.Call, N.WhileLoop, N.Return, N.CodeBlock)):
        if isinstance(n, (N.Call, N.CodeBlock)) and not isinstance(n.parent, N.Schedule):
            continue      # function calls / expression CodeBlocks are parts of statements
        if n.ancestor(N.Routine) is None:
            continue
        out.append(n)
    return out


def stmt_text(node):
    from psyclone.psyir.backend.fortran import FortranWriter
    try:
        return FortranWriter()(node).strip()
    except Exception as e:     # noqa
        return f"<{type(node).__name__}: {type(e).__name__}>"


# ---------------------------------------------------------------------------
class Item:
    """one statement under check"""

    def __init__(self, origin, idx, node):
        self.origin, self.idx, self.node = origin, idx, node
        self.exp = X.Exporter()
        self.sx = None
        self.real = None
        self.model = None
        self.traces = []     # (bindings, events)
        self.executed = None  # execution family: base names of the variables gfortran's run of the statement modified


def random_bindings(rng, exp):
    b = []
    for name, vid in exp.names.table().items():
        b.append([[vid], rng.randint(-2, 7)])
        for i in rng.sample(range(-6, 14), 5):
            b.append([[vid, i], rng.randint(-2, 6)])
    return b


def classify(item, miss_r, miss_w):
    """name of the known-finding class a failing statement belongs to, or None"""
    from psyclone.psyir import nodes as N
    if item.model != item.real:
        return None       # the committed model does not reproduce it: new
    open_findings = {e["id"] for e in common.known_findings("C11") if e.get("status") == "finding"}
    # an inquiry intrinsic whose (skipped) first argument is an expression CodeBlock: its subscripts / sub-string bounds
    inq = set()
    for ic in item.node.walk(N.IntrinsicCall):
        if ic.intrinsic.is_inquiry and ic.arguments and X.is_expr_codeblock(ic.arguments[0]):
            _, crd, cdv = X.codeblock_expr_info(ic.arguments[0])
            inq |= X.cb_subs(crd, cdv)
    if "C11-inquiry-codeblock-subscripts" in open_findings and miss_r and set(miss_r) <= inq and not miss_w:
        return "C11-inquiry-codeblock-subscripts"
    # a CodeBlock records nothing: every missing item is a variable named in a CodeBlock of the statement
    cb_r, cb_w = set(), set()
    for cb in item.node.walk(N.CodeBlock):
        if "C11-codeblock-accesses-ignored" not in open_findings:
            break
        if X.is_expr_codeblock(cb):
            _, r, dv = X.codeblock_expr_info(cb)
            w = {dv} if dv else set()
        else:
            r, w = X.codeblock_names(cb)
        cb_r |= r
        cb_w |= w
    pure_args = set()
    for c in item.node.walk(N.Call):
        if (type(c) is N.Call and isinstance(c.parent, N.Schedule) and c.is_pure
                and X.local_callee(c) is None):
            pure_args |= {X.sig_indices(a)[0] for a in c.arguments if isinstance(a, N.Reference)}
    if not (set(miss_r) <= cb_r and set(miss_w) <= (cb_w | pure_args)):
        return None
    if set(miss_r) & cb_r or set(miss_w) & cb_w:
        return "C11-codeblock-accesses-ignored"
    if set(miss_w) & pure_args and "C11-pure-subroutine-args-read" in open_findings:
        return "C11-pure-subroutine-args-read"
    return None


def property_failures(item, names_by_id):
    """list of (kind, missing reads, missing writes, detail) for one statement on the REAL output"""
    if isinstance(item.real[0], str):      # refused (allowed) or crashed (reported as a broken correspondence)
        return []
    rep_r, rep_w = X.reported_sets(item.real[0])
    rep_r = {names_by_id[v] for v in rep_r}
    rep_w = {names_by_id[v] for v in rep_w}
    out = []
    try:
        may_r, may_w = X.may_sets(item.node)
        mr, mw = sorted(may_r - rep_r), sorted(may_w - rep_w)
        if mr or mw:
            out.append(("static-oracle", mr, mw, None))
    except minif.Unsupported:
        pass
    # order clause: in an assignment the target's WRITE is its last access and no access of the statement has a
    # later location (reads of the right-hand side and of the subscripts come first)
    from psyclone.psyir import nodes as N
    if isinstance(item.node, N.Assignment):
        tgt = X.sig_indices(item.node.lhs)[0]
        by_name = {names_by_id[v]: a for v, a in item.real[0].items()}
        accs = by_name.get(tgt, [])
        wlocs = [l for k, l, _ in accs if k == "W"]
        if accs and wlocs:
            late = sorted(n for n, a in by_name.items() if any(l > wlocs[-1] for _, l, _ in a))
            if accs[-1][0] != "W" or late:
                out.append(("assignment-order", late, [tgt] if accs[-1][0] != "W" else [], None))
    if item.executed is not None:
        # real execution (gfortran): every variable whose value the statement changed must be reported written
        rep_base = {n.split("%")[0] for n in rep_w}
        mw = sorted(item.executed - rep_base)
        if mw:
            out.append(("gfortran-execution", [], mw, {"executed_modified": sorted(item.executed)}))
    for bindings, events in item.traces:
        dr = {names_by_id[e[1]] for e in events if e[0] == "r"}
        dw = {names_by_id[e[1]] for e in events if e[0] == "w"}
        mr, mw = sorted(dr - rep_r), sorted(dw - rep_w)
        if mr or mw:
            out.append(("dynamic-trace", mr, mw, {"bindings": bindings, "dyn_reads": sorted(dr), "dyn_writes": sorted(dw)}))
    return out


def check_items(chk, items, stats):
    """run the model on all items (one driver call), compare, evaluate the property"""
    lines, owners = [], []
    for it in items:
        try:
            it.sx = it.exp.stmt(it.node)
        except minif.Unsupported as e:
            stats["unsupported"] = stats.get("unsupported", 0) + 1
            stats.setdefault("unsupported_kinds", {}).setdefault(str(e)[:30], 0)
            stats["unsupported_kinds"][str(e)[:30]] += 1
            continue
        try:
            it.real = X.flatten_real(it.node, it.exp.names)
        except Exception as e:        # the real code crashed on a statement the model accepts
            it.real = ("crash:" + type(e).__name__, None)
        lines.append(sx(["acc", MODEL_RULE, it.sx]))
        owners.append((it, "acc"))
        if it.exp.dynamic:
            masks = X.site_masks(it.exp.sites)
            for _ in range(2):
                b = random_bindings(chk.rng, it.exp)
                lines.append(sx(["trace", it.sx, b, masks]))
                owners.append((it, b))
    outs = common.driver("C11", lines)
    for (it, what), o in zip(owners, outs):
        if what == "acc":
            it.model = X.project_model(o)
        else:
            if not o.startswith("("):
                raise common.Infra("C11 trace: " + o)
            it.traces.append((what, common.parse_sx(o)))
    nviol, nper = 0, {}
    for it in items:
        if it.sx is None:
            continue
        names_by_id = {v: k for k, v in it.exp.names.table().items()}
        real_c = (it.real[0] if isinstance(it.real[0], str) else {str(k): v for k, v in it.real[0].items()}, it.real[1])
        model_c = (it.model[0] if isinstance(it.model[0], str) else {str(k): v for k, v in it.model[0].items()}, it.model[1])
        agreed = (real_c == model_c)
        kind = type(it.node).__name__
        stats["kinds"][kind] = stats["kinds"].get(kind, 0) + 1
        if it.real[0] == "raise":
            stats["refusals"] = stats.get("refusals", 0) + 1
        if it.traces:
            stats["traced"] = stats.get("traced", 0) + 1
        text = it.origin["text"] if "text" in it.origin else stmt_text(it.node)   # (the writer copies the whole tree)
        nontriv = it.real[0] != "raise" and not isinstance(it.real[0], str) and len(it.real[0]) >= 2
        chk.case({"stmt": text, "real": real_c}, nontrivial=nontriv, agreed=agreed)
        fails = property_failures(it, names_by_id)
        new = []
        for kind_f, mr, mw, detail in fails:
            cls = classify(it, mr, mw)
            if cls:
                stats.setdefault("known_class_hits", {}).setdefault(cls, 0)
                stats["known_class_hits"][cls] += 1
            else:
                new.append((kind_f, mr, mw, detail))
        new.sort(key=lambda f: f[0] != "gfortran-execution")      # a really executed write first
        if new and nper.get(new[0][0] == "gfortran-execution", 0) < 2:
            kind_f, mr, mw, detail = new[0]
            nviol += 1
            nper[kind_f == "gfortran-execution"] = nper.get(kind_f == "gfortran-execution", 0) + 1
            if it.origin.get("family") == "exec":
                it.origin, it.idx = reduced_family_origin(it)
            chk.violation({"kind": "failing-input", "origin": it.origin, "stmt_index": it.idx, "stmt": text,
                           "check": kind_f, "missing_reads": mr, "missing_writes": mw, "detail": detail,
                           "observed": {names_by_id[int(k)]: v for k, v in real_c[0].items()},
                           "expected": "every variable in missing_reads must be reported READ/READWRITE and every "
                                       "variable in missing_writes WRITE/READWRITE by VariablesAccessInfo(stmt)"})
        if not agreed and not new:
            chk.correspondence_broken("VariablesAccessInfo(stmt) differs from C11.accS (" + MODEL_RULE + " rule)",
                                      {"origin": it.origin, "stmt_index": it.idx, "stmt": text},
                                      {"accesses": {names_by_id.get(int(k), k): v for k, v in model_c[0].items()}
                                       if not isinstance(model_c[0], str) else model_c[0], "end": model_c[1]},
                                      {"accesses": {names_by_id.get(int(k), k): v for k, v in real_c[0].items()}
                                       if not isinstance(real_c[0], str) else real_c[0], "end": real_c[1]})
    return nviol


# ---------------------------------------------------------------------------
def family_items(chk, stats):
    """the execution family (c11_cbfam): one gfortran run gives the variables each statement really modifies"""
    stmts = c11_cbfam.statements(chk.tier)
    src = c11_cbfam.program(stmts)
    modified = c11_cbfam.execute(src)
    items = []
    for convert in ([True, False] if chk.tier == "thorough" else [True]):
        psyir = parse_source(src, convert)
        index = {id(n): k for k, n in enumerate(statement_nodes(psyir))}
        nodes = c11_cbfam.family_nodes(psyir)
        if len(nodes) != len(stmts):
            raise common.Infra("C11 execution family: statement count mismatch")
        for k, node in enumerate(nodes):
            it = Item({"family": "exec", "k": k, "text": stmts[k], "convert": convert}, index[id(node)], node)
            it.executed = set(modified.get(k, set()))
            items.append(it)
    stats["exec_family"] = {"statements": len(stmts), "with_real_modification": sum(1 for k in range(len(stmts)) if modified.get(k)),
                            "with_expression_codeblock": sum(1 for it in items if any(X.is_expr_codeblock(c) for c in it.node.walk(_cb_class())))}
    return items


def _cb_class():
    from psyclone.psyir import nodes as N
    return N.CodeBlock


def reduced_family_origin(it):
    """a self-contained program with only the failing statement of the execution family, and its statement index"""
    src = c11_cbfam.program([it.origin["text"]])
    psyir = parse_source(src, it.origin["convert"])
    node = c11_cbfam.family_nodes(psyir)[0]
    idx = [k for k, n in enumerate(statement_nodes(psyir)) if n is node][0]
    return {"family": "exec", "k": 0, "source": src, "convert": it.origin["convert"]}, idx


def check_overrides(chk):
    """every class that overrides reference_accesses must be classified (modelled / outside the model)"""
    table = c11_gen.override_table()
    known = c11_gen.CLASSIFIED["reference_accesses"]
    live = table["reference_accesses"]
    chk.cov["reference_accesses_overrides"] = {n: ("modelled" if known.get(n) else "outside the model" if n in known else "UNCLASSIFIED")
                                               for n in live}
    chk.cov["get_signature_and_indices_overrides"] = table["get_signature_and_indices"]
    new = [n for n in live if n not in known]
    gone = [n for n in known if n not in live]
    if new or gone:
        chk.correspondence_broken("the set of classes overriding reference_accesses changed", {"new": new, "removed": gone},
                                  sorted(known), live)


# ---------------------------------------------------------------------------
def items_of_source(src, convert, origin, stats):
    try:
        psyir = parse_source(src, convert)
    except Exception as e:    # noqa  (reader problems are outside C11)
        stats["parse_failures"] = stats.get("parse_failures", 0) + 1
        return []
    return [Item(dict(origin, convert=convert), k, n) for k, n in enumerate(statement_nodes(psyir))]


def test_files(chk):
    base = os.path.join(common.REPO, "src", "psyclone", "tests")
    files = sorted(glob.glob(os.path.join(base, "nemo", "test_files", "*.f90")))
    files += sorted(glob.glob(os.path.join(base, "test_files", "gocean1p0", "*.f90")))
    lfric = sorted(glob.glob(os.path.join(base, "test_files", "dynamo0p3", "*.[fF]90")))
    if chk.tier != "thorough":
        files = files[:18] + chk.rng.sample(files[18:], min(25, len(files) - 18))
        lfric = chk.rng.sample(lfric, min(25, len(lfric)))
    return files + lfric


def run(chk):
    chk.cov["rule"] = ("one case = one statement (Assignment, IfBlock, Loop, WhileLoop, CALL, intrinsic statement incl. "
                       "ALLOCATE/DEALLOCATE, Return, CodeBlock; at every nesting level) of a generated program or of a bundled NEMO/GOcean/LFRic "
                       "test file or of the execution family (c11_cbfam: argument kind x callee kind x context, really executed); compared: per-variable ordered (kind, location, #indices) lists + end location + "
                       "refusal; non-trivial = not refused and at least two variables accessed; distinct by text+result")
    chk.assumptions += [
        "by-reference argument association: a callee may store into any actual argument that is a reference unless "
        "its dummy is INTENT(IN) or the callee is a PURE function; intrinsic functions never modify arguments",
        "intents of intrinsic subroutines as in Fortran 2018 ch.16 (table STD_MODIFIES in c11_export.py)",
        "the observable of VariablesAccessInfo is the per-signature access list (kind, location, #indices); the "
        "global interleaving of different signatures is not stored by the real code",
        "MiniF value domain (integers); rank>2 / section references are traced on their first two subscripts",
        "DO WHILE is traced for a bounded number of iterations (theorems: every bound); RETURN/EXIT/CYCLE are modelled as "
        "no-ops: the real trace is a prefix of the modelled one",
        "a statement CodeBlock is an opaque statement with a may-read / may-define variable set taken from its fparser2 parse "
        "tree (codeblock_names in c11_export.py); an expression CodeBlock may read every data variable named in it (implied-DO "
        "variables excepted) and, when its text is a designator whose base is a data variable, is definable through "
        "argument association (codeblock_expr_info)",
        "execution family: gfortran 12 -O0 runs the statements from a fixed initial state; a variable is 'really modified' "
        "when its value differs afterwards",
        "a PURE subroutine defined in the same Container cannot store into INTENT(IN) dummies (declared intents are trusted)"]
    chk.cov["trusted_base"] = ["Lean 4.33.0 kernel", "axioms propext/Classical.choice/Quot.sound only (audited)",
                               "translator harness/props/c11_gen.py (IntrinsicCall.Intrinsic -> Gen/Intrinsics.lean)",
                               "exporter + oracle harness/props/c11_export.py", "fparser2 / PSyIR frontend"]
    chk.lean(gen=c11_gen.gen)
    stats = {"kinds": {}}
    items = []
    # corpus first
    for path in sorted(glob.glob(os.path.join(common.ROOT, "corpus", "C11", "*.json"))):
        c = json.load(open(path))
        items += items_of_source(c["source"], c.get("convert", False), {"corpus": os.path.basename(path), "source": c["source"]}, stats)
    nprog = 400 if chk.tier == "thorough" else 60
    for k in range(nprog):
        src = c11_progs.gen_source(chk.rng, nstmts=chk.rng.randint(3, 7), pure_sub=(chk.rng.random() < 0.1))
        items += items_of_source(src, chk.rng.random() < 0.6, {"generated": k, "source": src}, stats)
    nfile = 0
    for f in test_files(chk):
        try:
            src = open(f, encoding="utf-8", errors="replace").read()
        except OSError:
            continue
        got = items_of_source(src, False, {"file": os.path.relpath(f, common.REPO)}, stats)
        nfile += bool(got)
        items += got
    items += family_items(chk, stats)
    check_overrides(chk)
    stats["programs"], stats["files_with_statements"], stats["statements"] = nprog, nfile, len(items)
    check_items(chk, items, stats)
    chk.cov["distribution"] = stats
    # known findings
    for e in common.known_findings("C11"):
        if replay_witness(e["witness"], quiet=True):
            chk.known(e["what"])


# ---------------------------------------------------------------------------
def _find(payload):
    origin = payload.get("origin", payload)
    if "source" in origin:
        src = origin["source"]
    else:
        src = open(os.path.join(common.REPO, origin["file"]), encoding="utf-8", errors="replace").read()
    psyir = parse_source(src, origin.get("convert", False))
    return statement_nodes(psyir)[payload["stmt_index"]]


def replay_witness(payload, quiet=False):
    """re-evaluate the property for the stored statement on the real code; True if it (still) fails"""
    node = _find(payload)
    names = minif.Names()
    real = X.flatten_real(node, names)
    if real[0] == "raise":
        if not quiet:
            print("the collection now refuses the statement")
        return False
    by_id = {v: k for k, v in names.table().items()}
    rep_r, rep_w = X.reported_sets(real[0])
    rep_r, rep_w = {by_id[v] for v in rep_r}, {by_id[v] for v in rep_w}
    may_r, may_w = X.may_sets(node)
    d = payload.get("detail") or {}
    may_r |= set(d.get("dyn_reads", []))
    may_w |= set(d.get("dyn_writes", []))
    mr, mw = sorted(may_r - rep_r), sorted(may_w - rep_w)
    origin = payload.get("origin", payload)
    if origin.get("family") == "exec":
        # run the program again: what does the statement really modify?
        executed = c11_cbfam.execute(origin["source"]).get(origin.get("k", 0), set())
        mw = sorted(set(mw) | (executed - {n.split("%")[0] for n in rep_w}))
        if not quiet:
            print("executed : gfortran run of the statement modified", sorted(executed))
    from psyclone.psyir import nodes as N
    if isinstance(node, N.Assignment):
        tgt = X.sig_indices(node.lhs)[0]
        by_name = {by_id[v]: a for v, a in real[0].items()}
        accs = by_name.get(tgt, [])
        wlocs = [l for k, l, _ in accs if k == "W"]
        if accs and wlocs and (accs[-1][0] != "W" or any(l > wlocs[-1] for a in by_name.values() for _, l, _ in a)):
            mw = mw + ["<order: WRITE of %s is not the last access>" % tgt]
    if not quiet:
        print("statement:", stmt_text(node))
        print("observed :", {by_id[k]: v for k, v in real[0].items()})
        print("expected : reads", sorted(may_r), "writes", sorted(may_w))
        print("missing  : reads", mr, "writes", mw)
    return bool(mr or mw)


def replay(payload):
    if payload.get("kind") != "failing-input":
        print("no failing input in this replay file:", json.dumps(payload.get("broken", payload))[:2000])
        return 1
    return 1 if replay_witness(payload) else 0
