"""C12 — get_in_out_parameters (and ExtractTrans/ExtractNode) vs. the Lean model
RegionData.inOut, on ALL consecutive-statement regions of generated routines; plus the
property itself on the real lists: (a) every variable the region changes is a real output,
(b) every value the region stores is determined by the real inputs, (c) replaying the region
from a store that agrees with the original only on the real inputs reproduces the real outputs."""
import glob
import json
import os

import common
import minif
from common import driver
from props import c12_region as R
from props import c12_calls as K

DELTAS = (1000, -777)


def cases(chk):
    """(source, n_init, nbody) — corpus first, then seeded programs"""
    for path in sorted(glob.glob(os.path.join(common.ROOT, "corpus", "C12", "*.json"))):
        c = json.load(open(path))
        if c.get("family") == "calls":
            continue
        yield c["source"], c["n_init"], "corpus:" + os.path.basename(path)
    for src, n_init in R.call_matrix():
        yield src, n_init, "callmatrix"
    n = 220 if chk.tier == "thorough" else 28
    for _ in range(n):
        module = chk.rng.random() < 0.25
        prog = R.gen_program(chk.rng, chk.rng.randint(3, 6), codeblocks=not module and chk.rng.random() < 0.3,
                             struct=not module and chk.rng.random() < 0.25, calls=chk.rng.random() < 0.2,
                             module=module)
        yield R.source_of(prog), R.n_init_nodes(prog), "gen"


def evaluate(parsed, i, j, real_in, real_out, delta, out_line):
    """The property on the real lists.  out_line = driver answer of the `replay` op.
    Returns a list of (kind, detail) failures."""
    per, _ = parsed.queries()
    before, after, after_t = [R.split_values(per, v) for v in common.parse_sx(out_line)]
    fails = []
    # (a) dynamic writes are outputs
    for n, _ in per:
        if before[n] != after[n] and n not in real_out:
            fails.append(("dynamic-write-not-output", {"variable": n}))
    # (b) stored values determined by the inputs
    perturbed = {n for n, _ in per if n not in real_in}
    for n, cs in per:
        for k in range(len(cs)):
            c = tuple(cs[k]) + (0, 0)
            d = delta + 31 * c[0] + 3 * c[1] + 7 * c[2] if n in perturbed else 0   # = Drivers/C12.lean `perturb`
            if after[n][k] != after_t[n][k] and not (after[n][k] == before[n][k] and after_t[n][k] == before[n][k] + d):
                fails.append(("stored-value-depends-on-non-input",
                              {"variable": n, "cell": list(cs[k][1:]), "original_run": after[n][k],
                               "replay_run": after_t[n][k]}))
                break
    # (c) replay reproduces the outputs
    for n, cs in per:
        if n in real_out and after[n] != after_t[n]:
            k = next(k for k in range(len(cs)) if after[n][k] != after_t[n][k])
            fails.append(("replay-differs-on-output",
                          {"variable": n, "cell": list(cs[k][1:]), "recorded": after[n][k], "replayed": after_t[n][k]}))
    return fails


def replay_line(parsed, i, j, real_in, delta):
    _, flat = parsed.queries()
    pert = [parsed.vid(n) for n in sorted(parsed.rank) if n not in real_in]
    return R.line("replay", parsed.prefix(i), parsed.export(parsed.region_nodes(i, j)), pert, delta,
                  [list(c) for c in flat])


def prepare(parsed, i, j, with_extract=False):
    """real lists + the driver lines of one region"""
    nodes = parsed.region_nodes(i, j)
    real_in, real_out = R.real_inout(nodes)
    if R.non_minif(nodes, parsed.names):
        # the model cannot execute the region (CodeBlock, or a call other than `bump`): access model
        # (CodeBlock names / call arguments READWRITE), ExtractTrans accept/refuse always, property
        # via the gfortran replay oracle (in conclude)
        ctx = {"parsed": parsed, "i": i, "j": j, "real": [real_in, real_out], "cb": True,
               "has_cb": R.has_codeblock(nodes), "partial": R.partial_first_writes(nodes),
               "partial_read": R.partial_first_written_and_read(nodes),
               "extract": R.real_extract_lists(parsed, i, j)}
        return ctx, [R.line("extract", R.access_items(parsed, nodes))]
    lines = [R.line("inout", parsed.export(nodes))] + [replay_line(parsed, i, j, real_in, d) for d in DELTAS]
    ctx = {"parsed": parsed, "i": i, "j": j, "real": [real_in, real_out], "partial": R.partial_first_writes(nodes)}
    if with_extract:
        ctx["extract"] = R.real_extract_lists(parsed, i, j)
    return ctx, lines


GF_BUDGET = {"left": 0, "accepted_left": 10 ** 6, "calls_left": 10 ** 6}


def conclude_cb(ctx, out, force_oracle=False):
    """region containing a CodeBlock"""
    parsed, i, j = ctx["parsed"], ctx["i"], ctx["j"]
    real_in, real_out = ctx["real"]
    m = common.parse_sx(out[0])
    id2n = {v: k for k, v in parsed.names.table().items()}
    model = [sorted(id2n[x] for x in m[1]), sorted(id2n[x] for x in m[2])]
    res = {"real": [real_in, real_out], "model": model, "wfw": False, "od": False, "fails": [],
           "partial": ctx["partial"], "partial_read": ctx["partial_read"], "cb": True, "has_cb": ctx["has_cb"],
           "extract": ctx["extract"],
           "model_extract": m[0], "oracle": "not run"}
    accepted = ctx["extract"] is not None
    if not ctx["has_cb"] and not force_oracle:
        # call region (ExtractTrans accepts these on the clean tree too): own budget
        accepted_run = accepted and GF_BUDGET["calls_left"] > 0
        GF_BUDGET["calls_left"] -= 1
    elif accepted and not force_oracle:
        # ExtractTrans ACCEPTED a region with a CodeBlock: evaluate (bounded number per run)
        accepted_run = GF_BUDGET["accepted_left"] > 0
        GF_BUDGET["accepted_left"] -= 1
    else:
        accepted_run = False
    if force_oracle or accepted_run or (not accepted and GF_BUDGET["left"] > 0):
        if not (force_oracle or accepted):
            GF_BUDGET["left"] -= 1
        lists = ctx["extract"] if accepted else (real_in, real_out)
        fails = R.gfortran_replay(parsed, i, j, list(lists[0]), list(lists[1]))
        res["oracle"] = "gfortran" if fails is not None else "not applicable"
        res["fails"] = fails or []
    return res


def conclude(ctx, out):
    if ctx.get("cb"):
        return conclude_cb(ctx, out)
    parsed, i, j = ctx["parsed"], ctx["i"], ctx["j"]
    real_in, real_out = ctx["real"]
    m = common.parse_sx(out[0])
    if m[4] != 1:
        raise common.Infra("exported region violates RegionData.covered (harness bug): "
                           + common.sx(parsed.export(parsed.region_nodes(i, j))))
    id2n = {v: k for k, v in parsed.names.table().items()}
    model_in, model_out = sorted(id2n[x] for x in m[0]), sorted(id2n[x] for x in m[1])
    fails = []
    for d, o in zip(DELTAS, out[1:]):
        for f in evaluate(parsed, i, j, real_in, real_out, d, o):
            if f[0] not in [g[0] for g in fails]:
                fails.append((f[0], dict(f[1], delta=d)))
    res = {"real": [real_in, real_out], "model": [model_in, model_out], "wfw": m[2] == 1, "od": m[3] == 1,
           "fails": fails, "partial": ctx["partial"], "model_extract": "accept"}
    if "extract" in ctx:
        res["extract"] = ctx["extract"]
    return res


def check_region(parsed, i, j, with_extract=False, force_oracle=False):
    """-> dict with real lists, model answer, failures (uses the driver)"""
    ctx, lines = prepare(parsed, i, j, with_extract)
    out = driver("C12", lines)
    if ctx.get("cb"):
        return conclude_cb(ctx, out, force_oracle=force_oracle)
    return conclude(ctx, out)


def call_cases(chk):
    """kernel sets of the module-variable family: corpus first, then seeded sets"""
    for path in sorted(glob.glob(os.path.join(common.ROOT, "corpus", "C12", "*.json"))):
        c = json.load(open(path))
        if c.get("family") == "calls":
            yield c["kernels"]
    n3, n2 = (24, 16) if chk.tier == "thorough" else (3, 3)
    for _ in range(n3):
        yield [K.gen_kernel(chk.rng) for _ in range(3)]
    for _ in range(n2):
        yield [K.gen_kernel(chk.rng) for _ in range(2)]


def run_calls(chk, dist, reported):
    """second case family: regions over kernels that access module variables, all call orders"""
    d = dist["calls"] = {"kernel_sets": 0, "invokes": 0, "model_agrees": 0, "merged_inputs_exceed_reference": 0,
                         "failing_known": {}}
    for kernels in call_cases(chk):
        d["kernel_sets"] += 1
        work = K.Workdir(kernels)
        for order in K.orders(len(kernels)):
            try:
                res = K.check_case(kernels, order, DELTAS, evaluate, work=work)
            except common.Infra:
                raise
            except Exception as e:                               # noqa: BLE001
                raise common.Infra(f"LFRic call-region case failed to build: {type(e).__name__}: {e}")
            d["invokes"] += 1
            agreed = res["model"] == res["real"]
            d["model_agrees"] += agreed
            d["merged_inputs_exceed_reference"] += set(res["real"][0]) > set(res["reference_inputs"])
            case = {"family": "calls", "kernels": kernels, "order": order}
            chk.case(dict(case, real=res["real"]), nontrivial=bool(res["real"][1]), agreed=agreed)
            if res["fails"]:
                kf = classify(res)
                if kf is not None:
                    d["failing_known"][kf] = d["failing_known"].get(kf, 0) + 1
                elif len(reported) < 4 and ("calls", res["fails"][0][0]) not in reported:
                    reported.add(("calls", res["fails"][0][0]))
                    chk.violation(dict(case, kind=res["fails"][0][0], observed=res["fails"],
                                       real_inputs=res["real_all"][0], real_outputs=res["real_all"][1],
                                       model=res["model"], reference_inputs=res["reference_inputs"],
                                       expected="with the callee bodies inlined in call order: the region changes only "
                                                "recorded outputs; stored values are determined by the recorded inputs; "
                                                "replay from the recorded inputs reproduces the recorded outputs"))
            if not agreed and len(chk.broken) < 5:
                chk.correspondence_broken("non-local lists of LFRicExtractTrans differ from RegionData.inputsCalls/"
                                          "outputsCalls", case, res["model"], res["real"])


def classify(res):
    """known-finding id for a failure list, or None (= new)"""
    if not res["fails"]:
        return None
    kinds = {k for k, _ in res["fails"]}
    if res.get("cb"):
        # region with a CodeBlock (its names are READWRITE at HEAD) or a call the model does not
        # inline, evaluated by gfortran (no stored-value check): only the partial-first-write
        # classes can explain a failure, and only on a variable whose first access is such a write
        if "dynamic-write-not-output" in kinds or res["model"] != res["real"] or not res["partial"] \
                or res["model_extract"] != ("refuse" if res["extract"] is None else "accept"):
            return None
        if res["has_cb"] and res["extract"] is not None:
            return None                          # ExtractTrans must refuse CodeBlock regions
        blamed = {d.get("variable") for _, d in res["fails"]}
        if not res.get("partial_read") and not all(v is None or v in res["partial"] for v in blamed):
            return None                          # only a partial-first-written variable that is READ can affect others
        return "C12-partial-output-not-input"
    if "dynamic-write-not-output" in kinds:
        return None                              # C12_outputs is unconditional
    if res["model"] != res["real"] or not res["partial"]:
        return None
    if "stored-value-depends-on-non-input" in kinds:
        if res["wfw"]:
            return None                          # C12_inputs_partial says this cannot happen
        if any(v == "loop variable read in its own bounds" for v in res["partial"].values()) and \
                all(v == "loop variable read in its own bounds" for v in res["partial"].values()):
            return "C12-loop-variable-in-own-bounds"
        return "C12-partial-first-write-read"
    if res["od"]:
        return None                              # C12_replay_partial says this cannot happen
    return "C12-partial-output-not-input"


def run(chk):
    chk.cov["rule"] = ("FAMILY 1: every consecutive-statement region [i,j) of the body of seeded MiniF routines (3-6 top-level "
                       "statements: element writes, read-modify-writes, scalar temporaries, IF with/without ELSE, "
                       "loops incl. zero-trip/negative step, DO WHILE bounded by a counter (8% of statements), nesting <=3; 30% "
                       "of the routines also contain expression CodeBlocks (array constructors with implied DO) and "
                       "statement CodeBlocks (FORALL, PRINT), 25% use members of a structure (g%d(i), g%n), 20% call an "
                       "external subroutine of unknown intent (35% of those calls directly after an element write to the "
                       "array they pass), 25% are routines of a MODULE that call pure / impure subroutines of the same "
                       "module with a positional prefix and keyword actuals in random order (optional dummy mostly skipped), "
                       "inner loop bounds may depend on outer loop variables, same-element write-then-read pairs); calls are "
                       "exported as RStmt.code (access list by the harness's own keyword matching, body = inlined callee) and "
                       "executed by the model; for regions with a CodeBlock: real lists vs. the model in which a CodeBlock is "
                       "READWRITE of its names, ExtractTrans accept/refuse vs. RegionData.extractTrans on every such "
                       "region, property by the gfortran replay oracle (all ACCEPTED ones up to a cap, a sample of the "
                       "refused ones).  FAMILY 1b (systematic, every run): R.call_matrix() = every library subroutine x every "
                       "positional-prefix length x every order of the keyword actuals x optional dummy present/skipped (67 "
                       "routines, regions [call] and [whole body]).  non-trivial = region with >=1 write and "
                       ">=2 variables; distinct by (source, region).  FAMILY 2: LFRic invokes of 2-3 synthesised kernels reading / "
                       "writing-first / read-modifying / conditionally writing 1-3 variables (3 scalars, 1 array) of a shared "
                       "module, every call order, wrapped by the real LFRicExtractTrans (collect_non_local_symbols); "
                       "non-trivial = some module variable or field is an output")
    chk.assumptions += [
        "MiniF subset: integer scalars and rank<=2 arrays, assignment/IF/DO; every array reference is indexed",
        "the left-hand side variable does not occur in its own subscripts (the real code raises NotImplementedError)",
        "replay stores: the program's own store at region entry vs. the same store with every cell of every "
        "non-input variable shifted by a cell-dependent amount (+1000 / -777 + 31*var + 3*i + 7*j)",
        "module-variable family: kernels are synthesised from abstract statement lists; the inlined region executes "
        "one representative element of the field update; fields f1/f2 stand for f1_data/f2_data of the real lists",
        "regions containing CodeBlocks are executed by gfortran (-fcheck=bounds -ftrapv): program up to the region, "
        "every non-input scalar shifted by 1 and array by 1000, region, print all variables (the model is given `skip` "
        "as the code of a CodeBlock: only its access list is compared)",
        "calls: the callee body (assignments over dummies) is inlined with the actuals substituted textually; an "
        "expression actual bound to an intent(in) dummy is re-evaluated at each use (differs from Fortran only for "
        "calls that alias an intent(in) actual with a modified one, which Fortran forbids); RegionData.covered is "
        "checked by the driver for every executed region",
        "DO WHILE semantics: RegionData.rexec with an iteration bound (2000 in the drivers) that no generated loop "
        "reaches (every generated loop is bounded by `w > 0 .and. w < 4` with w decremented last)",
        "region execution uses the MiniF semantics (lean/PsyVerif/Model/MiniF.lean, validated against gfortran "
        "by harness/minif_selftest.py), not gfortran"]
    chk.cov["trusted_base"] = ["Lean 4.33.0 kernel", "axioms propext/Classical.choice/Quot.sound only (audited)",
                               "MiniF semantics + PSyIR->MiniF exporter (harness/minif.py)",
                               "correspondence harness harness/props/c12.py, c12_region.py"]
    import time
    t0 = time.time()
    global WhileLoop
    from psyclone.psyir.nodes import WhileLoop
    chk.lean()
    chk.cov["lean_build_audit_s"] = round(time.time() - t0, 1)
    dist = {"regions": 0, "programs": 0, "model_agrees": 0, "WholeFirstWrites": 0, "OutputsDefined": 0,
            "failing_known": {}, "extract_checked": 0, "extract_refused": 0, "skipped_unsupported": 0,
            "codeblock_regions": 0, "codeblock_oracle_runs": 0, "call_regions": 0, "regions_with_struct_member": 0, "regions_with_while": 0}
    reported = set()
    todo, lines = [], []
    for src, n_init, origin in cases(chk):
        try:
            parsed = R.Parsed(src, n_init)
        except Exception as e:                                   # noqa: BLE001
            raise common.Infra(f"cannot parse generated program: {e}")
        dist["programs"] += 1
        nb = len(parsed.body)
        for i in range(nb):
            for j in range(i + 1, nb + 1):
                if origin == "callmatrix" and (i, j) not in ((1, 2), (0, 3)):
                    continue
                try:
                    ctx, ls = prepare(parsed, i, j, with_extract=(origin.startswith("corpus") or (origin == "callmatrix" and (i, j) == (1, 2))
                                                                   or chk.rng.random() < 0.2))
                except (minif.Unsupported, NotImplementedError):
                    dist["skipped_unsupported"] += 1
                    continue
                ctx["at"], ctx["n"] = len(lines), len(ls)
                todo.append(ctx)
                lines += ls
    chk.cov["real_code_s"] = round(time.time() - t0 - chk.cov["lean_build_audit_s"], 1)
    t1 = time.time()
    outs = driver("C12", lines)
    chk.cov["driver_s"] = round(time.time() - t1, 1)
    GF_BUDGET["left"] = 40 if chk.tier == "thorough" else 8
    GF_BUDGET["accepted_left"] = 60 if chk.tier == "thorough" else 12
    GF_BUDGET["calls_left"] = 40 if chk.tier == "thorough" else 8
    for ctx in todo:
        res = conclude(ctx, outs[ctx["at"]:ctx["at"] + ctx["n"]])
        src, n_init, i, j = ctx["parsed"].src, ctx["parsed"].n_init, ctx["i"], ctx["j"]
        dist["regions"] += 1
        agreed = res["model"] == res["real"]
        case = {"source": src, "n_init": n_init, "region": [i, j]}
        if res.get("cb"):
            dist["codeblock_regions"] += res["has_cb"]
            dist["call_regions"] += not res["has_cb"]
            dist["codeblock_oracle_runs"] += res["oracle"] == "gfortran"
        dist["regions_with_struct_member"] += any("%" in n for n in sum(res["real"], []))
        if "extract" in res:
            real_dec = "refuse" if res["extract"] is None else "accept"
            if real_dec != res["model_extract"]:
                agreed = False
                if len(chk.broken) < 5:
                    chk.correspondence_broken("ExtractTrans accept/refuse differs from RegionData.extractTrans",
                                              case, res["model_extract"], real_dec)
            if res["extract"] is None:
                dist["extract_refused"] += 1
            else:
                dist["extract_checked"] += 1
                if list(res["extract"]) != res["real"]:
                    agreed = False
                    if len(chk.broken) < 5:
                        chk.correspondence_broken("ExtractTrans/ExtractNode lists differ from get_in_out_parameters",
                                                  case, res["real"], list(res["extract"]))
        dist["model_agrees"] += agreed
        dist["regions_with_while"] += bool(ctx["parsed"].region_nodes(i, j) and any(
            n.walk(WhileLoop) for n in ctx["parsed"].region_nodes(i, j)))
        dist["WholeFirstWrites"] += res["wfw"]
        dist["OutputsDefined"] += res["od"]
        chk.case(dict(case, real=res["real"]),
                 nontrivial=bool(res["real"][1]) and len(set(sum(res["real"], []))) >= 2, agreed=agreed)
        if res["fails"]:
            kf = classify(res)
            if kf is not None:
                dist["failing_known"][kf] = dist["failing_known"].get(kf, 0) + 1
            elif len(reported) < 3 and res["fails"][0][0] not in reported:
                reported.add(res["fails"][0][0])
                chk.violation(dict(case, kind=res["fails"][0][0], observed=res["fails"],
                                   real_inputs=res["real"][0], real_outputs=res["real"][1], model=res["model"],
                                   expected="region changes only real outputs; values it stores are determined by "
                                            "the real inputs; replay from the real inputs reproduces the real outputs"))
        if res["model"] != res["real"] and len(chk.broken) < 5:
            chk.correspondence_broken("get_in_out_parameters differs from RegionData.inOut", case,
                                      res["model"], res["real"])
    t2 = time.time()
    run_calls(chk, dist, reported)
    chk.cov["calls_family_s"] = round(time.time() - t2, 1)
    chk.cov["distribution"] = dist
    # known findings
    for e in common.known_findings("C12"):
        w = e["witness"]
        parsed = R.Parsed(w["source"], w["n_init"])
        res = check_region(parsed, *w["region"], force_oracle=True)
        if res["fails"] and classify(res) == e["id"]:
            chk.known(e["what"])


def replay_calls(payload):
    res = K.check_case(payload["kernels"], payload["order"], DELTAS, evaluate)
    for n, k in enumerate(payload["kernels"]):
        print(K.kernel_fortran(K.KN[n], k))
    print("invoke order:", [K.KN[k] for k in payload["order"]])
    print("real inputs/outputs (module variables + fields):", res["real_all"], " model:", res["model"],
          " inputs of the inlined region:", res["reference_inputs"])
    print("expected:", payload.get("expected", ""))
    print("observed failures:", res["fails"] or "none")
    kf = classify(res)
    if res["fails"] and kf:
        print("(belongs to known finding", kf + ")")
    return 1 if res["fails"] and not kf else 0


def replay(payload):
    if payload.get("family") == "calls":
        return replay_calls(payload)
    parsed = R.Parsed(payload["source"], payload["n_init"])
    i, j = payload["region"]
    res = check_region(parsed, i, j, with_extract=True, force_oracle=True)
    print(payload["source"])
    if res.get("cb"):
        print("region contains a CodeBlock; ExtractTrans:", "refuses" if res["extract"] is None else
              f"ACCEPTS with lists {list(res['extract'])}", "; oracle:", res["oracle"])
    print("region: body statements", [i, j])
    print("real inputs/outputs:", res["real"], " model:", res["model"])
    print("expected:", payload.get("expected", ""))
    print("observed failures:", res["fails"] or "none")
    kf = classify(res)
    if res["fails"] and kf:
        print("(belongs to known finding", kf + ")")
    return 1 if res["fails"] and not kf else 0
