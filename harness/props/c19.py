"""C19 — PSyAD adjoints are the exact transpose of the tangent-linear code.

Lean: Model/AD.lean (linear TL programs, `adjoint` = AdjointVisitor + AssignmentTrans),
Props/C19.lean.  This check
(b) ties the model to the real code: generated TL kernels -> real preprocess_trans +
    generate_adjoint (= generate_adjoint_str) -> the produced adjoint in linear form must equal the
    model's `adjointRoutine`; the model's semantics is compared with MiniF on the same programs;
    kernels outside the subset must be refused by both;
(c) evaluates the property itself on the real code for every kernel: matrix of the ORIGINAL TL
    routine and of the REAL adjoint routine by executing both (exported to MiniF, exact integers)
    on unit vectors; adjoint matrix must be the transpose; passive arguments unchanged;
    the generated harness is compiled and run with gfortran (a few in quick, many in thorough);
(d) replays the known findings."""
import json
import os
import re

import common
from common import driver, sx
import minif

from props import c19_gen as G
from props import c19_real as R

WINDOW = (G.A_LO, G.A_HI, G.M_LO, G.M_HI)

# passive LOGICAL and (non-dimensioning) INTEGER arguments: the pinned generate_adjoint_test emits
# `call random_number(flag)` / `flag * flag` (fixes/C19-harness-nonreal-arguments.patch)
HARNESS_PROBE = G.Kernel(
    "module tl_mod\n  implicit none\ncontains\nsubroutine tl_kern(a, b, n, flag, m)\n"
    "  integer, intent(in) :: n, m\n  logical, intent(in) :: flag\n  real, intent(inout) :: a(n), b(n)\n  integer :: i\n"
    "  do i = 1, n, 2\n    if (flag) then\n      a(i) = a(i) + 2.0*b(i)\n    else\n      a(i) = b(i+m-1)\n    end if\n  end do\n"
    "end subroutine tl_kern\nend module tl_mod\n", ["a", "b"], [], {}, [], [], [], False, False, [])


# ---------------------------------------------------------------------------------------------
def transpose_defect(mtl, mad, locs):
    """None, or the first entry where adjoint matrix != transpose of the TL matrix"""
    n = len(locs)
    for l in range(n):
        for m in range(n):
            # mad[l][m] = (A* e_l)(m)   must equal   (A e_m)(l) = mtl[m][l]
            if mad[l][m] != mtl[m][l]:
                return {"adjoint_input": locs[l], "adjoint_output": locs[m], "observed": mad[l][m],
                        "expected": mtl[m][l]}
    return None


def _c19(lines):
    out = driver("C19", lines)
    for o in out:
        if o.startswith("bad-"):
            raise common.Infra("C19 driver: " + o)
    return out


def evaluate_batch(kerns, rng, use_api=None):
    """Everything the check looks at, for a list of kernels (driver calls are batched).  Returns one
    dict per kernel: status, structural (None/True/False), sem_ok, safe, defect (property failure or
    None), nontrivial, res, …"""
    use_api = use_api or [True] * len(kerns)
    evs = []
    for kern, api in zip(kerns, use_api):
        ev = {"status": None, "structural": None, "sem_ok": None, "safe": None, "defect": None, "why_no_form": None,
              "nontrivial": False}
        # array-notation stream: the clean code answers some accepted-looking statements with a TypeError from
        # same_range() (scalar subscript next to a section); no adjoint is produced, so that is a refusal here
        res = R.pipeline(kern.src, kern.active, use_api=api,
                         extra_refusals=(TypeError,) if getattr(kern, "sections", False) else ())
        ev["status"], ev["exc"], ev["res"] = res.status, res.exc, res
        ev["live"] = res.status == "ok"
        if ev["live"] and (res.tl_minif is None or res.ad_minif is None):
            ev["live"], ev["unexportable"], ev["why_no_form"] = False, True, res.form_why
        if ev["live"] and not res.api_matches:
            ev["defect"], ev["live"] = {"kind": "generate_adjoint_str differs from its own steps"}, False
        ev["formed"] = ev["live"] and res.tl_form is not None and res.ad_form is not None
        if ev["live"] and not ev["formed"]:
            ev["why_no_form"] = res.form_why
        evs.append(ev)
    live = [(k, e) for k, e in zip(kerns, evs) if e["live"]]
    # round 0: values of the passive prelude (passive temporaries assigned at the top of the routine)
    jobs, who = [], []
    for k, e in live:
        res = e["res"]
        e["bind"] = R.bindings(k, res.names)
        if e["formed"] and res.prelude:
            q = [(st[1],) for st in res.prelude if st[0] == "assign"]
            jobs.append((["seqs"] + res.prelude, e["bind"], q))
            who.append((e, q))
    for (e, q), vals in zip(who, minif.model_exec(jobs) if jobs else []):
        e["bind"] = e["bind"] + list(zip(q, vals))
    # round 1: the model's view (adjoint, safe, touched, sem) and MiniF runs (sem, passive arguments)
    lines, idx, jobs, jdx = [], [], [], []
    for k, e in live:
        res = e["res"]
        b = [[list(l), v] for l, v in e["bind"]]
        allv = R.active_locs(k, res.names, *WINDOW)
        if e["formed"]:
            locs = allv + [(res.names.id(n),) for n in k.locals]
            act = [(l, rng.randint(-4, 4)) for l in locs]
            bb = b + [[list(l), v] for l, v in act]
            lids = [res.names.id(n) for n in k.active if n in k.locals]
            plain = [[list(l), v] for l, v in R.bindings(k, res.names)] + [[list(l), v] for l, v in act]
            aids = sorted({res.names.id(n) for n in k.active})
            idx.append((e, len(lines)))
            lines += [sx(["adjroutine", lids, res.tl_form]), sx(["why", res.tl_form, b]),
                      sx(["touched", res.tl_form, b]), sx(["touched", res.ad_form, b]),
                      sx(["sem", res.tl_form, bb, [list(l) for l in locs]]),
                      sx(["run", res.tl_form, plain, [list(l) for l in locs]]),
                      sx(["accepted", aids, res.tl_form]), sx(["scoped", res.tl_form])]
            jdx.append((e, "sem", len(jobs)))
            jobs.append((res.tlpp_minif, R.bindings(k, res.names) + act, locs))
        act = [(l, rng.randint(-4, 4)) for l in allv if rng.random() < 0.3]
        q, expect = [], []
        for name, v in k.passive_vals.items():
            for i, x in (v.items() if isinstance(v, dict) else [(None, v)]):
                q.append((res.names.id(name),) if i is None else (res.names.id(name), i))
                expect.append(x)
        e["passive_q"], e["passive_expect"] = q, expect
        jdx.append((e, "passive", len(jobs)))
        jobs.append((res.ad_minif, R.bindings(k, res.names) + act, q))
    out = _c19(lines) if lines else []
    mf = minif.model_exec(jobs) if jobs else []
    for e, i in idx:
        res = e["res"]
        e["model_adjoint"], e["real_adjoint"] = out[i], sx(res.ad_form)
        e["structural"] = out[i] == e["real_adjoint"]
        e["reasons"] = common.parse_sx(out[i + 1])
        e["safe"] = e["reasons"] == []
        if res.interleaved:
            # passive assignments between active statements: the read-only-store operations do not apply
            e["safe"] = e["reasons"] = None
        e["touched"] = [common.parse_sx(out[i + 2]), common.parse_sx(out[i + 3])]
        # C19.sem (read-only passive store) is the Fortran reading only for programs without passive assignments whose
        # loop variables are read inside their loops (C19_run_eq_sem); a passive prelude is handled through the bindings
        pure_scoped = out[i + 7] == "1" or (bool(res.prelude) and not res.interleaved)
        e["sem_model"] = common.parse_sx(out[i + 4]) if pure_scoped else None
        e["run_model"] = [int(t.split(":")[0]) for t in out[i + 5].strip("()").split()]
        e["model_accepts"] = out[i + 6] == "1"
    for e, what, j in jdx:
        if what == "sem":
            # C19.run (Fortran reading) always, C19.sem (read-only passive store) when there are no interleaved passives
            e["sem_ok"] = e["run_model"] == mf[j] and e["sem_model"] in (None, mf[j])
            if not e["sem_ok"]:
                e["sem_pair"] = ("run " + str(e["run_model"])[:200] + " sem " + str(e["sem_model"])[:200], str(mf[j])[:300])
        else:
            for loc, g, x in zip(e["passive_q"], mf[j], e["passive_expect"]):
                if g != x:
                    e["passive_defect"] = {"kind": "passive variable changed by the adjoint",
                                           "passive_location": list(loc), "observed": g, "expected": x}
                    break
    # round 2: matrices of the ORIGINAL TL routine and of the REAL adjoint on unit vectors
    lines, idx = [], []
    for k, e in live:
        res = e["res"]
        allv = R.active_locs(k, res.names, *WINDOW)
        if e["formed"]:
            args = {res.names.id(n) for n in k.scalars + k.arrays1 + k.arrays2}
            rank = {res.names.id(n): r for ns, r in ((k.scalars, 0), (k.arrays1, 1), (k.arrays2, 2)) for n in ns}
            got = {tuple(l[: rank[l[0]] + 1]) for t in e["touched"] for l in t if l[0] in args}
            locs = sorted(got | set(rng.sample(allv, min(12, len(allv)))))
        else:
            locs = allv if len(allv) <= 150 else sorted(rng.sample(allv, 150))
        e["locs"] = [list(l) for l in locs]
        b = [[list(l), v] for l, v in R.bindings(k, res.names)]
        idx.append((e, len(lines)))
        lines += [sx(["mfmatrix", res.tl_minif, b, e["locs"]]), sx(["mfmatrix", res.ad_minif, b, e["locs"]])]
    out = _c19(lines) if lines else []
    for e, i in idx:
        mtl, mad = common.parse_sx(out[i]), common.parse_sx(out[i + 1])
        d = transpose_defect(mtl, mad, e["locs"])
        if d is not None:
            d["kind"] = "adjoint is not the transpose"
        e["defect"] = d or e.get("passive_defect")
        e["nontrivial"] = any(any(x != 0 for j, x in enumerate(row) if j != i2) for i2, row in enumerate(mtl))
    return evs


def evaluate(kern, rng, use_api=True):
    return evaluate_batch([kern], rng, [use_api])[0]


def harness_inconclusive(outp):
    """A FAILED verdict of the single-precision harness is only trusted when the numbers are finite
    and the difference is far beyond rounding (a wrong adjoint gives O(1) relative error, i.e. about
    1e6..1e7 units of SPACING); NaN/Infinity or < 1e5 units is a floating-point artefact of the random
    kernel (growth in nested loops, cancellation), not a verdict."""
    toks = outp.replace("'", " ").split()
    nums = []
    for t in toks[-3:]:
        try:
            nums.append(float(t))
        except ValueError:
            return True
    if len(nums) < 3 or any(x != x or abs(x) == float("inf") for x in nums):
        return True
    return nums[2] < 1.0e5


def harness_verdict(kern, res):
    """compile + run the generated test harness"""
    return R.compile_and_run_harness(kern.src, res.ad_str, res.test_str)


# ---------------------------------------------------------------------------------------------
def classify(kern, ev, findings):
    """id of the known finding a failing kernel belongs to, or None.  Rule (DESIGN §4): the
    committed model reproduces the real output (structural agreement) AND the classifier of
    the finding accepts the input."""
    ids = {f["id"] for f in findings}
    reasons = set(ev.get("reasons") or [])
    # the model's own side condition `safe` fails because of a hidden alias or a spurious reversed iteration (and of
    # nothing else: a section statement that violates the acceptance rule is NOT a known finding)
    if ev["structural"] and reasons and reasons <= {"alias", "spurious"}:
        need = {"alias": "C19-hidden-alias", "spurious": "C19-zero-trip-nonunit-step"}
        if all(need[r] in ids for r in reasons):
            return "model-unsafe:" + ",".join(sorted(reasons))
    return None


def corpus_cases():
    d = os.path.join(common.ROOT, "corpus", "C19")
    out = []
    if os.path.isdir(d):
        for fn in sorted(os.listdir(d)):
            if fn.endswith(".json"):
                out.append((fn, json.load(open(os.path.join(d, fn)))))
    return out


def run(chk):
    chk.cov["rule"] = ("generated TL kernels (module + subroutine; active real arrays rank 1/2, scalars, local "
                       "temporaries; passive integer/real/logical arguments; loops with unit, non-unit, negative, "
                       "variable steps and zero-trip bounds; IF/ELSE on passive data); non-trivial = PSyAD accepted the "
                       "kernel and its TL matrix has an off-diagonal entry; distinct by source text + passive values")
    chk.assumptions += [
        "Fortran semantics = MiniF (integer-valued reals; validated against gfortran by minif_selftest); real "
        "division by passive coefficients is outside the exactly representable domain and only exercised by the "
        "compiled harness",
        "model: passive store read-only with scoped loop variables; assignments to passive variables (hoisted by "
        "schedule_node) and reads of a loop variable after its loop are checked on the real code only",
        "preprocess_trans (SymPy expand, array-notation lowering) is not modelled: the semantic check runs the "
        "ORIGINAL kernel against the real adjoint, the structural tie starts after preprocessing",
        "SymbolicMaths.equal on subscripts is modelled as syntactic equality (generator emits canonical subscripts)",
        "assignments to array sections (those that stay in array notation after preprocess_trans because strides differ, and "
        "AssignmentTrans._array_ranges_match) are OUTSIDE Model/AD.lean: they are generated (same-index increments, shifted "
        "scalar subscripts j/j+1/k/1, full ranges, rank 1 and 2), exported to MiniF by elementwise expansion with Fortran's "
        "evaluate-RHS-first semantics (constant section bounds) and checked against the transpose on unit vectors only",
        "RETURN statements are OUTSIDE Model/AD.lean and MiniF: the early-exit family (passive IF blocks containing RETURN in "
        "front of the first active statement; guard shapes x conditions x both outcomes) is exported to MiniF by RETURN "
        "elimination (c19_real._export_with_return: the continuation is copied into both branches of an IF that may "
        "return; RETURN inside a loop is not exportable) and checked against the transpose on unit vectors over ALL active "
        "locations",
        "compiled harness (single precision, random data): a FAILED verdict with NaN/Infinity or a difference below 1e5 "
        "SPACING units is treated as inconclusive; every kernel's exact transpose check is independent of it"]
    chk.cov["trusted_base"] = ["Lean 4.33.0 kernel", "axioms propext/Classical.choice/Quot.sound only (audited)",
                               "MiniF semantics + PSyIR->MiniF exporter (harness/minif.py)",
                               "linear-form exporter harness/props/c19_real.py", "gfortran 12 (harness tier)"]
    chk.lean()
    findings = common.known_findings("C19")
    rng = chk.rng
    thorough = chk.tier == "thorough"
    n_cases = 450 if thorough else 45
    n_harness = 80 if thorough else 4
    n_refused = 60 if thorough else 12
    n_sections = 250 if thorough else 30
    dist = {"accepted": 0, "refused": 0, "structural": 0, "outside_model": 0, "unsafe_known": 0, "harness_run": 0,
            "features": {}}

    def handle(kern, origin, ev):
        case = {"src": kern.src, "passive": kern.payload()["passive_vals"]}
        if ev["status"] == "refused":
            dist["refused"] += 1
            if getattr(kern, "sections", False):
                key = "sections_refused_" + str(ev["exc"]).split(":")[0]
                dist[key] = dist.get(key, 0) + 1
            chk.case(case, nontrivial=False, agreed=True)
            return
        if ev["status"] == "crashed":
            # PSyAD neither produced an adjoint nor refused with its own error class
            dist["refused"] += 1
            chk.case(case, nontrivial=False, agreed=False)
            chk.correspondence_broken("PSyAD crashed on a kernel of the subset: " + str(ev["exc"]), kern.payload(),
                                      "accepted", ev["exc"])
            return
        if ev.get("unexportable"):
            dist["unexportable"] = dist.get("unexportable", 0) + 1
            chk.case(case, nontrivial=False, agreed=True)
            return
        dist["accepted"] += 1
        if getattr(kern, "sections", False):
            dist["sections_accepted"] = dist.get("sections_accepted", 0) + 1
            if re.search(r"\([^()=]*:[^()=]*\)\s*=", ev["res"].ad_str.split("contains")[-1]):
                dist["sections_kept_array_notation"] = dist.get("sections_kept_array_notation", 0) + 1
        for f in kern.features:
            dist["features"][f] = dist["features"].get(f, 0) + 1
        chk.case(case, nontrivial=bool(ev.get("nontrivial")), agreed=ev["structural"] is True and ev["sem_ok"] is True)
        if ev["structural"] is None:
            dist["outside_model"] += 1
        elif ev["structural"]:
            dist["structural"] += 1
        if ev["defect"] is not None:
            if classify(kern, ev, findings) is not None:
                dist["unsafe_known"] += 1
            else:
                chk.violation(dict(kern.payload(), kind="failing-input", origin=origin, observed=ev["defect"],
                                   expected="adjoint matrix = transpose of the TL matrix; passive arguments unchanged"))
        if ev.get("model_accepts") is False:
            chk.correspondence_broken("PSyAD produced an adjoint for a kernel that C19.Accepted refuses", kern.payload(),
                                      "refused", "accepted")
        if ev["structural"] is False:
            chk.correspondence_broken("real adjoint differs from C19.adjointRoutine", kern.payload(),
                                      ev["model_adjoint"], ev["real_adjoint"])
        if ev["sem_ok"] is False:
            chk.correspondence_broken("C19.sem differs from MiniF.exec on the TL program", kern.payload(), *ev["sem_pair"])

    # corpus first
    cases = [(G.Kernel.from_payload(p), "corpus/" + fn) for fn, p in corpus_cases()]
    for (kern, origin), ev in zip(cases, evaluate_batch([c[0] for c in cases], rng)):
        handle(kern, origin, ev)
    # seeded kernels, in batches
    gen = G.KGen(rng)
    done = 0
    while done < n_cases and len(chk.violations) < 3:
        batch = [gen.kernel() for _ in range(min(25, n_cases - done))]
        flags = [(done + i) % 4 == 0 for i in range(len(batch))]
        for kern, ev in zip(batch, evaluate_batch(batch, rng, flags)):
            handle(kern, "generated", ev)
        done += len(batch)
    # array-notation stream (outside Model/AD.lean: only the semantic check applies)
    sgen = G.SecGen(rng)
    done = 0
    while done < n_sections and len(chk.violations) < 3:
        batch = [sgen.kernel() for _ in range(min(25, n_sections - done))]
        for kern, ev in zip(batch, evaluate_batch(batch, rng, [False] * len(batch))):
            handle(kern, "generated-sections", ev)
        done += len(batch)
    # early-exit family (RETURN is outside Model/AD.lean: only the semantic check applies).  A guarded kernel whose
    # guard falls through behaves like its unguarded twin with the same passive values: its failure is reported only
    # when the twin passes (a failing twin is handled - known finding or violation - by the streams above)
    import copy as _copy
    for base, variants in G.guard_family(rng, 8 if thorough else 2, 6 if thorough else 2):
        if len(chk.violations) >= 3:
            break
        twins = []
        for kern, returns, over in variants:
            tw = _copy.deepcopy(base)
            tw.passive_vals.update(over)
            twins.append(tw)
        need = [i for i, v in enumerate(variants) if not v[1]]
        batch = [v[0] for v in variants] + [twins[i] for i in need]
        evs = evaluate_batch(batch, rng, [i % 3 == 0 for i in range(len(batch))])
        twin_ev = {i: evs[len(variants) + j] for j, i in enumerate(need)}
        for i, ((kern, returns, over), ev) in enumerate(zip(variants, evs)):
            dist["guard_" + ("returns" if returns else "falls_through")] = dist.get(
                "guard_" + ("returns" if returns else "falls_through"), 0) + 1
            tw = twin_ev.get(i)
            if tw is not None and (tw["status"] != "ok" or tw["defect"] is not None) and ev["status"] == tw["status"]:
                dist["guard_twin_not_clean"] = dist.get("guard_twin_not_clean", 0) + 1
                chk.case({"src": kern.src, "passive": kern.payload()["passive_vals"]}, nontrivial=False, agreed=True)
                continue
            handle(kern, "generated-early-return", ev)
    # kernels that must be refused, by the real code and by the linear-form exporter
    for _ in range(n_refused):
        what, src, active = G.refused_kernel(rng)
        res = R.pipeline(src, active)
        # kernels the exporter can still write down must be refused by the model's Accepted as well
        model_refuses = res.tl_form is None or _c19([sx(["accepted", sorted({res.names.id(n) for n in active}),
                                                         res.tl_form])])[0] == "0"
        dist["refused_in_model_form"] = dist.get("refused_in_model_form", 0) + (res.tl_form is not None)
        agreed = res.status == "refused" and model_refuses
        if res.status == "refused" and not model_refuses:
            chk.correspondence_broken("PSyAD refuses a kernel that C19.Accepted accepts: " + what, {"src": src},
                                      "accepted", res.exc)
        chk.case({"src": src}, nontrivial=False, agreed=agreed)
        dist["refused"] += 1
        if res.status == "ok":
            chk.violation({"src": src, "active": active, "kind": "failing-input", "refusal": what,
                           "observed": "PSyAD produced an adjoint", "expected": "refusal: " + what})
        elif res.status == "crashed":
            chk.correspondence_broken("PSyAD crashed instead of refusing: " + what, {"src": src}, "refused", res.exc)
    # the compiled harness: real-only argument lists (valid on the pinned tree) and mixed ones
    hgen_real = G.KGen(rng, real_only=True, allow_unsafe=False, cond_on_reals=False, shift=5, init_locals=True)
    hgen_mixed = G.KGen(rng, real_only=False, allow_unsafe=False, cond_on_reals=False, shift=5, init_locals=True)
    k = -2
    while dist["harness_run"] < n_harness + 1 and k < 5 * n_harness:
        k += 1
        if chk.violations:
            break
        kern = HARNESS_PROBE if k < 0 else (hgen_real if k % 3 else hgen_mixed).kernel()
        res = R.pipeline(kern.src, kern.active, want_test=True)
        if res.status == "crashed":
            chk.violation({"src": kern.src, "active": kern.active, "kind": "failing-input", "clause": "harness",
                           "observed": "generate_adjoint_str(create_test=True) crashed: " + str(res.exc),
                           "expected": "generated harness compiles, runs, PASSED"})
            continue
        if res.status != "ok":
            continue
        if k >= 0:
            # the harness gives every passive integer the value 1 and every logical .true. (fixed tree); control flow of
            # these kernels depends on nothing else, so C19.safe under those values tells whether the run stays outside the
            # known-finding classes; kernels that do not are not compiled
            if res.tl_form is None:
                dist["harness_skipped_no_form"] = dist.get("harness_skipped_no_form", 0) + 1
                continue
            hb = [[[res.names.id(n)], 1] for n in ("n1", "n2", "k1", "lg") if not kern.real_only]
            if _c19([sx(["safe", res.tl_form, hb])])[0] != "1":
                dist["harness_skipped_unsafe"] = dist.get("harness_skipped_unsafe", 0) + 1
                continue
        status, outp = harness_verdict(kern, res)
        dist["harness_run"] += 1
        if status == "failed" and harness_inconclusive(outp):
            # single-precision overflow / cancellation in a kernel whose exact matrix check passed
            dist["harness_inconclusive"] = dist.get("harness_inconclusive", 0) + 1
            continue
        chk.case({"harness": kern.src}, nontrivial=True, agreed=(status == "passed"))
        if status != "passed":
            chk.violation({"src": kern.src, "active": kern.active, "kind": "failing-input", "clause": "harness",
                           "observed": status + ": " + outp[-600:], "expected": "generated harness compiles, runs, PASSED"})
    # known findings
    for f in findings:
        if replay_finding(f):
            chk.known(f["what"])
    chk.cov["distribution"] = dist


# ---------------------------------------------------------------------------------------------
def replay_finding(f):
    """True if the finding still reproduces on the real code"""
    w = f["witness"]
    kern = G.Kernel.from_payload(w)
    import random
    ev = evaluate(kern, random.Random(1))
    return ev["status"] == "ok" and ev["defect"] is not None


def replay(payload):
    import random
    if payload.get("clause") == "harness":
        kern = G.Kernel(payload["src"], payload["active"], [], {}, [], [], [], False, False, [])
        res = R.pipeline(kern.src, kern.active, want_test=True)
        if res.status != "ok":
            print("PSyAD status:", res.status, res.exc)
            return 0
        status, outp = harness_verdict(kern, res)
        print("generated harness:", status, "\n", outp[-800:], "\nexpected: compiles, runs, PASSED")
        return 0 if status == "passed" else 1
    if "refusal" in payload:
        res = R.pipeline(payload["src"], payload["active"])
        print("expected refusal (" + payload["refusal"] + "); real code:", res.status, res.exc or "")
        return 1 if res.status == "ok" else 0
    if "src" not in payload:
        print("nothing to replay against the real code:", json.dumps(payload.get("broken", payload))[:1500])
        return 1
    kern = G.Kernel.from_payload(payload)
    ev = evaluate(kern, random.Random(1))
    print(kern.src)
    print("PSyAD status:", ev["status"], ev.get("exc") or "")
    if ev["status"] == "ok":
        print(ev["res"].ad_str)
        print("observed:", ev["defect"] or "adjoint matrix is the transpose of the TL matrix; passive arguments unchanged")
        print("expected:", payload.get("expected", "adjoint matrix = transpose of the TL matrix"))
        print("model: structural agreement =", ev["structural"], " safe =", ev["safe"])
        if ev["defect"] is not None and classify(kern, ev, common.known_findings("C19")) is not None:
            print("this failure belongs to a known finding (model reproduces the real adjoint, C19.safe is false)")
            return 0
    return 1 if (ev["status"] == "ok" and ev["defect"] is not None) else 0
