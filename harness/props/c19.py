"""C19 — PSyAD adjoints are the exact transpose of the tangent-linear code.

Lean: Model/AD.lean (linear TL programs, `adjoint` = AdjointVisitor + AssignmentTrans),
Props/C19.lean.  This check
(b) ties the model to the real code: generated TL kernels -> real preprocess_trans +
    generate_adjoint (= generate_adjoint_str) -> the produced adjoint in linear form must equal the
    model's `adjointRoutine`; the model's semantics is compared with MiniF on the same programs;
    kernels outside the subset must be refused by both;
(c) evaluates the property itself on the real code for every kernel: matrix of the ORIGINAL TL
    routine and of the REAL adjoint routine by executing both (exported to MiniF, exact integers)
    on unit vectors; adjoint matrix must be the transpose; passive arguments unchanged;
    the generated harness is compiled and run with gfortran (a few in quick, many in thorough);
(d) replays the known findings."""
import json
import os

import common
from common import driver, sx
import minif

from props import c19_gen as G
from props import c19_real as R

WINDOW = (G.A_LO, G.A_HI, G.M_LO, G.M_HI)


# ---------------------------------------------------------------------------------------------
def matrices(kern, res, locs):
    """(M_tl, M_ad) as lists of rows; row l = image of the unit vector e_l restricted to locs"""
    b = [[list(l), v] for l, v in R.bindings(kern, res.names)]
    q = [list(l) for l in locs]
    out = driver("C19", [sx(["mfmatrix", res.tl_minif, b, q]), sx(["mfmatrix", res.ad_minif, b, q])])
    for o in out:
        if not o.startswith("("):
            raise common.Infra("C19 driver mfmatrix: " + o[:200])
    return [common.parse_sx(o) for o in out]


def transpose_defect(mtl, mad, locs):
    """None, or the first entry where adjoint matrix != transpose of the TL matrix"""
    n = len(locs)
    for l in range(n):
        for m in range(n):
            # mad[l][m] = (A* e_l)(m)   must equal   (A e_m)(l) = mtl[m][l]
            if mad[l][m] != mtl[m][l]:
                return {"adjoint_input": locs[l], "adjoint_output": locs[m], "observed": mad[l][m],
                        "expected": mtl[m][l]}
    return None


def relevant_locs(kern, res, rng):
    """locations to probe: everything the two programs touch (asked of the model when both
    are in linear form) plus a random sample of the declared window; the whole window otherwise"""
    allv = R.active_locs(kern, res.names, *WINDOW)
    if res.tl_form is None or res.ad_form is None:
        return allv if len(allv) <= 130 else sorted(rng.sample(allv, 130))
    b = [[list(l), v] for l, v in R.bindings(kern, res.names)]
    out = driver("C19", [sx(["touched", res.tl_form, b]), sx(["touched", res.ad_form, b])])
    args = {res.names.id(n) for n in kern.scalars + kern.arrays1 + kern.arrays2}
    rank = {res.names.id(n): r for ns, r in ((kern.scalars, 0), (kern.arrays1, 1), (kern.arrays2, 2)) for n in ns}
    got = set()
    for o in out:
        for l in common.parse_sx(o):
            if l[0] in args:
                got.add(tuple(l[: rank[l[0]] + 1]))
    extra = rng.sample(allv, min(12, len(allv)))
    return sorted(got | set(extra))


def passive_changed(kern, res, rng):
    """run the real adjoint on random active values; any passive ARGUMENT that changed"""
    act = {l: rng.randint(-4, 4) for l in R.active_locs(kern, res.names, *WINDOW) if rng.random() < 0.3}
    b = R.bindings(kern, res.names, act)
    q, expect = [], []
    for name, v in kern.passive_vals.items():
        if isinstance(v, dict):
            for i, x in v.items():
                q.append((res.names.id(name), i))
                expect.append(x)
        else:
            q.append((res.names.id(name),))
            expect.append(v)
    got = minif.model_exec([(res.ad_minif, b, q)])[0]
    for loc, g, e in zip(q, got, expect):
        if g != e:
            return {"passive_location": list(loc), "observed": g, "expected": e}
    return None


def sem_agrees(kern, res, rng):
    """model semantics of the (preprocessed) TL program = MiniF semantics of the same program"""
    locs = R.active_locs(kern, res.names, *WINDOW)
    locs += [(res.names.id(n),) for n in kern.locals]
    act = {l: rng.randint(-4, 4) for l in locs}
    b = R.bindings(kern, res.names, act)
    mf = minif.model_exec([(res.tlpp_minif, b, locs)])[0]
    mo = driver("C19", [sx(["sem", res.tl_form, [[list(l), v] for l, v in b], [list(l) for l in locs]])])[0]
    return common.parse_sx(mo) == mf, mo[:200], str(mf)[:200]


def model_view(kern, res):
    """(model adjoint text, real adjoint text, safe?) for a kernel in linear form"""
    b = [[list(l), v] for l, v in R.bindings(kern, res.names)]
    locs = [res.names.id(n) for n in kern.active if n in kern.locals]
    out = driver("C19", [sx(["adjroutine", locs, res.tl_form]), sx(["safe", res.tl_form, b])])
    return out[0], sx(res.ad_form), out[1] == "1"


def evaluate(kern, rng, want_harness=False, use_api=True):
    """Everything the check looks at for one kernel.  Returns a dict:
    status, structural (None/True/False), sem_ok, safe, defect (property failure or None), …"""
    out = {"status": None, "structural": None, "sem_ok": None, "safe": None, "defect": None, "why_no_form": None}
    res = R.pipeline(kern.src, kern.active, want_test=want_harness, use_api=use_api)
    out["status"], out["exc"] = res.status, res.exc
    out["res"] = res
    if res.status != "ok":
        return out
    if not res.api_matches:
        out["defect"] = {"kind": "generate_adjoint_str differs from its own steps"}
        return out
    if res.tl_form is not None and res.ad_form is not None:
        mo, im, safe = model_view(kern, res)
        out["structural"], out["safe"], out["model_adjoint"], out["real_adjoint"] = (mo == im), safe, mo, im
        ok, a, b = sem_agrees(kern, res, rng)
        out["sem_ok"] = ok
        if not ok:
            out["sem_pair"] = (a, b)
    else:
        out["why_no_form"] = res.form_why
    locs = relevant_locs(kern, res, rng)
    mtl, mad = matrices(kern, res, locs)
    d = transpose_defect(mtl, mad, [list(l) for l in locs])
    if d is None:
        d = passive_changed(kern, res, rng)
        if d is not None:
            d["kind"] = "passive variable changed by the adjoint"
    else:
        d["kind"] = "adjoint is not the transpose"
    out["defect"] = d
    out["nontrivial"] = any(any(x != 0 for j, x in enumerate(row) if j != i) for i, row in enumerate(mtl))
    return out


def harness_verdict(kern, res):
    """compile + run the generated test harness"""
    return R.compile_and_run_harness(kern.src, res.ad_str, res.test_str)


# ---------------------------------------------------------------------------------------------
def classify(kern, ev, findings):
    """id of the known finding a failing kernel belongs to, or None.  Rule (DESIGN §4): the
    committed model reproduces the real output (structural agreement) AND the classifier of
    the finding accepts the input."""
    ids = {f["id"] for f in findings}
    if ev["structural"] and ev["safe"] is False and ids & {"C19-zero-trip-nonunit-step", "C19-hidden-alias"}:
        # the model's own side condition `safe` fails: hidden alias or spurious reversed iteration
        return "model-unsafe"
    return None


def corpus_cases():
    d = os.path.join(common.ROOT, "corpus", "C19")
    out = []
    if os.path.isdir(d):
        for fn in sorted(os.listdir(d)):
            if fn.endswith(".json"):
                out.append((fn, json.load(open(os.path.join(d, fn)))))
    return out


def run(chk):
    chk.cov["rule"] = ("generated TL kernels (module + subroutine; active real arrays rank 1/2, scalars, local "
                       "temporaries; passive integer/real/logical arguments; loops with unit, non-unit, negative, "
                       "variable steps and zero-trip bounds; IF/ELSE on passive data); non-trivial = PSyAD accepted the "
                       "kernel and its TL matrix has an off-diagonal entry; distinct by source text + passive values")
    chk.assumptions += [
        "Fortran semantics = MiniF (integer-valued reals; validated against gfortran by minif_selftest); real "
        "division by passive coefficients is outside the exactly representable domain and only exercised by the "
        "compiled harness",
        "model: passive store read-only with scoped loop variables; assignments to passive variables (hoisted by "
        "schedule_node) and reads of a loop variable after its loop are checked on the real code only",
        "preprocess_trans (SymPy expand, array-notation lowering) is not modelled: the semantic check runs the "
        "ORIGINAL kernel against the real adjoint, the structural tie starts after preprocessing",
        "SymbolicMaths.equal on subscripts is modelled as syntactic equality (generator emits canonical subscripts)"]
    chk.cov["trusted_base"] = ["Lean 4.33.0 kernel", "axioms propext/Classical.choice/Quot.sound only (audited)",
                               "MiniF semantics + PSyIR->MiniF exporter (harness/minif.py)",
                               "linear-form exporter harness/props/c19_real.py", "gfortran 12 (harness tier)"]
    chk.lean()
    findings = common.known_findings("C19")
    rng = chk.rng
    thorough = chk.tier == "thorough"
    n_cases = 600 if thorough else 55
    n_harness = 120 if thorough else 6
    n_refused = 60 if thorough else 12
    dist = {"accepted": 0, "refused": 0, "structural": 0, "outside_model": 0, "unsafe_known": 0, "harness_run": 0,
            "features": {}}

    def handle(kern, origin):
        dist["n"] = dist.get("n", 0) + 1
        ev = evaluate(kern, rng, use_api=(origin != "generated" or dist["n"] % 4 == 0))
        case = {"src": kern.src, "passive": kern.payload()["passive_vals"]}
        if ev["status"] == "refused":
            dist["refused"] += 1
            chk.case(case, nontrivial=False, agreed=True)
            return
        if ev["status"] == "crashed":
            # PSyAD neither produced an adjoint nor refused with its own error class
            dist["refused"] += 1
            chk.case(case, nontrivial=False, agreed=False)
            chk.correspondence_broken("PSyAD crashed on a kernel of the subset: " + str(ev["exc"]), kern.payload(),
                                      "accepted", ev["exc"])
            return
        dist["accepted"] += 1
        for f in kern.features:
            dist["features"][f] = dist["features"].get(f, 0) + 1
        agreed = ev["structural"] is not False and ev["sem_ok"] is not False
        chk.case(case, nontrivial=bool(ev.get("nontrivial")), agreed=agreed and ev["structural"] is True)
        if ev["structural"] is None:
            dist["outside_model"] += 1
        elif ev["structural"]:
            dist["structural"] += 1
        if ev["defect"] is not None:
            fid = classify(kern, ev, findings)
            if fid is not None:
                dist["unsafe_known"] += 1
            else:
                chk.violation(dict(kern.payload(), kind="failing-input", origin=origin, observed=ev["defect"],
                                   expected="adjoint matrix = transpose of the TL matrix; passive arguments unchanged"))
        elif ev["structural"] and ev["safe"] is False:
            pass        # unsafe by the model's criterion but numerically harmless here (e.g. zero coefficient)
        if ev["structural"] is False:
            chk.correspondence_broken("real adjoint differs from C19.adjointRoutine", kern.payload(),
                                      ev["model_adjoint"], ev["real_adjoint"])
        if ev["sem_ok"] is False:
            chk.correspondence_broken("C19.sem differs from MiniF.exec on the TL program", kern.payload(), *ev["sem_pair"])

    # corpus first
    for fn, p in corpus_cases():
        handle(G.Kernel.from_payload(p), "corpus/" + fn)
    # seeded kernels
    gen = G.KGen(rng)
    for _ in range(n_cases):
        handle(gen.kernel(), "generated")
        if len(chk.violations) >= 3:
            break
    # kernels that must be refused, by the real code and by the linear-form exporter
    for _ in range(n_refused):
        what, src, active = G.refused_kernel(rng)
        res = R.pipeline(src, active)
        agreed = res.status == "refused" and res.tl_form is None
        chk.case({"src": src}, nontrivial=False, agreed=agreed)
        dist["refused"] += 1
        if res.status == "ok":
            chk.violation({"src": src, "active": active, "kind": "failing-input", "refusal": what,
                           "observed": "PSyAD produced an adjoint", "expected": "refusal: " + what})
        elif res.status == "crashed":
            chk.correspondence_broken("PSyAD crashed instead of refusing: " + what, {"src": src}, "refused", res.exc)
    # the compiled harness: real-only argument lists (valid on the pinned tree) and mixed ones
    hgen_real = G.KGen(rng, real_only=True, allow_unsafe=False)
    hgen_mixed = G.KGen(rng, real_only=False, allow_unsafe=False)
    for k in range(n_harness):
        if chk.violations:
            break
        kern = (hgen_real if k % 3 else hgen_mixed).kernel()
        res = R.pipeline(kern.src, kern.active, want_test=True)
        if res.status != "ok":
            continue
        status, outp = harness_verdict(kern, res)
        dist["harness_run"] += 1
        chk.case({"harness": kern.src}, nontrivial=True, agreed=(status == "passed"))
        if status != "passed":
            chk.violation({"src": kern.src, "active": kern.active, "kind": "failing-input", "clause": "harness",
                           "observed": status + ": " + outp[-600:], "expected": "generated harness compiles, runs, PASSED"})
    # known findings
    for f in findings:
        if replay_finding(f):
            chk.known(f["what"])
    chk.cov["distribution"] = dist


# ---------------------------------------------------------------------------------------------
def replay_finding(f):
    """True if the finding still reproduces on the real code"""
    w = f["witness"]
    kern = G.Kernel.from_payload(w)
    import random
    ev = evaluate(kern, random.Random(1))
    return ev["status"] == "ok" and ev["defect"] is not None


def replay(payload):
    import random
    if payload.get("clause") == "harness":
        kern = G.Kernel(payload["src"], payload["active"], [], {}, [], [], [], False, False, [])
        res = R.pipeline(kern.src, kern.active, want_test=True)
        if res.status != "ok":
            print("PSyAD status:", res.status, res.exc)
            return 0
        status, outp = harness_verdict(kern, res)
        print("generated harness:", status, "\n", outp[-800:], "\nexpected: compiles, runs, PASSED")
        return 0 if status == "passed" else 1
    if "refusal" in payload:
        res = R.pipeline(payload["src"], payload["active"])
        print("expected refusal (" + payload["refusal"] + "); real code:", res.status, res.exc or "")
        return 1 if res.status == "ok" else 0
    if "src" not in payload:
        print("nothing to replay against the real code:", json.dumps(payload.get("broken", payload))[:1500])
        return 1
    kern = G.Kernel.from_payload(payload)
    ev = evaluate(kern, random.Random(1))
    print(kern.src)
    print("PSyAD status:", ev["status"], ev.get("exc") or "")
    if ev["status"] == "ok":
        print(ev["res"].ad_str)
        print("observed:", ev["defect"] or "adjoint matrix is the transpose of the TL matrix; passive arguments unchanged")
        print("expected:", payload.get("expected", "adjoint matrix = transpose of the TL matrix"))
        print("model: structural agreement =", ev["structural"], " safe =", ev["safe"])
    return 1 if (ev["status"] == "ok" and ev["defect"] is not None) else 0
