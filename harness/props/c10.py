"""C10 — directive trees: real validate_global_constraints / FortranWriter vs. Lean model
`C10.writer`, the property (`coreOk`, `rectOk`, `mixOk` of the Lean spec) evaluated on every
tree the real writer accepts, gfortran as second oracle."""
import glob
import itertools
import json
import os
import re

import common
from common import driver
from props import c10_real as R

DRIVER = "C10"
MODEL, NS = "Directives", "C10"
CHAIN_KINDS = ("loop", "ompParallel", "ompDo", "ompParallelDo", "ompTeamsDPD", "ompLoop", "ompSingle", "ompMaster",
               "ompTaskloop", "ompTask", "ompTarget", "ompSimd", "accParallel", "accKernels", "accData", "accLoop")
DEEP_KINDS = ("ompParallel", "ompDo", "ompLoop", "ompSingle", "ompTaskloop", "ompTask", "ompTarget", "accParallel",
              "accLoop")
ATOM = [["astmt", 0, []]]
NEST2 = [["loop", 0, [["loop", 0, [["stmt", 0, []]]]]]]
IMPERFECT = [["loop", 0, [["loop", 0, [["stmt", 0, []]]], ["stmt", 0, []]]]]
TRIANGULAR = [["loop", 0, [["loop", 1, [["stmt", 0, []]]]]]]


def nest3(deps):
    """3-deep perfect nest whose loops have the given dependence distances"""
    return [["loop", deps[0], [["loop", deps[1], [["loop", deps[2], [["stmt", 0, []]]]]]]]]


def wrap(chain, body, collapse=0):
    for k in reversed(chain):
        body = [[k, collapse if k in R.LOOPDIRS else 0, body]]
    return body


def catalogue():
    """Fixed catalogue of small nestings (<= 3 directive/loop levels around a <= 2-deep nest)."""
    out = []
    for depth in (0, 1, 2, 3):
        for chain in itertools.product(CHAIN_KINDS if depth < 3 else DEEP_KINDS, repeat=depth):
            out.append(wrap(chain, NEST2))
            if depth <= 2:
                if any(k in R.LOOPDIRS for k in chain):
                    out.append(wrap(chain, NEST2, 2))
                    out.append(wrap(chain, TRIANGULAR, 2))
                    if depth <= 1 or chain[1] in R.LOOPDIRS:
                        out.append(wrap(chain, IMPERFECT, 2))
                        out.append(wrap(chain, NEST2, 3))
                out.append(wrap(chain, [["ompTaskwait", 0, []]] + NEST2))
            if depth <= 1:
                if any(k in R.LOOPDIRS for k in chain):
                    for deps in ((0, 0, 1), (0, 0, 2), (0, 1, 0), (0, 0, 3), (0, 2, 0)):
                        out.append(wrap(chain, nest3(deps), 3))
                    out.append(wrap(chain, nest3((0, 0, 1)), 2))
                out.append(wrap(chain, [["block", 0, NEST2], ["accEnterData", 0, []]]))
                out.append(wrap(chain, []))
                out.append(wrap(chain, [["loop", 0, [["ompAtomic", 0, ATOM], ["accUpdate", 0, []]]]]))
                out.append(wrap(chain, [["loop", 0, [["accAtomic", 0, ATOM]]]]))
                out.append(wrap(chain, [["ompAtomic", 0, [["stmt", 0, []]]]]))
                out.append(wrap(chain, [["accAtomic", 0, ATOM + ATOM]]))
                out.append(wrap(chain, [["codeBlock", 0, []]] + NEST2))
                out.append(wrap(chain, [["loop", 0, [["loop", 0, [["codeBlock", 0, []]]]]]]))
                out.append(wrap(chain, [["accAtomic", 0, [["codeBlock", 0, []]]]]))
                out.append(wrap(chain, [["ompDeclareTarget", 0, []]] + NEST2))
                out.append(wrap(chain, [["accRoutine", 0, []]] + NEST2))
                out.append([["accRoutine", 0, []]] + wrap(chain, NEST2))
                out.append([["ompDeclareTarget", 0, []], ["accRoutine", 0, []]] + wrap(chain, NEST2))
                out.append([["accRoutine", 0, []], ["ompDeclareTarget", 0, []]] + wrap(chain, NEST2))
                out.append([["stmt", 0, []], ["accRoutine", 0, []]] + wrap(chain, NEST2))
                out.append(wrap(chain, NEST2) + [["ompDeclareTarget", 0, []]])
                out.append(wrap(["ompParallel", "ompSingle"], wrap(chain, NEST2), 0))
                out.append([["ompParallel", 0, [["ompSingle", 1, wrap(chain, NEST2)]]]])
    # empty loop bodies under a collapse clause (IndexError in _validate_collapse_value)
    for k in R.LOOPDIRS:
        for top in ("ompParallel", "accParallel", "ompTarget"):
            out.append(wrap([top, k], [["loop", 0, [["loop", 0, []]]]], 2))
            out.append(wrap([top, k], [["loop", 0, []]], 1))
    return out


ORPHAN_ACCLOOP = [["accLoop", 0, NEST2]]
# routine shapes for the module catalogue: every routine-level fact a check can depend on, present or
# absent (acc routine / declare target at the top, compute regions, OpenMP, orphaned loop directives)
ROUTINE_SHAPES = [
    NEST2,
    [["accRoutine", 0, []]] + NEST2,
    [["ompDeclareTarget", 0, []]] + NEST2,
    [["ompDeclareTarget", 0, []], ["accRoutine", 0, []]] + NEST2,
    ORPHAN_ACCLOOP,
    [["accRoutine", 0, []]] + ORPHAN_ACCLOOP,
    [["ompDeclareTarget", 0, []]] + ORPHAN_ACCLOOP,
    [["accParallel", 0, ORPHAN_ACCLOOP]],
    [["accKernels", 0, NEST2]],
    [["accRoutine", 0, []], ["accParallel", 0, NEST2]],
    [["accRoutine", 0, []], ["ompParallelDo", 0, NEST2]],
    [["ompParallel", 0, [["ompDo", 2, NEST2]]]],
    [["ompDo", 0, NEST2]],
    [["stmt", 0, []], ["accRoutine", 0, []]] + ORPHAN_ACCLOOP,
    [["accEnterData", 0, []], ["accParallel", 0, NEST2]],
    [["block", 0, [["accRoutine", 0, []]]]] + ORPHAN_ACCLOOP,
]
TRIPLE_SHAPES = [ROUTINE_SHAPES[i] for i in (0, 1, 4, 5, 7, 9)]


def ccatalogue():
    """Fixed catalogue of modules: all ordered pairs of ROUTINE_SHAPES, all triples of TRIPLE_SHAPES."""
    out = [[a, b] for a in ROUTINE_SHAPES for b in ROUTINE_SHAPES]
    out += [[a, b, c] for a in TRIPLE_SHAPES for b in TRIPLE_SHAPES for c in TRIPLE_SHAPES]
    return out


def real_table():
    return [(f, R.validate_all(R.build(f))) for f in catalogue()]


def real_ctable():
    return [(c, R.validate_all(R.build_container(c))) for c in ccatalogue()]


def gen():
    """Translator: truth table of the real checks on the catalogue -> PsyVerif/Gen/Directives.lean."""
    rows = real_table()
    chunks = [rows[i:i + 200] for i in range(0, len(rows), 200)]
    t = ["import PsyVerif.Model.%s" % MODEL,
         "/-! GENERATED by harness/props/c10.py `gen()` from the working tree of PSyclone: outcome of running",
         "`validate_global_constraints` of every node (visitor order) on a fixed catalogue of nestings built",
         "by direct node construction.  Do not edit. -/",
         "namespace %s.Gen" % NS, "open %s %s.Kind %s.Forest %s.Outcome" % (NS, NS, NS, NS), ""]
    for i, chunk in enumerate(chunks):
        t.append("def table%d : List (Forest × Outcome) := [" % i)
        t.append(",\n".join("  (%s, %s)" % (R.lean_term(f), "crash" if o.startswith("crash") else o)
                            for f, o in chunk))
        t.append("]\n")
    t.append("def tableOk (f : Forest → Outcome) : Bool :=")
    t.append("  " + " &&\n  ".join("table%d.all (fun p => f p.1 == p.2)" % i for i in range(len(chunks))))
    t.append("\ndef tableSize : Nat := %d" % len(rows))
    crows = real_ctable()
    cchunks = [crows[i:i + 100] for i in range(0, len(crows), 100)]
    t.append("\n/-! modules (several routines): outcome of the same sweep over a whole Container -/")
    for i, chunk in enumerate(cchunks):
        t.append("def ctable%d : List (Container × Outcome) := [" % i)
        t.append(",\n".join("  ([%s], %s)" % (", ".join(R.lean_term(f) for f in c),
                                              "crash" if o.startswith("crash") else o) for c, o in chunk))
        t.append("]\n")
    t.append("def ctableOk (f : Container → Outcome) : Bool :=")
    t.append("  " + " &&\n  ".join("ctable%d.all (fun p => f p.1 == p.2)" % i for i in range(len(cchunks))))
    t.append("\ndef ctableSize : Nat := %d\n" % len(crows))
    from props import c10_introspect
    t.append(c10_introspect.lean_text())
    t.append("end %s.Gen\n" % NS)
    return {"PsyVerif/Gen/%s.lean" % MODEL: "\n".join(t)}


# ------------------------------------------------------------------ evaluation of one tree
def model_eval(forests):
    """forests: list of containers (each a list of routine forests)"""
    res = []
    for line in driver(DRIVER, [R.container_sx(c) for c in forests]):
        p = line.split()
        if len(p) != 7:
            raise common.Infra("driver answered %r" % line)
        res.append({"writer": p[0], "core": p[1] == "1", "rect": p[2] == "1", "mix": p[3] == "1",
                    "nowait": p[4] == "1", "nonempty": p[5] == "1", "first_bad": p[6]})
    return res


def norm(o):
    return "crash" if o.startswith("crash") else o


NOWAIT_OPENING = re.compile(r"^\s*!\$omp\s+single\b[^\n]*\bnowait\b", re.M | re.I)


def acc_data_in_acc_routine(code):
    """some program unit of the emitted text has both `!$acc routine` and an `!$acc data` region"""
    for unit in re.split(r"(?im)^\s*end\s+(?:subroutine|function)\b.*$", code):
        if re.search(r"(?im)^\s*!\$acc\s+routine\b", unit) and re.search(r"(?im)^\s*!\$acc\s+data\b", unit):
            return True
    return False


def judge(m, val, wout, gf, history=True, code=None):
    """The property on one tree.  m: model/spec verdicts; val: real validate sweep; wout: real writer
    outcome; gf: None or (ok, errors).  Returns (verdict, reason): verdict in ok | known | violation."""
    if wout.startswith("crash") and history:
        return "violation", "the writer raised %s instead of producing code or a GenerationError" % wout[6:]
    if wout != "accept":
        return "ok", ""
    if not m["core"]:
        return "violation", ("the writer emitted code for a directive tree that violates the OpenMP/OpenACC "
                             "nesting / loop-association rules (C10.coreOk = false)")
    if not m["rect"]:
        return "violation", ("the writer emitted a collapse clause over a non-rectangular loop nest "
                             "(C10.rectOk = false)")
    if not m["mix"]:
        return "violation", ("the writer emitted OpenMP directives nested in an OpenACC region or vice versa "
                             "(C10.mixOk = false)")
    if not m["nowait"] and (code is None or NOWAIT_OPENING.search(code)):
        # the finding is about the emitted TEXT: `nowait` on the opening `!$omp single` line (with the
        # candidate fix C10-single-nowait-end-line the clause moves to `!$omp end single`: not a finding)
        return "known", "C10-single-nowait-placement"
    if gf is not None and not gf[0] and code is not None and acc_data_in_acc_routine(code):
        # genuine defect kept as a known finding: ACCDataTrans is accepted inside a routine that carries `acc routine`
        # (fix b01d4e9 refuses compute regions there, not data regions); gfortran rejects the routine
        return "known", "C10-acc-data-in-acc-routine"
    if gf is not None and not gf[0]:
        return "violation", "gfortran -fopenmp -fopenacc rejects the emitted code: %s" % "; ".join(gf[1])
    return "ok", ""


class Item:
    """A tree to check: how it was produced, its abstraction (a container: one forest per routine) and
    the real outcomes."""
    def __init__(self, origin, forest, val, wout, code):
        self.origin, self.forest, self.val, self.wout, self.code = origin, forest, val, wout, code


def observe(origin, root, routine=None):
    """root: the whole tree handed to the writer (file container, module or a bare routine)"""
    root = root if root is not None else routine
    try:
        forest = R.abstract_container(root)
    except R.Unmodelled:
        return None
    val = R.validate_all(root)
    wout, text = R.writer_outcome(root)
    return Item(origin, forest, val, wout, text if wout == "accept" else None)


def random_forest(rng, depth=0):
    """Malformed/structured stream: random forests over all kinds (built directly)."""
    out = []
    for _ in range(rng.choice([0, 1, 1, 1, 2, 2, 3]) if depth else rng.randint(1, 3)):
        k = rng.choice(R.KINDS)
        if k in R.LEAVES:
            out.append([k, 0, []])
            continue
        if k in ("ompAtomic", "accAtomic") and rng.random() < 0.8:
            out.append([k, 0, [["astmt", 0, []]]])
            continue
        c = 0
        if k == "ompSingle":
            c = rng.choice([0, 0, 0, 1])
        if k in R.LOOPDIRS:
            c = rng.choice([0, 0, 1, 2, 2, 3])
        if k == "loop":
            c = rng.choice([0, 0, 0, 1, 2])
        body = random_forest(rng, depth + 1) if depth < 5 else [["stmt", 0, []]]
        if k in R.LOOPDIRS + ("ompTaskloop", "ompSimd", "ompTask") and rng.random() < 0.7:
            body = [["loop", rng.choice([0, 0, 0, 1]), random_forest(rng, depth + 2) if depth < 4 else []]]
        out.append([k, c, body])
    return out


def projections(forest, chain=()):
    """For every node: the chain of its ancestors' kinds wrapped around that node alone."""
    out = []
    for k, c, ch in forest:
        out.append(wrap_exact(chain, [[k, c, ch]]))
        out.append(wrap_exact(chain, [[k, c, strip(ch)]]))
        out += projections(ch, chain + ((k, c),))
    return out


def wrap_exact(chain, body):
    for k, c in reversed(chain):
        body = [[k, c, body]]
    return body


def strip(forest):
    """Drop every directive below (keep loops/statements): isolates the top node's own rule."""
    out = []
    for k, c, ch in forest:
        if k in ("stmt", "astmt", "codeBlock", "block", "loop"):
            out.append([k, c, strip(ch)])
        else:
            out += strip(ch)
    return out


def insert_leaf(forest, path, idx, kind):
    """Python twin of C10.insertLeaf (trivial list insertion), used to chain several insertions."""
    out = [list(x) for x in forest]
    if not path:
        out.insert(idx, [kind, 0, []])
        return out
    out[path[0]] = [out[path[0]][0], out[path[0]][1], insert_leaf(out[path[0]][2], path[1:], idx, kind)]
    return out


def record_step(steps, before, ri, mop, status, root, origin):
    """Remember one real transformation step (applied to routine number ri of the tree `root`) for
    comparison with C10.applyCOp.  before/after are containers: the WHOLE module is compared, so a
    step that touches another routine than ri is a disagreement (C10_step_frame)."""
    if status == "applied":
        try:
            after = R.abstract_container(root)
        except R.Unmodelled:
            return
        if mop is not None:
            steps.append((before, ri, mop, after, origin))
        else:
            mops = None
            if len(after) == len(before) and all(a == b for j, (a, b) in enumerate(zip(after, before)) if j != ri):
                mops = R.leaf_inserts(before[ri], after[ri])
            if mops is None:
                steps.append((before, ri, None, after, origin))       # not expressible: reported
                return
            cur = before
            for m in mops:
                nxt = list(cur)
                nxt[ri] = insert_leaf(cur[ri], m[3], m[4], m[1])
                steps.append((cur, ri, m, nxt, origin))
                cur = nxt
            if cur != after:
                steps.append((before, ri, None, after, origin))
    elif status == "error:IndexError" and mop is not None and mop[0] == "loopDir" and mop[2]:
        steps.append((before, ri, mop, None, origin))                 # the model must refuse as well


def check_steps(steps):
    lines, idx = [], []
    bad = []
    for i, (before, ri, mop, after, origin) in enumerate(steps):
        if mop is None:
            bad.append(("transformation step is not a C10.COp (or changed another routine)",
                        dict(origin, before=before), "-", after))
        else:
            lines.append("(AC %s %d %s)" % (R.container_sx(before), ri, R.op_sx(mop)))
            idx.append(i)
    for i, out in zip(idx, driver(DRIVER, lines)):
        before, ri, mop, after, origin = steps[i]
        expect = "none" if after is None else R.container_sx(after)
        if out.replace(" ", "") != expect.replace(" ", ""):
            bad.append(("transformation step differs from C10.applyCOp",
                        dict(origin, before=before, routine=ri, op=mop), out, expect))
    return len(lines), bad


EMPTY2 = ("subroutine s(n)\n  integer, intent(in) :: n\n  integer :: i, j, k\n"
          "  do i = 1, n\n    do j = 1, n\n    end do\n  end do\nend subroutine s\n")
EMPTY3 = ("subroutine s(n)\n  integer, intent(in) :: n\n  integer :: i, j, k\n"
          "  do i = 1, n\n    do j = 1, n\n      do k = 1, n\n      end do\n    end do\n  end do\nend subroutine s\n")


def empty_loop_probes():
    out = []
    for src, cols in ((EMPTY2, (2,)), (EMPTY3, (2, 3))):
        for op in ("ompDo", "ompParallelDo", "ompTeamsDPD", "ompLoop", "accLoop"):
            for col in cols:
                out.append((src, {"op": op, "path": [0], "collapse": col}))
    return out


XSRC = ("module m\n  implicit none\ncontains\n"
        + "".join("  subroutine r%d(a, b, n)\n    integer, intent(in) :: n\n    real, intent(inout) :: a(n,n), b(n,n)\n"
                  "    integer :: i, j\n    do i = 1, n\n      do j = 1, n\n        a(j,i) = b(j,i) + %d.0\n      end do\n"
                  "    end do\n    do i = 1, n\n      b(i,1) = 2.0\n    end do\n  end subroutine r%d\n" % (k, k + 1, k)
                  for k in range(2))
        + "end module m\n")


def cross_routine_ops():
    """One operation of every transformation kind, placed on a two-statement routine of XSRC."""
    ops = [{"op": k} for k in R.ROUTINE_OPS]
    ops += [{"op": k, "path": [0], "collapse": None} for k in R.LOOP_OPS]
    ops += [{"op": "accLoop", "path": [0], "collapse": 2}, {"op": "ompParallelDo", "path": [1], "collapse": None}]
    ops += [{"op": k, "path": [], "range": [0, 1], "nowait": False} for k in R.REGION_OPS]
    return ops


def cross_routine_histories(all_pairs, seed_rng):
    """(source, ops): two-step histories [X on routine p, Y on routine 1-p] for every ordered pair of
    transformation kinds in which one is a routine-level (declarative) transformation — in the thorough
    tier for ALL ordered pairs — plus a third step that closes an orphaned loop directive in a region."""
    ops = cross_routine_ops()
    out = []
    for ix, x in enumerate(ops):
        for iy, y in enumerate(ops):
            if not all_pairs and x["op"] not in R.ROUTINE_OPS and y["op"] not in R.ROUTINE_OPS \
                    and (ix * 31 + iy + seed_rng.randrange(7)) % 7:
                continue
            p = (ix + iy) % 2
            out.append((XSRC, [dict(x, routine=p), dict(y, routine=1 - p)]))
    return out


def run(chk):
    thorough = chk.tier == "thorough"
    chk.cov["rule"] = ("trees = MODULES (1-3 routines, one forest per routine): (a) every prefix of random histories (<= 8 "
                       "steps, each step on a randomly chosen routine) of OMP/ACC loop, region, target, taskloop, task, teams, "
                       "enter-data, update, routine, declare-target and taskwait transformations on generated modules / bare "
                       "subroutines (nests of depth 1-3, perfect/imperfect/triangular, a few empty loops, statements, "
                       "CodeBlocks (write), calls to earlier routines and if-blocks between loops), (b) the systematic "
                       "cross-routine family: two-step histories [X on routine p, Y on routine 1-p] over the 19 "
                       "transformation shapes (all pairs with a routine-level transformation in quick, all 361 ordered pairs "
                       "in thorough), (c) random forests / random modules over all modelled node kinds built by direct "
                       "construction; every applied transformation step is replayed through C10.applyCOp on the WHOLE "
                       "module (frame: other routines unchanged); non-trivial = contains at least one directive; distinct "
                       "by canonical JSON of the abstract module")
    chk.assumptions += [
        "MODE: the Lean model is of the fixed code (/repo fix: commits d0e6145, 053c279, 26670ce, f63f3e2, 3023462, "
        "b01d4e9)",
        "specValid is my formalisation of OpenMP 4.5 section 2.17 / 2.7.1, OpenMP 5.0 loop-region rule and the "
        "OpenACC compute-construct nesting rules, plus the property's own clauses; gfortran 12 (-c, not "
        "-fsyntax-only: gcc issues nesting diagnostics in the middle end) is used as a second oracle",
        "node kinds outside the modelled set (PSyData nodes, non-statement CodeBlocks, if-blocks with else, halo "
        "exchanges, kernels) are not generated (a tree containing one is skipped and counted as unmodelled); of the "
        "clause children only collapse and the nowait of single are modelled (the duplicate-nogroup check of "
        "taskloop, grainsize/num_tasks, if_present, schedule, data-sharing clauses are not)",
        "routine-level facts are per routine (C10.envOf r); ACCEnterDataDirective's lowering-time refusal (no compute "
        "region in its routine) is a writer refusal outside the model (the writer may only be stricter than the sweep)",
        "atomic statement form: `astmt` is decided by an independent syntactic reading of the OpenMP/OpenACC "
        "update forms in the harness; only `x = x op e` shapes are generated",
        "the transformations are modelled by their shape only (C10.applyOp): which nodes are wrapped/inserted and the "
        "collapse validation of ParallelLoopTrans; their other refusals are not modelled and not needed"]
    chk.cov["trusted_base"] = ["Lean 4.33.0 kernel", "axioms propext/Classical.choice/Quot.sound only (audited)",
                               "harness/props/c10_real.py abstraction PSyIR -> Forest and builder Forest -> PSyIR",
                               "translator gen() (truth tables of the real checks on the tree and module catalogues; "
                               "c10_introspect.py: Directive subclasses and directive-creating transformations)",
                               "gfortran 12 as compile oracle"]
    chk.lean(gen=gen)

    items = []
    # corpus of past failures first
    for path in sorted(glob.glob(os.path.join(common.ROOT, "corpus", "C10", "*.json"))):
        payload = json.load(open(path))
        it = item_of_payload(payload)
        if it:
            items.append(it)
    n_hist = 2500 if thorough else 240
    n_forest = 6000 if thorough else 600
    stats = {"applied": 0, "refused": 0, "error": 0, "unmodelled": 0}
    ops_hist = {}
    steps = []          # (before forest, [model ops], expected forest or None, description)
    # fixed probe histories: collapse over nests that contain an empty loop (the IndexError of the
    # collapse walk must stay in the transformation, C10_total)
    for src, op in empty_loop_probes():
        root, routine = R.parse(src)
        before, mop = R.abstract_container(root), R.model_op(routine, op)
        st = R.apply_op(routine, op)
        stats[st.split(":")[0]] += 1
        record_step(steps, before, 0, mop, st, root, {"source": src, "ops": [op]})
        if st == "applied":
            wrap_op = {"op": "ompParallel" if op["op"].startswith("omp") else "accParallel", "path": [],
                       "range": [0, 1]}
            R.apply_op(routine, wrap_op)
            it = observe({"kind": "history", "source": src, "ops": [op, wrap_op]}, root)
            if it is not None:
                items.append(it)
    # systematic cross-routine family: every ordered pair of transformation kinds applied to two
    # DIFFERENT routines of one module (what routine A carries must not influence routine B)
    nx = 0
    xroot0, _ = R.parse(XSRC)
    for src, ops in cross_routine_histories(all_pairs=thorough, seed_rng=chk.rng):
        nx += 1
        root = xroot0.copy()
        routines = R.routines_of(root)
        done = []
        for op in ops:
            ri = op["routine"]
            before, mop = R.abstract_container(root), R.model_op(routines[ri], op)
            st = R.apply_op(routines[ri], op)
            done.append(op)
            record_step(steps, before, ri, mop, st, root, {"source": src, "ops": list(done)})
            stats[st.split(":")[0]] += 1
            if st != "applied":
                break
        else:
            it = observe({"kind": "history", "source": src, "ops": list(done)}, root)
            if it is not None:
                items.append(it)
    dist_cross = nx
    nrout_hist = {}
    for ih in range(n_hist):
        if ih % 2 == 0:
            src = R.gen_module(chk.rng) if chk.rng.random() < 0.75 else R.gen_program(chk.rng)
            try:
                root0, _ = R.parse(src)
            except Exception as err:  # pylint: disable=broad-except
                raise common.Infra("generated program does not parse: %s\n%s" % (err, src))
        root = root0.copy()           # two histories per parsed program
        routines = R.routines_of(root)
        nrout_hist[len(routines)] = nrout_hist.get(len(routines), 0) + 1
        ops = []
        family = chk.rng.choice(["omp"] * 9 + ["acc"] * 7 + ["mixed"] * 4)
        for _step in range(chk.rng.randint(1, 8)):
            ri = chk.rng.randrange(len(routines))
            op = R.gen_op(chk.rng, routines[ri], family, p_routine=0.035 if len(routines) == 1 else 0.2)
            if op is None:
                continue
            op["routine"] = ri
            try:
                before = R.abstract_container(root)
                mop = R.model_op(routines[ri], op)
            except R.Unmodelled:
                before = mop = None
            st = R.apply_op(routines[ri], op)
            ops.append(op)
            if before is not None:
                record_step(steps, before, ri, mop, st, root, {"source": src, "ops": list(ops)})
            ops_hist[op["op"]] = ops_hist.get(op["op"], 0) + 1
            stats[st.split(":")[0]] += 1
            if st.startswith("error"):
                break
            if st == "applied":
                it = observe({"kind": "history", "source": src, "ops": list(ops)}, root)
                if it is None:
                    stats["unmodelled"] += 1
                    break
                items.append(it)
    for i_f in range(n_forest):
        # one routine (bare, no container) or a module of 2-3 routines
        nr = 1 if i_f % 3 else chk.rng.choice([2, 2, 3])
        fs = [random_forest(chk.rng) for _ in range(nr)]
        if nr > 1 and chk.rng.random() < 0.5:
            # routine-level facts are rare in random forests: put a declarative directive on top of one
            # routine and a directive that may depend on it somewhere
            fs[chk.rng.randrange(nr)].insert(0, [chk.rng.choice(["accRoutine", "accRoutine", "ompDeclareTarget"]), 0, []])
            fs[chk.rng.randrange(nr)].insert(chk.rng.randint(0, 1), ["accLoop", chk.rng.choice([0, 0, 2]), NEST2])
        try:
            root = R.build(fs[0]) if nr == 1 else R.build_container(fs)
        except Exception as err:  # pylint: disable=broad-except
            raise common.Infra("builder failed on %s: %s" % (fs, err))
        it = observe({"kind": "forest", "forest": fs[0]} if nr == 1 else {"kind": "container", "forests": fs}, root)
        if it is not None:
            items.append(it)

    models = model_eval([it.forest for it in items])
    dist = {"writer_accept": 0, "writer_genError": 0, "writer_crash": 0, "known_nowait": 0,
            "gfortran_runs": 0, "gfortran_rejects_known": 0}
    dist["steps_checked"], bad_steps = check_steps(steps)
    for what, case, mo, io in bad_steps[:5]:
        chk.correspondence_broken(what, case, mo, io)
    gf_budget = 10 ** 9 if thorough else 25
    seen_code = set()
    violations = {}
    for it, m in zip(items, models):
        agreed = (norm(it.val) == m["writer"])
        # the writer validates the lowered copy: it can only be stricter than the sweep
        consistent = not (it.wout == "accept" and it.val != "accept")
        nontriv = any(k not in ("stmt", "astmt", "codeBlock", "block", "loop") for f in it.forest for k in R.kinds_in(f))
        chk.case({"container": it.forest}, nontrivial=nontriv, agreed=agreed and consistent)
        dist["writer_" + norm(it.wout)] += 1
        gf = None
        suspicious = not agreed or not consistent
        if it.wout == "accept" and m["core"] and m["rect"] and m["mix"] and it.code not in seen_code \
                and (suspicious or gf_budget > 0):
            seen_code.add(it.code)
            if it.origin["kind"] == "history" or suspicious:
                gf = R.gfortran(it.code)
                gf_budget -= 1
                dist["gfortran_runs"] += 1
        verdict, why = judge(m, it.val, it.wout, gf, it.origin["kind"] == "history", it.code)
        if verdict == "known":
            dist["known_nowait"] += 1
            if gf is not None and not gf[0]:
                dist["gfortran_rejects_known"] += 1
            if not agreed:
                verdict, why = "violation", "model and code disagree on a tree of a known-finding class"
        vclass = m["first_bad"] if m["first_bad"] != "-" else why[:40]
        if verdict == "violation" and vclass not in violations and len(violations) < 8:
            violations[vclass] = dict(it.origin, abstract=it.forest, observed={"writer": it.wout, "validate": it.val,
                                                                           "gfortran": gf},
                                   expected=why, model=m, kind_="failing-input")
        if not agreed:
            chk.correspondence_broken("validate_global_constraints sweep differs from C10.writer",
                                      dict(it.origin, abstract=it.forest), m["writer"], it.val)
        elif not consistent:
            chk.correspondence_broken("FortranWriter accepted a tree its own validate sweep refuses",
                                      dict(it.origin, abstract=it.forest), it.val, it.wout)
    if chk.broken and not violations:
        # focused search: the catalogue and the single-path projections of the disagreeing trees,
        # run through the real writer and judged against the spec
        cands = [[f] for f in catalogue()] + ccatalogue()
        for b in chk.broken:
            if b.get("kind") == "correspondence" and "abstract" in b["case"]:
                cont = b["case"]["abstract"]
                for j, f in enumerate(cont):
                    # single-path projections of one routine, the other routines kept / reduced to
                    # their leading declarative directives
                    for pf in projections(f):
                        cands.append([pf])
                        if len(cont) > 1:
                            cands.append([pf if i == j else g for i, g in enumerate(cont)])
                            cands.append([pf if i == j else [x for x in g[:2] if x[0] in ("accRoutine", "ompDeclareTarget")]
                                          + [["stmt", 0, []]] for i, g in enumerate(cont)])
        seen = set()
        todo = []
        for c in cands:
            key = R.container_sx(c)
            if key not in seen:
                seen.add(key)
                if len(c) == 1:
                    it = observe({"kind": "forest", "forest": c[0]}, R.build(c[0]))
                else:
                    it = observe({"kind": "container", "forests": c}, R.build_container(c))
                if it is not None and it.wout == "accept":
                    todo.append(it)
        for it, m in zip(todo, model_eval([it.forest for it in todo])):
            gf = R.gfortran(it.code) if m["core"] and m["rect"] and m["mix"] else None
            verdict, why = judge(m, it.val, it.wout, gf, False, it.code)
            vclass = m["first_bad"] if m["first_bad"] != "-" else why[:40]
            if verdict == "violation" and vclass not in violations and len(violations) < 8:
                violations[vclass] = dict(it.origin, abstract=it.forest, expected=why, model=m,
                                          observed={"writer": it.wout, "validate": it.val, "gfortran": gf},
                                          kind_="failing-input", found_by="focused search")
        dist["focused_search_candidates"] = len(todo)
    for payload in violations.values():      # one failing input per class (kind of the offending directive)
        chk.violation(payload)
    chk.cov["distribution"] = dict(dist, steps=stats, ops=ops_hist, trees=len(items),
                                   catalogue=len(catalogue()), module_catalogue=len(ccatalogue()),
                                   cross_routine_histories=dist_cross, routines_per_history=nrout_hist,
                                   multi_routine_trees=sum(1 for it in items if len(it.forest) > 1))
    chk.cov["exhaustive"] = False

    for entry in common.known_findings("C10"):
        rc = replay_witness(entry["witness"], quiet=True)
        if rc == "known":
            chk.known(entry["what"])


# ------------------------------------------------------------------ replay
def item_of_payload(payload):
    if payload.get("kind") == "history":
        root, _, _ = R.run_history(payload["source"], payload["ops"])
        return observe({"kind": "history", "source": payload["source"], "ops": payload["ops"]}, root)
    if payload.get("kind") == "forest":
        return observe({"kind": "forest", "forest": payload["forest"]}, R.build(payload["forest"]))
    if payload.get("kind") == "container":
        return observe({"kind": "container", "forests": payload["forests"]}, R.build_container(payload["forests"]))
    return None


def replay_witness(payload, quiet=False):
    it = item_of_payload(payload)
    if it is None:
        if not quiet:
            print("payload holds no input (proof/correspondence breakage record):",
                  json.dumps(payload.get("broken", payload))[:2000])
        return "none"
    m = model_eval([it.forest])[0]
    gf = R.gfortran(it.code) if it.wout == "accept" else None
    verdict, why = judge(m, it.val, it.wout, gf, payload.get("kind") == "history", it.code)
    if verdict == "ok" and norm(it.val) != m["writer"]:
        verdict, why = "broken", "validate sweep says %s, Lean model says %s" % (it.val, m["writer"])
    if not quiet:
        if payload.get("kind") == "history":
            print(payload["source"])
            for op in payload["ops"]:
                print("  op:", op)
        print("abstract tree (one forest per routine):", R.container_sx(it.forest))
        print("real validate sweep:", it.val, "| real FortranWriter:", it.wout)
        if it.code:
            print(it.code)
        print("gfortran -fopenmp -fopenacc -c:", "not run" if gf is None else ("accepted" if gf[0] else gf[1]))
        print("spec (Lean C10.coreOk/rectOk/mixOk):", m["core"], m["rect"], m["mix"])
        print("expected: refused with GenerationError, or code satisfying the spec and accepted by gfortran")
        print("verdict:", verdict, why)
    return verdict


def replay(payload):
    v = replay_witness(payload)
    return 1 if v in ("violation", "known") else 0
