"""C11 execution family: a systematically enumerated class of statements — every kind of actual argument
(scalar, array element, indirectly addressed element, structure member, sub-string of a scalar, sub-string of an
array element / of a structure member = expression CodeBlock) x every kind of callee (user subroutine with
INTENT(OUT) / INTENT(INOUT) / INTENT(IN) dummy, PURE subroutine, routine of another module, impure / pure function,
intrinsic subroutines by position and by keyword) x context (plain, inside IF, inside DO, CodeBlock in the condition /
subscript / right-hand side / loop bound) — is put into ONE Fortran program that is compiled with gfortran and run:
before every statement the state is reset, after it every variable that differs from its initial value is printed.
Each variable ACTUALLY modified by the execution of a statement must be reported written by
VariablesAccessInfo(statement) of the real code.  The same statements go through the model correspondence, the static
oracle and the tracing semantics like every other statement (c11.check_items)."""
import minif

CHAR_VARS = ["names", "stamp", "ch", "q", "qs"]

MODULES = """module extm
  implicit none
contains
  subroutine ext_cfill(str)
    character(len=*), intent(out) :: str
    str = "E"
  end subroutine ext_cfill
  subroutine ext_iset(n)
    integer, intent(inout) :: n
    n = n + 100
  end subroutine ext_iset
end module extm
module cbm
  implicit none
  type pt
    integer :: v(4)
    character(len=8) :: tag(3)
  end type pt
  character(len=8) :: names(4), stamp(3), ch
  character(len=8), parameter :: digits0 = "12345678"
  character(len=8) :: digits
  integer :: a(10), s, t, k, i, n
  type(pt) :: q, qs(3)
contains
  subroutine cfill(str)
    character(len=*), intent(out) :: str
    str = "XYZ"
  end subroutine cfill
  subroutine cio(str, m)
    character(len=*), intent(inout) :: str
    integer, intent(in) :: m
    str(1:1) = achar(80 + m)
  end subroutine cio
  subroutine cin(str, m)
    character(len=*), intent(in) :: str
    integer, intent(out) :: m
    m = len_trim(str) + 40
  end subroutine cin
  pure subroutine pcfill(str, m)
    character(len=*), intent(out) :: str
    integer, intent(in) :: m
    str = achar(80 + m)
  end subroutine pcfill
  pure integer function pclen(str)
    character(len=*), intent(in) :: str
    pclen = len_trim(str) + 50
  end function pclen
  integer function fcside(str)
    character(len=*), intent(inout) :: str
    str(1:1) = "Q"
    fcside = 61
  end function fcside
  subroutine iout(m)
    integer, intent(out) :: m
    m = 71
  end subroutine iout
  subroutine iio(m, d)
    integer, intent(inout) :: m
    integer, intent(in) :: d
    m = m + 30 + d
  end subroutine iio
  subroutine iin(m, r)
    integer, intent(in) :: m
    integer, intent(out) :: r
    r = m + 90
  end subroutine iin
  pure subroutine piout(m, d)
    integer, intent(out) :: m
    integer, intent(in) :: d
    m = 75 + d
  end subroutine piout
  integer function fiside(m)
    integer, intent(inout) :: m
    m = m + 33
    fiside = 62
  end function fiside
  subroutine reset()
    integer :: j
    names = "abcdefgh"
    stamp = "--------"
    ch = "a"
    digits = digits0
    do j = 1, 10
      a(j) = j
    end do
    s = 3
    t = 2
    k = 2
    i = 1
    n = 0
    q%v = 4
    q%tag = "tagtagta"
    do j = 1, 3
      qs(j)%v = 5
      qs(j)%tag = "member__"
    end do
  end subroutine reset
  subroutine report(id)
    integer, intent(in) :: id
    integer :: j
    logical :: dq
    if (any(names /= "abcdefgh")) print "(i0,1x,a)", id, "names"
    if (any(stamp /= "--------")) print "(i0,1x,a)", id, "stamp"
    if (ch /= "a") print "(i0,1x,a)", id, "ch"
    dq = .false.
    do j = 1, 10
      if (a(j) /= j) dq = .true.
    end do
    if (dq) print "(i0,1x,a)", id, "a"
    if (s /= 3) print "(i0,1x,a)", id, "s"
    if (t /= 2) print "(i0,1x,a)", id, "t"
    if (k /= 2) print "(i0,1x,a)", id, "k"
    if (n /= 0) print "(i0,1x,a)", id, "n"
    if (any(q%v /= 4) .or. any(q%tag /= "tagtagta")) print "(i0,1x,a)", id, "q"
    dq = .false.
    do j = 1, 3
      if (any(qs(j)%v /= 5) .or. any(qs(j)%tag /= "member__")) dq = .true.
    end do
    if (dq) print "(i0,1x,a)", id, "qs"
  end subroutine report
"""

# character designators: (text, base variable)
CHAR_DESIGNATORS = [
    ("ch", "ch"), ("ch(2:3)", "ch"), ("names(k)", "names"), ("names(k)(1:3)", "names"), ("names(a(k))(t:t + 1)", "names"),
    ("names(k)(:s)", "names"), ("names(k + 1)(t:)", "names"), ("stamp(k)(1:8)", "stamp"), ("q%tag(2)", "q"),
    ("q%tag(k)(2:4)", "q"), ("qs(k)%tag(2)(1:2)", "qs"), ("qs(a(1))%tag(t)(s:s + 2)", "qs"),
]
INT_DESIGNATORS = [("s", "s"), ("a(k)", "a"), ("a(a(k) + 1)", "a"), ("q%v(k)", "q"), ("qs(k)%v(t)", "qs"),
                   ("a(ichar(names(k)(1:1)) - 90)", "a"), ("a(len_trim(names(k)(1:s)))", "a")]

# callee forms: the designator is inserted for {d}
CHAR_CALLS = [
    "call cfill({d})", "call cio({d}, s)", "call cin({d}, n)", "call cin(m=n, str={d})", "call pcfill({d}, t)",
    "call ext_cfill({d})", "n = fcside({d})", "n = pclen({d})", "a(fcside({d}) - 55) = 7", "call date_and_time(date={d})", "call date_and_time({d})",
    "call date_and_time(time={d})", "call get_command({d})", "call get_command(command={d}, length=n)",
    "call get_environment_variable(\"HOME\", {d})", "call get_environment_variable(name={d}, length=n)",
    "call get_command_argument(0, {d})",
]
INT_CALLS = [
    "call iout({d})", "call iio({d}, t)", "call iin({d}, n)", "call piout({d}, t)", "call ext_iset({d})",
    "n = fiside({d})", "call system_clock({d})", "call system_clock(count_rate={d})",
    "call get_command(length={d})", "call mvbits(s, 0, 2, {d}, 0)", "{d} = 77",
]
# CodeBlocks that are only evaluated
EVAL_FORMS = [
    "if ({c} == ch) n = 1", "if ({c} /= \"zz\") call iout(n)", "n = scan({c}, \"e_g\") + s", "a(len_trim({c})) = 9",
    "n = len({c})", "do i = 1, len({c})\n  n = n + 1\nend do", "n = index({c}, ch)", "ch = {c}",
    "a(1:3) = (/ (s * i, i = 1, 3) /)", "n = sum((/ (a(i), i = 1, s) /))", "call iio(n, sum((/ (a(i), i = 1, t) /)))",
]
# statement CodeBlocks (I/O) that really define a variable: internal READ (the defined item is not the first name of
# the text) and internal WRITE (defines the character variable used as unit)
IO_FORMS = [
    ("read(digits(t:s), *) n", None), ("read(digits, \"(i2)\") a(k)", None), ("read(digits(k:k), \"(i1)\") q%v(t)", None),
    ("write(ch, \"(i1)\") s", None), ("write(names(k)(1:2), \"(i2)\") s + 10", None), ("write(q%tag(t), \"(i3)\") a(k) + 100", None),
    ("read(digits(1:3), \"(i1,1x,i1)\") k, a(k)", None),
]
CONTEXTS = ["{x}", "if (t > 0) then\n  {x}\nend if", "do i = 1, 1\n  {x}\nend do",
            "if (s < 0) then\n  n = 1\nelse\n  {x}\nend if"]


def statements(tier):
    out = []
    for form in CHAR_CALLS:
        for d, base in CHAR_DESIGNATORS:
            out.append((form.format(d=d), base))
    for form in INT_CALLS:
        for d, base in INT_DESIGNATORS:
            if "system_clock(" in form and "names" in d:
                continue      # gfortran 12 miscompiles SYSTEM_CLOCK arguments whose subscript calls LEN_TRIM
            out.append((form.format(d=d), base))
    for form in EVAL_FORMS:
        if "{c}" in form:
            for d, base in CHAR_DESIGNATORS[3:8] + CHAR_DESIGNATORS[9:]:
                out.append((form.format(c=d), None))
        else:
            out.append((form, None))
    out += IO_FORMS
    res = []
    for n, (x, base) in enumerate(out):
        ctxs = CONTEXTS if tier == "thorough" else ([CONTEXTS[0]] + ([CONTEXTS[1 + (n // 3) % 3]] if n % 3 == 0 else []))
        for c in ctxs:
            if "do i" in c and "do i" in x:
                continue
            res.append(c.replace("{x}", x.replace("\n", "\n  ")))
    return res


def program(stmts):
    lines = ["  subroutine c11fam()", "    use extm, only: ext_cfill, ext_iset"]
    for k, x in enumerate(stmts):
        lines.append("    call reset()")
        lines += ["    " + l for l in x.split("\n")]
        lines.append(f"    call report({k})")
    lines += ["  end subroutine c11fam", "end module cbm", "program main", "  use cbm, only: c11fam", "  call c11fam()",
              "end program main"]
    return MODULES + "\n".join(lines) + "\n"


def execute(src):
    """{statement number: set of variables whose value differs after executing the statement}"""
    import common
    status, out = minif.gfortran_run(src, flags=("-fcheck=bounds",))
    if status != "ok":
        raise common.Infra("C11 execution family: gfortran " + status + ": " + out[-1500:])
    mod = {}
    for line in out.split("\n"):
        p = line.split()
        if len(p) == 2 and p[0].isdigit():
            mod.setdefault(int(p[0]), set()).add(p[1])
    return mod


def family_nodes(psyir):
    """the statements under test of the parsed program, in order: child 3k+1 of routine c11fam"""
    from psyclone.psyir import nodes as N
    prog = [r for r in psyir.walk(N.Routine) if r.name.lower() == "c11fam"][0]
    ch = list(prog.children)
    if len(ch) % 3 != 0:
        import common
        raise common.Infra("C11 execution family: unexpected program structure")
    return [ch[3 * k + 1] for k in range(len(ch) // 3)]
