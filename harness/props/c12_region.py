"""Shared by C12 and C13: seeded region generator over MiniF programs, access to the real
PSyclone region analyses (get_in_out_parameters, ExtractTrans, ACCDataTrans), exporter glue
and the textual classifier of the known defect class."""
import re

import minif
from common import sx

A_CELLS = list(range(minif.A_LO, minif.A_HI + 1))
M_CELLS = list(range(minif.M_LO, minif.M_HI + 1))


class RGen(minif.BodyGen):
    """BodyGen biased so that regions of every kind occur: read-modify-write of array
    elements (first access READ), scalar temporaries assigned at the top level, scalars
    updated in place, plain (partial) element writes, conditionally written variables,
    DO WHILE loops (bounded by the counter `w`), and — if `codeblocks` — statements PSyclone
    keeps as CodeBlocks (expression CodeBlocks: array constructors with implied DO;
    statement CodeBlocks: FORALL, PRINT)."""
    codeblocks = False
    p_while = 0.08

    def assign(self, live, ind="  "):
        r = self.rng
        x = r.random()
        if x < 0.30:
            a = r.choice(self.arrays1)
            sub = self.subscript(live)
            return [f"{ind}{a}({sub}) = {a}({sub}) + {self.expr(live, 1)}"]
        if x < 0.45 and self.scalars:
            return [f"{ind}{r.choice(self.scalars)} = {self.expr(live)}"]
        if x < 0.55 and self.scalars:
            s = r.choice(self.scalars)
            return [f"{ind}{s} = {s} + {self.expr(live, 1)}"]
        return super().assign(live, ind)

    def while_loop(self, live, ind, depth):
        """`do while (<array or scalar test> .and. w > 0 .and. w < 4)`; `w` is only changed by
        the final `w = w - 1`, so the loop makes at most 3 iterations whatever the store"""
        r = self.rng
        out = []
        if r.random() < 0.6:
            out.append(f"{ind}w = {r.randint(1, 3)}")
        a, k = r.choice(self.arrays1), r.randint(0, 6)
        kind = r.random()
        if kind < 0.6:
            test = f"{a}({k}) {r.choice(['>', '>=', '/='])} {r.randint(0, 3)} .and. "
        elif kind < 0.8 and self.scalars:
            test = f"{r.choice(self.scalars)} < {r.randint(3, 9)} .and. "
        else:
            test = ""
        out.append(f"{ind}do while ({test}w > 0 .and. w < 4)")
        if kind < 0.6 and r.random() < 0.6:      # the tested element is (re)written first in the body
            rhs = str(r.randint(0, 2)) if r.random() < 0.5 else f"{a}({k}) - 1"
            out.append(f"{ind}  {a}({k}) = {rhs}")
        saved, self.p_while = self.p_while, 0.0      # no nested DO WHILE: an inner `w = k` reset
        try:                                          # would make the outer loop non-terminating
            out += self.block(live, r.randint(1, 2), ind + "  ", depth + 1)
        finally:
            self.p_while = saved
        out.append(f"{ind}  w = w - 1")
        out.append(f"{ind}enddo")
        return out

    def codeblock_stmt(self, live, ind):
        r = self.rng
        s = r.choice(self.scalars)
        t = r.choice(self.scalars)
        a, b = r.choice(self.arrays1), r.choice(self.arrays1)
        k = r.randint(0, 4)
        x = r.random()
        if x < 0.3:
            return [f"{ind}{s} = sum((/ ({t} * ii, ii = 1, 3) /))"]
        if x < 0.5:
            return [f"{ind}{a}({k}:{k + 2}) = (/ ({t} + ii, ii = 1, 3) /)"]
        if x < 0.7:
            return [f"{ind}{s} = maxval((/ ({b}(ii), ii = {k}, {k + 2}) /)) + {t}"]
        if x < 0.9:
            return [f"{ind}forall (ii = {k}:{k + 2}) {a}(ii) = {t} + ii"]
        return [f"{ind}print *, {s}"]

    def block(self, live, n, ind="  ", depth=0):
        r = self.rng
        out = []
        for _ in range(n):
            x = r.random()
            if x < self.p_while and depth < 2:
                out += self.while_loop(live, ind, depth)
            elif self.codeblocks and x < self.p_while + 0.12:
                out += self.codeblock_stmt(live, ind)
            else:
                out += super().block(live, 1, ind, depth)
        return out


def gen_program(rng, nstmts, codeblocks=False):
    scalars = ["s0", "s1", "t"][: rng.randint(1, 3)]
    arrays1 = ["a", "b", "c"][: rng.randint(2, 3)]
    arrays2 = ["m"] if rng.random() < 0.3 else []
    loopvars = ["i", "j", "k"]
    init = minif.gen_init(rng, scalars, arrays1, arrays2) + ["  w = 0"]
    bg = RGen(rng, scalars, arrays1, arrays2, loopvars)
    bg.codeblocks = codeblocks
    body = bg.block([], nstmts)
    return minif.Prog(scalars, arrays1, arrays2, loopvars + ["ii", "jj", "w"], init, body)


def source_of(prog, body=None):
    lines = ["program p"] + prog.decls() + prog.init + (prog.body if body is None else body) + ["end program p"]
    return "\n".join(lines) + "\n"


def n_init_nodes(prog):
    return len(prog.scalars) + len(prog.arrays1) + len(prog.arrays2) + 1


# ---------------------------------------------------------------------------
# PSyIR -> RegionData.RStmt S-expressions (MiniF exporter + WhileLoop; `access_only` maps what
# MiniF cannot express to something with the same ACCESSES for the model of the analyses)

def rexport_expr(node, names, access_only=False):
    from psyclone.psyir import nodes as N
    if not access_only:
        return minif.export_expr(node, names)
    if isinstance(node, N.CodeBlock):
        return ["lit", 0]                      # CodeBlock.reference_accesses: nothing
    if isinstance(node, N.Range):
        out = ["lit", 0]
        for c in node.children:
            out = ["bin", "add", out, rexport_expr(c, names, True)]
        return out
    if isinstance(node, N.IntrinsicCall):
        if node.intrinsic.name.upper() in ("LBOUND", "UBOUND", "SIZE"):
            return ["lit", 0]
        out = ["lit", 0]
        for c in node.arguments:
            out = ["bin", "add", out, rexport_expr(c, names, True)]
        return out
    if isinstance(node, (N.BinaryOperation, N.UnaryOperation)):
        out = ["lit", 0]
        for c in node.children:
            out = ["bin", "add", out, rexport_expr(c, names, True)]
        return out
    if isinstance(node, N.ArrayReference):
        idx = [rexport_expr(i, names, True) for i in node.indices]
        if len(idx) == 1:
            return ["idx1", names.id(node.name), idx[0]]
        if len(idx) == 2:
            return ["idx2", names.id(node.name), idx[0], idx[1]]
        raise minif.Unsupported("rank")
    return minif.export_expr(node, names)


def rexport_stmt(node, names, access_only=False):
    from psyclone.psyir import nodes as N
    ao = access_only
    if isinstance(node, (list, tuple)):
        parts = [rexport_stmt(c, names, ao) for c in node]
        return ["seqs"] + [p for p in parts if p is not None]
    if isinstance(node, N.Schedule):
        return rexport_stmt(list(node.children), names, ao)
    if isinstance(node, N.WhileLoop):
        return ["while", rexport_expr(node.condition, names, ao), rexport_stmt(node.loop_body, names, ao)]
    if isinstance(node, N.IfBlock):
        els = rexport_stmt(node.else_body, names, ao) if node.else_body is not None else ["skip"]
        return ["ite", rexport_expr(node.condition, names, ao), rexport_stmt(node.if_body, names, ao), els]
    if isinstance(node, N.Loop):
        return ["loop", names.id(node.variable.name), rexport_expr(node.start_expr, names, ao),
                rexport_expr(node.stop_expr, names, ao), rexport_expr(node.step_expr, names, ao),
                rexport_stmt(node.loop_body, names, ao)]
    if isinstance(node, N.Assignment) and ao:
        lhs, rhs = node.lhs, rexport_expr(node.rhs, names, True)
        if isinstance(lhs, N.ArrayReference):
            idx = [rexport_expr(i, names, True) for i in lhs.indices]
            if len(idx) == 1:
                return ["store1", names.id(lhs.name), idx[0], rhs]
            if len(idx) == 2:
                return ["store2", names.id(lhs.name), idx[0], idx[1], rhs]
            raise minif.Unsupported("rank")
        if type(lhs) is N.Reference:
            return ["assign", names.id(lhs.name), rhs]
        raise minif.Unsupported("lhs")
    if isinstance(node, N.CodeBlock) and ao:
        return ["skip"]                        # statement CodeBlock: no accesses recorded
    return minif.export_stmt(node, names)


def rank_of(datatype):
    """rank of a declared variable; arrays with a negative lower bound reach PSyclone as
    UnsupportedFortranType (still non-scalar), so fall back to the declaration text"""
    from psyclone.psyir.symbols import ArrayType, UnsupportedFortranType
    if isinstance(datatype, ArrayType):
        return len(datatype.shape)
    if isinstance(datatype, UnsupportedFortranType):
        part = getattr(datatype, "partial_datatype", None)
        if isinstance(part, ArrayType):
            return len(part.shape)
        m = re.search(r"dimension\s*\(([^)]*)\)", datatype.declaration, re.I)
        return m.group(1).count(",") + 1 if m else 0
    return 0


class Parsed:
    """A parsed program: the routine, the name table (ids for every declared variable first),
    the declared cells, and exporters for prefix / region."""

    def __init__(self, src, n_init):
        from psyclone.psyir.symbols import DataSymbol, ArrayType
        self.src, self.n_init = src, n_init
        self.psyir, self.routine = minif.parse_program(src)
        self.names = minif.Names()
        self.rank = {}
        for sym in self.routine.symbol_table.symbols:
            if isinstance(sym, DataSymbol):
                self.names.id(sym.name)
                self.rank[sym.name.lower()] = rank_of(sym.datatype)
        self.body = self.routine.children[n_init:]

    def vid(self, name):
        return self.names.id(name)

    def all_ids(self):
        return sorted(self.names.id(n) for n in self.rank)

    def cells(self, name):
        r = self.rank[name]
        x = self.vid(name)
        if r == 0:
            return [(x,)]
        if r == 1:
            return [(x, i) for i in A_CELLS]
        return [(x, i, j) for j in M_CELLS for i in M_CELLS]

    def queries(self):
        """[(name, [cells])] in a fixed order, and the flat list"""
        per = [(n, self.cells(n)) for n in sorted(self.rank)]
        flat = [c for _, cs in per for c in cs]
        return per, flat

    def export(self, nodes, access_only=False):
        return rexport_stmt(list(nodes), self.names, access_only)

    def prefix(self, i):
        return self.export(self.routine.children[: self.n_init + i])

    def region_nodes(self, i, j, routine=None):
        r = routine if routine is not None else self.routine
        return r.children[self.n_init + i: self.n_init + j]


def split_values(per, flat_values):
    """flat value list -> {name: [values]}"""
    out, k = {}, 0
    for n, cs in per:
        out[n] = flat_values[k:k + len(cs)]
        k += len(cs)
    return out


# ---------------------------------------------------------------------------
# the real code

def real_inout(nodes):
    from psyclone.psyir.tools.call_tree_utils import CallTreeUtils
    try:
        rw = CallTreeUtils().get_in_out_parameters(list(nodes))
    except NotImplementedError:
        raise
    except Exception as e:                                        # noqa: BLE001
        err = "error:" + type(e).__name__      # no lists at all: nothing recorded
        return [err], [err]
    return (sorted(str(s) for s in rw.signatures_read), sorted(str(s) for s in rw.signatures_written))


def real_extract_lists(parsed, i, j):
    """in/out lists recorded by the real ExtractTrans + ExtractNode lowering, read back from
    the generated ProvideVariable calls.  Returns None if the transformation refuses."""
    from psyclone.psyir.transformations import ExtractTrans, TransformationError
    from psyclone.psyir.nodes import Routine
    p2 = parsed.psyir.copy()
    r2 = p2.walk(Routine)[0]
    try:
        ExtractTrans().apply(parsed.region_nodes(i, j, r2))
    except TransformationError:
        return None
    text = minif.write_program(p2)
    pre, post, phase = [], [], 0
    for line in text.splitlines():
        s = line.strip()
        if "% PreEndDeclaration" in s:
            phase = 1
        elif "% PostStart" in s:
            phase = 2
        m = re.search(r'ProvideVariable\("([a-z0-9_]+)",\s*([a-z0-9_]+)\)', s, re.I)
        if m and phase == 1:
            pre.append(m.group(2).lower())
        elif m and phase == 2:
            post.append(m.group(2).lower())
    return sorted(pre), sorted(post)


def real_acc_clauses(parsed, i, j, enter_data=False):
    """Apply the real ACCDataTrans to body[i:j] of a copy; returns 'refuse' or
    {'copyin': [...], 'copyout': [...], 'copy': [...]} parsed from the lowered directive."""
    from psyclone.transformations import ACCDataTrans, TransformationError
    from psyclone.psyir.nodes import Routine, ACCDataDirective, ACCEnterDataDirective
    from psyclone.psyir.backend.fortran import FortranWriter
    p2 = parsed.psyir.copy()
    r2 = p2.walk(Routine)[0]
    if enter_data:
        class _Enter(ACCEnterDataDirective):
            def data_on_device(self, parent):
                pass
        r2.addchild(_Enter())
    nodes = parsed.region_nodes(i, j, r2)
    try:
        ACCDataTrans().apply(nodes)
    except TransformationError:
        return "refuse"
    except Exception as e:                                        # noqa: BLE001
        if not nodes and isinstance(e, IndexError):
            return "refuse"       # apply([]) dies on node_list[0]: no directive either
        return "error:" + type(e).__name__     # never predicted by the model -> disagreement
    d = r2.walk(ACCDataDirective)[0]
    d.lower_to_language_level()
    head = FortranWriter()(d).splitlines()[0].strip().lower()
    if not head.startswith("!$acc data"):
        raise ValueError("unexpected directive text: " + head)
    out = {"copyin": [], "copyout": [], "copy": []}
    for m in re.finditer(r"\b(copyin|copyout|copy)\(([^)]*)\)", head):
        out[m.group(1)] += [v.strip() for v in m.group(2).split(",") if v.strip()]
    return {k: sorted(v) for k, v in out.items()}


def item_sexps(parsed, nodes):
    """top-level region nodes -> model items: `(s <stmt>)`, or `(x)` for a node that is or
    contains a CodeBlock / Return (the excluded node types reachable from Fortran source)"""
    from psyclone.psyir.nodes import CodeBlock, Return
    items = []
    for n in nodes:
        if n.walk((CodeBlock, Return)):
            items.append(["x"])
        else:
            items.append(["s", rexport_stmt(n, parsed.names)])
    return items


def has_codeblock(nodes):
    from psyclone.psyir.nodes import CodeBlock
    return any(n.walk(CodeBlock) for n in nodes)


def access_items(parsed, nodes):
    """model items for the ACCESS model of a region that contains CodeBlocks: a top-level
    statement CodeBlock (or Return) is `(x)`; every other statement is exported with the
    accesses PSyclone can see (expression CodeBlocks -> literal); `excluded` tells whether
    some item contains a CodeBlock/Return anywhere (ExtractTrans / ACCDataTrans refuse)"""
    from psyclone.psyir.nodes import CodeBlock, Return
    items, excluded = [], False
    for n in nodes:
        if n.walk((CodeBlock, Return)):
            excluded = True
        if isinstance(n, (CodeBlock, Return)):
            items.append(["x"])
        else:
            items.append(["s", rexport_stmt(n, parsed.names, access_only=True)])
    if excluded and not any(it == ["x"] for it in items):
        items.append(["x"])                    # nested excluded node: keep the refusal, no accesses
    return items


# ---------------------------------------------------------------------------
# gfortran replay oracle for regions MiniF cannot execute (CodeBlocks)

def fortran_pieces(parsed):
    """(header text with declarations, [text of every top-level statement])"""
    from psyclone.psyir.backend.fortran import FortranWriter
    from psyclone.psyir.nodes import Routine
    w = FortranWriter()
    p2 = parsed.psyir.copy()
    r2 = p2.walk(Routine)[0]
    for c in list(r2.children):
        c.detach()
    text = w(r2)
    head = text[: text.lower().rindex("end program")]
    return head, [w(c) for c in parsed.routine.children]


def gfortran_replay(parsed, i, j, real_in, real_out, delta=1):
    """Run the program up to the region, (optionally) shift every non-input variable, run the
    region, print everything.  Returns a list of failures like c12.evaluate, or None if the
    oracle is not applicable (compile error / original run fails)."""
    head, stmts = fortran_pieces(parsed)
    k0 = parsed.n_init + i
    names = sorted(parsed.rank)

    def program(perturb):
        body = stmts[:k0]
        snap = []
        if perturb:
            body = body + [f"  {n} = {n} + {delta if parsed.rank[n] == 0 else 1000}\n" for n in names if n not in real_in]
        body = body + stmts[k0: parsed.n_init + j]
        out = "".join(f"  print *, {n}\n" for n in names)
        return head + "".join(body) + "".join(snap) + out + "end program p\n"

    def before_program():
        out = "".join(f"  print *, {n}\n" for n in names)
        return head + "".join(stmts[:k0]) + out + "end program p\n"

    def run(src):
        st, o = minif.gfortran_run(src, flags=("-fcheck=bounds",))
        return st, o

    st0, o0 = run(before_program())
    st1, o1 = run(program(False))
    if st0 != "ok" or st1 != "ok":
        return None
    st2, o2 = run(program(True))
    if st2 == "compile-error":
        return None

    def split(o):
        vals = [int(tok) for tok in o.split()]
        res, k = {}, 0
        for n in names:
            ln = 1 if parsed.rank[n] == 0 else (len(A_CELLS) if parsed.rank[n] == 1 else len(M_CELLS) ** 2)
            res[n] = vals[k:k + ln]
            k += ln
        return res
    before, after = split(o0), split(o1)
    fails = []
    for n in names:
        if before[n] != after[n] and n not in real_out:
            fails.append(("dynamic-write-not-output", {"variable": n, "oracle": "gfortran"}))
    if st2 != "ok":
        fails.append(("replay-differs-on-output", {"oracle": "gfortran", "replayed": "run-time error (" + st2 + ")"}))
        return fails
    after_t = split(o2)
    for n in names:
        if n in real_out and after[n] != after_t[n]:
            k = next(k for k in range(len(after[n])) if after[n][k] != after_t[n][k])
            fails.append(("replay-differs-on-output", {"variable": n, "flat_index": k, "recorded": after[n][k],
                                                       "replayed": after_t[n][k], "oracle": "gfortran"}))
    return fails



# ---------------------------------------------------------------------------
# classifier of the known defect class (textual, on the real PSyIR)

def partial_first_writes(nodes):
    """Variables whose first textual access in the region is a WRITE that does not
    unconditionally define the whole variable: an array element write, a write nested in an
    IF or a loop body, or a loop whose bounds read its own variable.  -> {name: reason}"""
    from psyclone.core import VariablesAccessInfo, AccessType
    from psyclone.psyir.nodes import Loop, Assignment, Reference
    from psyclone.psyir.symbols import ArrayType
    nodes = list(nodes)
    if not nodes:
        return {}
    vai = VariablesAccessInfo(nodes)
    out = {}
    for sig in vai.all_signatures:
        acc = vai[sig].all_accesses
        if not acc or acc[0].access_type != AccessType.WRITE:
            continue
        node = acc[0].node
        stmt = node if isinstance(node, Loop) else node.ancestor(Assignment, include_self=True)
        name = str(sig)
        sym = nodes[0].scope.symbol_table.lookup(name)
        if rank_of(sym.datatype) > 0:
            out[name] = "array element write"
        elif not any(stmt is n for n in nodes):
            out[name] = "write nested in a conditional or a loop body"
        elif isinstance(stmt, Loop) and any(
                r.name.lower() == name.lower()
                for e in (stmt.start_expr, stmt.stop_expr, stmt.step_expr) for r in e.walk(Reference)):
            out[name] = "loop variable read in its own bounds"
    return out


def line(op, *args):
    return sx([op] + list(args))
