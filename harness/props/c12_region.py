"""Shared by C12 and C13: seeded region generator over MiniF programs, access to the real
PSyclone region analyses (get_in_out_parameters, ExtractTrans, ACCDataTrans), exporter glue
and the textual classifier of the known defect class."""
import re

import minif
from common import sx

A_CELLS = list(range(minif.A_LO, minif.A_HI + 1))
M_CELLS = list(range(minif.M_LO, minif.M_HI + 1))


class RGen(minif.BodyGen):
    """BodyGen biased so that regions of every kind occur: read-modify-write of array
    elements (first access READ), scalar temporaries assigned at the top level, scalars
    updated in place, plain (partial) element writes, conditionally written variables,
    DO WHILE loops (bounded by the counter `w`), and — if `codeblocks` — statements PSyclone
    keeps as CodeBlocks (expression CodeBlocks: array constructors with implied DO;
    statement CodeBlocks: FORALL, PRINT)."""
    codeblocks = False
    calls = False
    p_while = 0.08

    def loop_header(self, v, live):
        """as BodyGen, plus bounds that depend on an enclosing loop variable"""
        r = self.rng
        if live and r.random() < 0.3:
            o = r.choice(live)
            return r.choice([f"do {v} = {o}, {o}+{r.randint(1, 2)}", f"do {v} = 0, {o}",
                             f"do {v} = {o}, {r.randint(4, 8)}", f"do {v} = {o}+1, {o}-1"])
        return super().loop_header(v, live)

    def covering_pair(self, live, ind):
        """`x(sub) = <expr without x>` followed by a read of the same element"""
        r = self.rng
        x = r.choice(self.arrays1)
        others = [a for a in self.arrays1 if a != x]
        y = r.choice(others)
        sub = self.subscript(live)
        saved = self.arrays1
        self.arrays1 = others
        try:
            rhs = self.expr(live, 1)
        finally:
            self.arrays1 = saved
        return [f"{ind}{x}({sub}) = {rhs}", f"{ind}{y}({sub}) = {y}({sub}) + {x}({sub})"]

    module = False

    def lvalue(self):
        """a variable or array element that may be bound to an intent(out/inout) dummy"""
        r = self.rng
        sc = [x for x in self.scalars if "%" not in x] or ["s0"]
        if r.random() < 0.5:
            return r.choice(sc)
        return f"{r.choice([x for x in self.arrays1 if '%' not in x] or ['a'])}({r.randint(0, 5)})"

    def lib_call(self, live, ind):
        """call of a subroutine of the enclosing module: positional prefix, then keyword actuals in
        a random order; the optional dummy of `upd` is mostly skipped"""
        r = self.rng
        name, dummies = r.choice(LIB_SIGS)
        chosen = [(d, i) for d, i in dummies if d != "scale" or r.random() < 0.3]
        actual = {}
        for d, intent in chosen:
            actual[d] = self.lvalue() if intent != "in" or r.random() < 0.5 else self.expr(live, 1)
        npos = r.randint(0, len(chosen))
        # positional actuals must be a prefix of the dummy list (no skipped dummy before them)
        full = [d for d, _ in dummies]
        while npos and [d for d, _ in chosen[:npos]] != full[:npos]:
            npos -= 1
        rest = chosen[npos:]
        r.shuffle(rest)
        args = [actual[d] for d, _ in chosen[:npos]] + [f"{d}={actual[d]}" for d, _ in rest]
        return [f"{ind}call {name}({', '.join(args)})"]

    def call_stmt(self, live, ind):
        r = self.rng
        a = r.choice([x for x in self.arrays1 if "%" not in x] or ["a"])
        s = r.choice([x for x in self.scalars if "%" not in x] or ["s0"])
        b = r.choice(self.arrays1)
        out = []
        if r.random() < 0.35:        # WRITE-first access followed by the READWRITE access of a call
            out.append(f"{ind}{a}({r.randint(0, 5)}) = {self.expr(live, 1)}")
        if self.module and r.random() < 0.7:
            if out and r.random() < 0.7:
                return out + [f"{ind}call imp({a}({r.randint(0, 5)}), {s})"]
            return out + self.lib_call(live, ind)
        return out + [f"{ind}call bump({a}, {s}, {b}({r.randint(0, 5)}))"]

    def assign(self, live, ind="  "):
        r = self.rng
        x = r.random()
        if x < 0.30:
            a = r.choice(self.arrays1)
            sub = self.subscript(live)
            return [f"{ind}{a}({sub}) = {a}({sub}) + {self.expr(live, 1)}"]
        if x < 0.45 and self.scalars:
            return [f"{ind}{r.choice(self.scalars)} = {self.expr(live)}"]
        if x < 0.55 and self.scalars:
            s = r.choice(self.scalars)
            return [f"{ind}{s} = {s} + {self.expr(live, 1)}"]
        return super().assign(live, ind)

    def while_loop(self, live, ind, depth):
        """`do while (<array or scalar test> .and. w > 0 .and. w < 4)`; `w` is only changed by
        the final `w = w - 1`, so the loop makes at most 3 iterations whatever the store"""
        r = self.rng
        out = []
        if r.random() < 0.6:
            out.append(f"{ind}w = {r.randint(1, 3)}")
        a, k = r.choice(self.arrays1), r.randint(0, 6)
        kind = r.random()
        if kind < 0.6:
            test = f"{a}({k}) {r.choice(['>', '>=', '/='])} {r.randint(0, 3)} .and. "
        elif kind < 0.8 and self.scalars:
            test = f"{r.choice(self.scalars)} < {r.randint(3, 9)} .and. "
        else:
            test = ""
        out.append(f"{ind}do while ({test}w > 0 .and. w < 4)")
        if kind < 0.6 and r.random() < 0.6:      # the tested element is (re)written first in the body
            rhs = str(r.randint(0, 2)) if r.random() < 0.5 else f"{a}({k}) - 1"
            out.append(f"{ind}  {a}({k}) = {rhs}")
        saved, self.p_while = self.p_while, 0.0      # no nested DO WHILE: an inner `w = k` reset
        try:                                          # would make the outer loop non-terminating
            out += self.block(live, r.randint(1, 2), ind + "  ", depth + 1)
        finally:
            self.p_while = saved
        out.append(f"{ind}  w = w - 1")
        out.append(f"{ind}enddo")
        return out

    def codeblock_stmt(self, live, ind):
        r = self.rng
        s = r.choice(self.scalars)
        t = r.choice(self.scalars)
        a, b = r.choice(self.arrays1), r.choice(self.arrays1)
        k = r.randint(0, 4)
        x = r.random()
        if x < 0.3:
            return [f"{ind}{s} = sum((/ ({t} * ii, ii = 1, 3) /))"]
        if x < 0.5:
            return [f"{ind}{a}({k}:{k + 2}) = (/ ({t} + ii, ii = 1, 3) /)"]
        if x < 0.7:
            return [f"{ind}{s} = maxval((/ ({b}(ii), ii = {k}, {k + 2}) /)) + {t}"]
        if x < 0.9:
            return [f"{ind}forall (ii = {k}:{k + 2}) {a}(ii) = {t} + ii"]
        return [f"{ind}print *, {s}"]

    def block(self, live, n, ind="  ", depth=0):
        r = self.rng
        out = []
        for _ in range(n):
            x = r.random()
            if x < self.p_while and depth < 2:
                out += self.while_loop(live, ind, depth)
            elif x > 0.93 and len(self.arrays1) >= 2:
                out += self.covering_pair(live, ind)
            elif self.calls and x > 0.86:
                out += self.call_stmt(live, ind)
            elif self.codeblocks and x < self.p_while + 0.12:
                out += self.codeblock_stmt(live, ind)
            else:
                out += super().block(live, 1, ind, depth)
        return out


BUMP = """subroutine bump(x, y, z)
  integer, dimension(-14:26) :: x
  integer :: y, z
  x(1) = x(2) + y
  y = y + z
  z = 3
end subroutine bump
"""

LIB = """  pure subroutine scale_add(src, factor, dst)
    integer, intent(in) :: src, factor
    integer, intent(out) :: dst
    dst = src * factor + 1
  end subroutine scale_add
  pure subroutine upd(tot, inc, scale, res)
    integer, intent(inout) :: tot
    integer, intent(in) :: inc
    integer, intent(in), optional :: scale
    integer, intent(out) :: res
    res = tot + inc
    tot = tot + 1
  end subroutine upd
  pure subroutine shift3(x, y, z)
    integer, intent(in) :: x
    integer, intent(inout) :: y
    integer, intent(out) :: z
    z = y - x
    y = x + 2
  end subroutine shift3
  subroutine imp(u, v)
    integer :: u, v
    u = u + v
    v = 2
  end subroutine imp
"""
LIB_SIGS = [("scale_add", [("src", "in"), ("factor", "in"), ("dst", "out")]),
            ("upd", [("tot", "inout"), ("inc", "in"), ("scale", "in"), ("res", "out")]),
            ("shift3", [("x", "in"), ("y", "inout"), ("z", "out")]),
            ("imp", [("u", "inout"), ("v", "inout")])]

STRUCT_DECL = ["  type :: grid_t", f"    integer, dimension({minif.A_LO}:{minif.A_HI}) :: d",
               f"    integer, dimension({minif.A_LO}:{minif.A_HI}) :: e", "    integer :: n", "  end type grid_t"]


class RProg(minif.Prog):
    """Prog with an optional structure `g` (members g%d, g%e arrays, g%n scalar) and an optional
    external subroutine `bump` (unknown intent: every argument is in+out for PSyclone)"""
    struct = False
    calls = False
    module = False

    def decls(self):
        out = list(STRUCT_DECL) if self.struct else []
        sc = [s for s in self.scalars + self.loopvars if "%" not in s]
        out.append("  integer :: " + ", ".join(sc))
        for a in self.arrays1:
            if "%" not in a:
                out.append(f"  integer, dimension({minif.A_LO}:{minif.A_HI}) :: {a}")
        for m in self.arrays2:
            out.append(f"  integer, dimension({minif.M_LO}:{minif.M_HI},{minif.M_LO}:{minif.M_HI}) :: {m}")
        if self.struct:
            out.append("  type(grid_t) :: g")
        return out


def gen_program(rng, nstmts, codeblocks=False, struct=False, calls=False, module=False):
    scalars = ["s0", "s1", "t"][: rng.randint(1, 3)]
    arrays1 = ["a", "b", "c"][: rng.randint(2, 3)]
    arrays2 = ["m"] if rng.random() < 0.3 else []
    if struct:
        scalars = scalars + ["g%n"]
        arrays1 = arrays1[:2] + ["g%d", "g%e"]
    loopvars = ["i", "j", "k"]
    init = minif.gen_init(rng, scalars, arrays1, arrays2) + ["  w = 0"]
    bg = RGen(rng, scalars, arrays1, arrays2, loopvars)
    bg.codeblocks, bg.calls, bg.module = codeblocks, calls or module, module
    body = bg.block([], nstmts)
    prog = RProg(scalars, arrays1, arrays2, loopvars + ["ii", "jj", "w"], init, body)
    prog.struct, prog.calls, prog.module = struct, calls or module, module
    return prog


def call_matrix():
    """SYSTEMATIC family: for every subroutine of the module library, every way of writing the
    actual arguments — positional prefix of every length, the remaining actuals as keywords in
    every order, the optional dummy present or skipped — one routine `x = ..; call ..; y = ..`
    whose actuals are distinct variables / array elements.  -> [(source, n_init)]"""
    import itertools
    out = []
    pool = ["s0", "a(2)", "s1", "b(3)"]
    for name, dummies in LIB_SIGS:
        variants = [dummies]
        if any(d == "scale" for d, _ in dummies):
            variants.append([(d, i) for d, i in dummies if d != "scale"])
        full = [d for d, _ in dummies]
        for chosen in variants:
            actual = {d: pool[k] for k, (d, _) in enumerate(chosen)}
            for npos in range(len(chosen) + 1):
                if [d for d, _ in chosen[:npos]] != full[:npos]:
                    continue
                for rest in itertools.permutations(chosen[npos:]):
                    if npos == len(chosen) - 1 and len(chosen) == len(dummies) and npos:
                        pass
                    args = [actual[d] for d, _ in chosen[:npos]] + [f"{d}={actual[d]}" for d, _ in rest]
                    body = ["  t = t + s0", f"  call {name}({', '.join(args)})", "  t = t + a(2)"]
                    scalars, arrays1 = ["s0", "s1", "t"], ["a", "b"]
                    init = ["  s0 = 2", "  s1 = 5", "  t = 1",
                            f"  do ii = {minif.A_LO}, {minif.A_HI}", "    a(ii) = mod(ii * 3 + 1, 7)", "  enddo",
                            f"  do ii = {minif.A_LO}, {minif.A_HI}", "    b(ii) = mod(ii * 5 + 2, 11) - 1", "  enddo",
                            "  w = 0"]
                    prog = RProg(scalars, arrays1, [], ["i", "j", "k", "ii", "jj", "w"], init, body)
                    prog.module = prog.calls = True
                    out.append((source_of(prog), n_init_nodes(prog)))
    seen, uniq = set(), []
    for src, n in out:
        if src not in seen:
            seen.add(src)
            uniq.append((src, n))
    return uniq


def source_of(prog, body=None):
    if getattr(prog, "module", False):
        # the routine `p` and the subroutines it calls live in ONE module (same Container)
        lines = ["module m", "  implicit none", "contains", LIB.rstrip("\n"),
                 "\n".join("  " + l for l in BUMP.rstrip("\n").splitlines()), "  subroutine p()"]
        lines += ["  " + l for l in prog.decls() + prog.init + (prog.body if body is None else body)]
        lines += ["  end subroutine p", "end module m"]
        return "\n".join(lines) + "\n"
    lines = ["program p"] + prog.decls() + prog.init + (prog.body if body is None else body) + ["end program p"]
    return "\n".join(lines) + "\n" + (BUMP if getattr(prog, "calls", False) else "")


def n_init_nodes(prog):
    return len(prog.scalars) + len(prog.arrays1) + len(prog.arrays2) + 1


# ---------------------------------------------------------------------------
# PSyIR -> RegionData.RStmt S-expressions (MiniF exporter + WhileLoop; `access_only` maps what
# MiniF cannot express to something with the same ACCESSES for the model of the analyses)

def member_ref(node, names, access_only):
    """StructureReference `g%d(i)` / `g%n` -> indexed access of the member's own id (a member
    is never a scalar for PSyclone's clause computation; a scalar member uses index 0)"""
    sig, indices = node.get_signature_and_indices()
    idx = [rexport_expr(i, names, access_only) for i in indices[-1]]
    if any(indices[:-1][k] for k in range(len(indices) - 1)):
        raise minif.Unsupported("array of structures")
    mid = names.id(str(sig))
    if len(idx) == 0:
        return mid, [["lit", 0]]
    if len(idx) > 2:
        raise minif.Unsupported("rank")
    return mid, idx


def rexport_expr(node, names, access_only=False):
    from psyclone.psyir import nodes as N
    ao = access_only
    if isinstance(node, N.StructureReference):
        mid, idx = member_ref(node, names, ao)
        return [f"idx{len(idx)}", mid] + idx
    if isinstance(node, N.CodeBlock):
        # READWRITE accesses cannot be expressed inside a MiniF expression: the enclosing
        # statement is exported as `opaque` (rexport_stmt); anywhere else: not supported
        raise minif.Unsupported("expression CodeBlock outside an assignment")
    if isinstance(node, N.Range) and ao:
        out = ["lit", 0]
        for c in node.children:
            out = ["bin", "add", out, rexport_expr(c, names, True)]
        return out
    if isinstance(node, N.IntrinsicCall):
        name = node.intrinsic.name.upper()
        args = [rexport_expr(a, names, ao) for a in node.arguments] if not (ao and name in ("LBOUND", "UBOUND", "SIZE")) else []
        if name in minif._INTR2 and len(args) >= 2 and (name in ("MIN", "MAX") or len(args) == 2):
            out = args[0]
            for a in args[1:]:
                out = ["bin", minif._INTR2[name], out, a]
            return out
        if name == "ABS" and len(args) == 1:
            return ["un", "abs", args[0]]
        if name in minif._IDENT and len(args) == 1:
            return args[0]
        if ao:
            out = ["lit", 0]
            for a in args:
                out = ["bin", "add", out, a]
            return out
        raise minif.Unsupported("intrinsic " + name)
    if isinstance(node, N.BinaryOperation):
        op = node.operator.name
        if op not in minif._BIN:
            if not ao:
                raise minif.Unsupported("operator " + op)
            op = "ADD"
        return ["bin", minif._BIN[op], rexport_expr(node.children[0], names, ao), rexport_expr(node.children[1], names, ao)]
    if isinstance(node, N.UnaryOperation):
        op = node.operator.name
        if op not in minif._UN:
            raise minif.Unsupported("operator " + op)
        return ["un", minif._UN[op], rexport_expr(node.children[0], names, ao)]
    if isinstance(node, N.ArrayReference):
        idx = node.indices
        if (any(isinstance(i, N.Range) for i in idx) and not ao) or not 1 <= len(idx) <= 2:
            raise minif.Unsupported("array access " + node.name)
        return [f"idx{len(idx)}", names.id(node.name)] + [rexport_expr(i, names, ao) for i in idx]
    if type(node) is N.Reference:
        if getattr(names, "rank", {}).get(node.name.lower(), 0) > 0:
            if not ao:
                raise minif.Unsupported("whole-array reference")
            return ["idx1", names.id(node.name), ["lit", 0]]
        return ["var", names.id(node.name)]
    return minif.export_expr(node, names)        # literals (and errors)


def codeblock_acc(node, names):
    """CodeBlock.reference_accesses at HEAD: READWRITE of every name, in get_symbol_names order"""
    return [["rw", names.id(n.lower()), 1 if getattr(names, "rank", {}).get(n.lower(), 0) > 0 else 0]
            for n in node.get_symbol_names()]


def expr_acc(node, names):
    """access entries of an expression that may contain CodeBlocks, in reference_accesses order"""
    from psyclone.psyir import nodes as N
    if isinstance(node, N.CodeBlock):
        return codeblock_acc(node, names)
    if not node.walk(N.CodeBlock):
        return [["rd", rexport_expr(node, names, True)]]
    if isinstance(node, (N.BinaryOperation, N.UnaryOperation)):
        return sum([expr_acc(c, names) for c in node.children], [])
    if isinstance(node, N.IntrinsicCall) and node.intrinsic.name.upper() not in ("LBOUND", "UBOUND", "SIZE"):
        return sum([expr_acc(c, names) for c in node.arguments], [])
    raise minif.Unsupported("CodeBlock nested in " + type(node).__name__)


def ref_target(arg, names):
    """by-reference actual argument -> (variable id, arr flag, [index expressions])"""
    from psyclone.psyir import nodes as N
    if isinstance(arg, N.StructureReference):
        mid, idx = member_ref(arg, names, True)
        return mid, 1, idx, True
    if isinstance(arg, N.ArrayReference):
        return names.id(arg.name), 1, [rexport_expr(i, names, True) for i in arg.indices], True
    x = names.id(arg.name)
    rank = getattr(names, "rank", {}).get(arg.name.lower(), 0)
    return x, (1 if rank > 0 else 0), [], False


def callee_of(call):
    from psyclone.psyir.nodes import Routine
    for r in call.root.walk(Routine):
        if r.name.lower() == call.routine.name.lower():
            return r
    return None


def bind_args(call, routine):
    """[(dummy symbol, actual node)] in the order of the ACTUAL arguments; keyword actuals are
    matched by name, positional ones by position (the harness's own matching, independent of
    Call._pure_subroutine_modified_args)"""
    dummies = routine.symbol_table.argument_list
    out = []
    for pos, (kw, arg) in enumerate(zip(call.argument_names, call.arguments)):
        if kw:
            d = [x for x in dummies if x.name.lower() == kw.lower()]
            if not d:
                return None
            out.append((d[0], arg))
        elif pos < len(dummies):
            out.append((dummies[pos], arg))
        else:
            return None
    return out


def is_pure_subroutine(names, name):
    return bool(re.search(r"^\s*pure\s+subroutine\s+" + re.escape(name) + r"\b", getattr(names, "src", ""), re.I | re.M))


def inline_call(node, names):
    """the callee's body with the actual arguments substituted for the dummies (callee bodies:
    assignments over dummies and literals; a dummy array is bound to a whole array, a scalar dummy
    to a scalar variable / array element / expression).  None if the call has another shape
    (then the region is not executed by the model)."""
    from psyclone.psyir import nodes as N
    routine = callee_of(node)
    pairs = bind_args(node, routine) if routine is not None else None
    if pairs is None:
        return None
    binding = {d.name.lower(): arg for d, arg in pairs}
    dummy_names = {d.name.lower() for d in routine.symbol_table.argument_list}

    def ex(e):
        if isinstance(e, N.Literal):
            return minif.export_expr(e, names)
        if isinstance(e, N.BinaryOperation) and e.operator.name in minif._BIN:
            return ["bin", minif._BIN[e.operator.name], ex(e.children[0]), ex(e.children[1])]
        if isinstance(e, N.ArrayReference) and e.name.lower() in binding and len(e.indices) == 1:
            act = binding[e.name.lower()]
            if type(act) is N.Reference and getattr(names, "rank", {}).get(act.name.lower(), 0) == 1:
                return ["idx1", names.id(act.name), ex(e.indices[0])]
            raise minif.Unsupported("array dummy")
        if type(e) is N.Reference and e.name.lower() in binding:
            return rexport_expr(binding[e.name.lower()], names, False)
        raise minif.Unsupported("callee expression")

    out = []
    try:
        for st in routine.children:
            if not isinstance(st, N.Assignment):
                return None
            lhs = st.lhs
            if lhs.name.lower() not in binding:
                return None            # unbound (absent optional) or local: not modelled
            act = binding[lhs.name.lower()]
            if isinstance(lhs, N.ArrayReference):
                if not (type(act) is N.Reference and len(lhs.indices) == 1
                        and getattr(names, "rank", {}).get(act.name.lower(), 0) == 1):
                    return None
                out.append(["store1", names.id(act.name), ex(lhs.indices[0]), ex(st.rhs)])
            elif type(lhs) is N.Reference:
                if not isinstance(act, N.Reference):
                    return None
                x, a, idx, elem = ref_target(act, names)
                if any(isinstance(i, N.Range) for i in getattr(act, "indices", [])):
                    return None
                if elem or a:
                    if len(idx) not in (1, 2) or (a and not elem):
                        return None
                    out.append([f"store{len(idx)}", x] + idx + [ex(st.rhs)])
                else:
                    out.append(["assign", x, ex(st.rhs)])
            else:
                return None
    except (minif.Unsupported, KeyError):
        return None
    # every dummy the body mentions must be bound
    for r in routine.walk(N.Reference):
        if r.name.lower() in dummy_names and r.name.lower() not in binding:
            return None
    return ["seqs"] + out


def call_accesses(node, names):
    """Call.reference_accesses at HEAD.  Non-pure call: every by-reference argument READWRITE, then
    the READs of its subscripts; other arguments READ.  PURE subroutine defined in the same
    container: an argument bound (by keyword, else by position) to a dummy that is not intent(in)
    is READWRITE, the others READ.  -> `opaque` statement (body = the callee with the actuals
    substituted if it can be inlined, else skip)"""
    from psyclone.psyir import nodes as N
    from psyclone.psyir.symbols import ArgumentInterface
    acc = []
    routine = callee_of(node)
    pure = is_pure_subroutine(names, node.routine.name)
    pairs = bind_args(node, routine) if routine is not None else None
    for pos, arg in enumerate(node.arguments):
        if isinstance(arg, N.Reference):
            modified = True
            if pure:
                modified = pairs is not None and pairs[pos][0].interface.access != ArgumentInterface.Access.READ
            x, a, idx, _ = ref_target(arg, names)
            if modified:
                acc.append(["rw", x, a])
                acc += [["rd", i] for i in idx]
            else:
                acc.append(["rd", rexport_expr(arg, names, True)])
        else:
            acc += expr_acc(arg, names)
    return ["opaque", acc, inline_call(node, names) or ["skip"]]


def assignment_with_codeblock(node, names):
    """Assignment whose right-hand side contains an expression CodeBlock: RHS accesses, READs of
    the LHS subscripts, WRITE of the LHS (the code itself is not modelled: body skip)"""
    from psyclone.psyir import nodes as N
    lhs = node.lhs
    acc = expr_acc(node.rhs, names)
    if isinstance(lhs, N.StructureReference):
        mid, idx = member_ref(lhs, names, True)
        return ["opaque", acc + [["rd", i] for i in idx] + [["wr", mid, 1]], ["skip"]]
    if isinstance(lhs, N.ArrayReference):
        idx = [rexport_expr(i, names, True) for i in lhs.indices]
        return ["opaque", acc + [["rd", i] for i in idx] + [["wr", names.id(lhs.name), 1]], ["skip"]]
    rank = getattr(names, "rank", {}).get(lhs.name.lower(), 0)
    return ["opaque", acc + [["wr", names.id(lhs.name), 1 if rank > 0 else 0]], ["skip"]]


def rexport_stmt(node, names, access_only=False):
    from psyclone.psyir import nodes as N
    ao = access_only
    if isinstance(node, (list, tuple)):
        parts = [rexport_stmt(c, names, ao) for c in node]
        return ["seqs"] + [p for p in parts if p is not None]
    if isinstance(node, N.Schedule):
        return rexport_stmt(list(node.children), names, ao)
    if isinstance(node, N.WhileLoop):
        return ["while", rexport_expr(node.condition, names, ao), rexport_stmt(node.loop_body, names, ao)]
    if isinstance(node, N.IfBlock):
        els = rexport_stmt(node.else_body, names, ao) if node.else_body is not None else ["skip"]
        return ["ite", rexport_expr(node.condition, names, ao), rexport_stmt(node.if_body, names, ao), els]
    if isinstance(node, N.Loop):
        return ["loop", names.id(node.variable.name), rexport_expr(node.start_expr, names, ao),
                rexport_expr(node.stop_expr, names, ao), rexport_expr(node.step_expr, names, ao),
                rexport_stmt(node.loop_body, names, ao)]
    if isinstance(node, N.Call) and not isinstance(node, N.IntrinsicCall):
        out = call_accesses(node, names)
        if out[2] == ["skip"] and not ao:
            raise minif.Unsupported("call")
        return out
    if isinstance(node, N.Assignment) and node.walk(N.CodeBlock):
        if not ao:
            raise minif.Unsupported("expression CodeBlock")
        return assignment_with_codeblock(node, names)
    if isinstance(node, N.Assignment):
        lhs, rhs = node.lhs, rexport_expr(node.rhs, names, ao)
        if isinstance(lhs, N.StructureReference):
            mid, idx = member_ref(lhs, names, ao)
            return [f"store{len(idx)}", mid] + idx + [rhs]
        if isinstance(lhs, N.ArrayReference):
            if any(isinstance(i, N.Range) for i in lhs.indices) and not ao:
                raise minif.Unsupported("array assignment")
            idx = [rexport_expr(i, names, ao) for i in lhs.indices]
            if len(idx) == 1:
                return ["store1", names.id(lhs.name), idx[0], rhs]
            if len(idx) == 2:
                return ["store2", names.id(lhs.name), idx[0], idx[1], rhs]
            raise minif.Unsupported("rank")
        if type(lhs) is N.Reference:
            return ["assign", names.id(lhs.name), rhs]
        raise minif.Unsupported("lhs")
    if isinstance(node, N.CodeBlock) and ao:
        return ["opaque", codeblock_acc(node, names), ["skip"]]     # statement CodeBlock
    return minif.export_stmt(node, names)


def rank_of(datatype):
    """rank of a declared variable; arrays with a negative lower bound reach PSyclone as
    UnsupportedFortranType (still non-scalar), so fall back to the declaration text"""
    from psyclone.psyir.symbols import ArrayType, UnsupportedFortranType
    if isinstance(datatype, ArrayType):
        return len(datatype.shape)
    if isinstance(datatype, UnsupportedFortranType):
        part = getattr(datatype, "partial_datatype", None)
        if isinstance(part, ArrayType):
            return len(part.shape)
        m = re.search(r"dimension\s*\(([^)]*)\)", datatype.declaration, re.I)
        return m.group(1).count(",") + 1 if m else 0
    return 0


def struct_components(datatype):
    """[(component name, rank)] of a derived type (StructureType, or its declaration text when
    PSyclone keeps it as UnsupportedFortranType)"""
    from psyclone.psyir.symbols import StructureType, UnsupportedFortranType
    if isinstance(datatype, StructureType):
        return [(n, rank_of(c.datatype)) for n, c in datatype.components.items()]
    out = []
    if isinstance(datatype, UnsupportedFortranType):
        for line in datatype.declaration.splitlines():
            m = re.match(r"\s*integer(.*)::\s*(\w+)\s*$", line, re.I)
            if m:
                d = re.search(r"dimension\s*\(([^)]*)\)", m.group(1), re.I)
                out.append((m.group(2).lower(), d.group(1).count(",") + 1 if d else 0))
    return out


class Parsed:
    """A parsed program: the routine, the name table (ids for every declared variable first),
    the declared cells, and exporters for prefix / region."""

    def __init__(self, src, n_init):
        from psyclone.psyir.symbols import DataSymbol, ArrayType
        self.src, self.n_init = src, n_init
        from psyclone.psyir.symbols import StructureType, DataTypeSymbol
        from psyclone.psyir.nodes import Routine
        self.psyir, _ = minif.parse_program(src)
        self.routine = [r for r in self.psyir.walk(Routine) if r.name.lower() == "p"][0]
        self.names = minif.Names()
        self.rank = {}
        self.parents = {}        # member name -> parent structure name
        for sym in self.routine.symbol_table.symbols:
            if isinstance(sym, DataSymbol):
                dt = sym.datatype
                if isinstance(dt, DataTypeSymbol):
                    self.names.id(sym.name)
                    self.rank[sym.name.lower()] = -1           # no cells of its own
                    for cname, crank in struct_components(dt.datatype):
                        full = f"{sym.name}%{cname}".lower()
                        self.names.id(full)
                        self.rank[full] = crank
                        self.parents[full] = sym.name.lower()
                else:
                    self.names.id(sym.name)
                    self.rank[sym.name.lower()] = rank_of(dt)
        self.names.rank = self.rank
        self.names.src = src
        self.body = self.routine.children[n_init:]

    def routine_of(self, psyir):
        from psyclone.psyir.nodes import Routine
        return [r for r in psyir.walk(Routine) if r.name.lower() == "p"][0]

    def parent_pairs(self):
        return [[self.vid(m), self.vid(p)] for m, p in sorted(self.parents.items())]

    def vid(self, name):
        return self.names.id(name)

    def all_ids(self):
        return sorted(self.names.id(n) for n in self.rank)

    def cells(self, name):
        r = self.rank[name]
        x = self.vid(name)
        if r < 0:
            return []
        if r == 0:
            return [(x,)]
        if r == 1:
            return [(x, i) for i in A_CELLS]
        return [(x, i, j) for j in M_CELLS for i in M_CELLS]

    def queries(self):
        """[(name, [cells])] in a fixed order, and the flat list"""
        per = [(n, self.cells(n)) for n in sorted(self.rank)]
        flat = [c for _, cs in per for c in cs]
        return per, flat

    def export(self, nodes, access_only=False):
        return rexport_stmt(list(nodes), self.names, access_only)

    def prefix(self, i):
        return self.export(self.routine.children[: self.n_init + i])

    def region_nodes(self, i, j, routine=None):
        r = routine if routine is not None else self.routine
        return r.children[self.n_init + i: self.n_init + j]


def split_values(per, flat_values):
    """flat value list -> {name: [values]}"""
    out, k = {}, 0
    for n, cs in per:
        out[n] = flat_values[k:k + len(cs)]
        k += len(cs)
    return out


# ---------------------------------------------------------------------------
# the real code

def real_inout(nodes):
    from psyclone.psyir.tools.call_tree_utils import CallTreeUtils
    try:
        rw = CallTreeUtils().get_in_out_parameters(list(nodes))
    except NotImplementedError:
        raise
    except Exception as e:                                        # noqa: BLE001
        err = "error:" + type(e).__name__      # no lists at all: nothing recorded
        return [err], [err]
    return (sorted(str(s) for s in rw.signatures_read), sorted(str(s) for s in rw.signatures_written))


def real_extract_lists(parsed, i, j):
    """in/out lists recorded by the real ExtractTrans + ExtractNode lowering, read back from
    the generated ProvideVariable calls.  Returns None if the transformation refuses."""
    from psyclone.psyir.transformations import ExtractTrans, TransformationError
    from psyclone.psyir.nodes import Routine
    p2 = parsed.psyir.copy()
    r2 = parsed.routine_of(p2)
    try:
        ExtractTrans().apply(parsed.region_nodes(i, j, r2))
    except TransformationError:
        return None
    text = minif.write_program(p2)
    pre, post, phase = [], [], 0
    for line in text.splitlines():
        s = line.strip()
        if "% PreEndDeclaration" in s:
            phase = 1
        elif "% PostStart" in s:
            phase = 2
        m = re.search(r'ProvideVariable\("([a-z0-9_%]+)",\s*([a-z0-9_% ]+)\)', s, re.I)
        if m and phase == 1:
            pre.append(m.group(2).lower().replace(" ", ""))
        elif m and phase == 2:
            post.append(m.group(2).lower().replace(" ", ""))
    return sorted(pre), sorted(post)


def real_acc_clauses(parsed, i, j, enter_data=False):
    """Apply the real ACCDataTrans to body[i:j] of a copy; returns 'refuse' or
    {'copyin': [...], 'copyout': [...], 'copy': [...]} parsed from the lowered directive."""
    from psyclone.transformations import ACCDataTrans, TransformationError
    from psyclone.psyir.nodes import Routine, ACCDataDirective, ACCEnterDataDirective
    from psyclone.psyir.backend.fortran import FortranWriter
    p2 = parsed.psyir.copy()
    r2 = parsed.routine_of(p2)
    if enter_data:
        class _Enter(ACCEnterDataDirective):
            def data_on_device(self, parent):
                pass
        r2.addchild(_Enter())
    nodes = parsed.region_nodes(i, j, r2)
    try:
        ACCDataTrans().apply(nodes)
    except TransformationError:
        return "refuse"
    except Exception as e:                                        # noqa: BLE001
        if not nodes and isinstance(e, IndexError):
            return "refuse"       # apply([]) dies on node_list[0]: no directive either
        return "error:" + type(e).__name__     # never predicted by the model -> disagreement
    d = r2.walk(ACCDataDirective)[0]
    d.lower_to_language_level()
    head = FortranWriter()(d).splitlines()[0].strip().lower()
    if not head.startswith("!$acc data"):
        raise ValueError("unexpected directive text: " + head)
    out = {"copyin": [], "copyout": [], "copy": []}
    for m in re.finditer(r"\b(copyin|copyout|copy)\(([^)]*)\)", head):
        out[m.group(1)] += [v.strip() for v in m.group(2).split(",") if v.strip()]
    return {k: sorted(v) for k, v in out.items()}


def item_sexps(parsed, nodes):
    """top-level region nodes -> model items: `(s <stmt>)`, or `(x)` for a node that is or
    contains a CodeBlock / Return (the excluded node types reachable from Fortran source)"""
    from psyclone.psyir.nodes import CodeBlock, Return
    items = []
    for n in nodes:
        if n.walk((CodeBlock, Return)):
            items.append(["x"])
        else:
            items.append(["s", rexport_stmt(n, parsed.names)])
    return items





def call_argument_vars(parsed, nodes):
    """ids of the variables that are arguments of non-intrinsic calls in the region (they get
    a READWRITE access)"""
    from psyclone.psyir.nodes import Call, IntrinsicCall, Reference
    out = set()
    for n in nodes:
        for c in n.walk(Call):
            if isinstance(c, IntrinsicCall):
                continue
            for arg in c.arguments:
                if isinstance(arg, Reference):
                    out.add(parsed.vid(str(arg.get_signature_and_indices()[0])))
    return sorted(out)


def has_codeblock(nodes):
    from psyclone.psyir.nodes import CodeBlock
    return any(n.walk(CodeBlock) for n in nodes)


def non_minif(nodes, names=None):
    """the region contains something the model cannot execute: a CodeBlock, or a call other than
    the generator's `bump` (whose body is inlined into the `opaque` statement) — evaluated with
    the gfortran replay oracle instead"""
    from psyclone.psyir.nodes import CodeBlock, Call, IntrinsicCall
    for n in nodes:
        for c in n.walk((CodeBlock, Call)):
            if isinstance(c, IntrinsicCall):
                continue
            if isinstance(c, CodeBlock) or names is None or inline_call(c, names) is None:
                return True
    return False


def access_items(parsed, nodes):
    """model items for the ACCESS model of a region that contains CodeBlocks / calls: a node that
    is or contains a CodeBlock / Return is an excluded item `(x <stmt>)` (ExtractTrans / ACCDataTrans
    refuse) whose statement carries the accesses PSyclone records (CodeBlock: READWRITE of its
    names); every other statement is `(s <stmt>)`"""
    from psyclone.psyir.nodes import CodeBlock, Return
    items = []
    for n in nodes:
        if isinstance(n, Return):
            items.append(["x"])
        elif n.walk((CodeBlock, Return)):
            items.append(["x", rexport_stmt(n, parsed.names, access_only=True)])
        else:
            items.append(["s", rexport_stmt(n, parsed.names, access_only=True)])
    return items


# ---------------------------------------------------------------------------
# gfortran replay oracle for regions MiniF cannot execute (CodeBlocks)

def fortran_pieces(parsed):
    """(header text with declarations, [text of every top-level statement])"""
    from psyclone.psyir.backend.fortran import FortranWriter
    from psyclone.psyir.nodes import Routine
    w = FortranWriter()
    p2 = parsed.psyir.copy()
    r2 = parsed.routine_of(p2)
    for c in list(r2.children):
        c.detach()
    text = w(r2)
    head = text[: text.lower().rindex("end program")]
    return head, [w(c) for c in parsed.routine.children]


def other_units(parsed):
    from psyclone.psyir.backend.fortran import FortranWriter
    from psyclone.psyir.nodes import Routine
    return "".join(FortranWriter()(r) for r in parsed.psyir.walk(Routine) if r.name.lower() != "p")


def gfortran_replay(parsed, i, j, real_in, real_out, delta=1):
    """Run the program up to the region, (optionally) shift every non-input variable, run the
    region, print everything.  Returns a list of failures like c12.evaluate, or None if the
    oracle is not applicable (compile error / original run fails)."""
    if "end program" not in parsed.src.lower():
        return None                            # module-wrapped routine: executed by the model only
    head, stmts = fortran_pieces(parsed)
    k0 = parsed.n_init + i
    names = sorted(n for n in parsed.rank if parsed.rank[n] >= 0)
    tail = "end program p\n" + other_units(parsed)

    def program(perturb):
        body = stmts[:k0]
        snap = []
        if perturb:
            body = body + [f"  {n} = {n} + {delta if parsed.rank[n] == 0 else 1000}\n" for n in names if n not in real_in]
        body = body + stmts[k0: parsed.n_init + j]
        out = "".join(f"  print *, {n}\n" for n in names)
        return head + "".join(body) + "".join(snap) + out + tail

    def before_program():
        out = "".join(f"  print *, {n}\n" for n in names)
        return head + "".join(stmts[:k0]) + out + tail

    def run(src):
        st, o = minif.gfortran_run(src, flags=("-fcheck=bounds",))
        return st, o

    st0, o0 = run(before_program())
    st1, o1 = run(program(False))
    if st0 != "ok" or st1 != "ok":
        return None
    st2, o2 = run(program(True))
    if st2 == "compile-error":
        return None

    def split(o):
        vals = [int(tok) for tok in o.split()]
        res, k = {}, 0
        for n in names:
            ln = 1 if parsed.rank[n] == 0 else (len(A_CELLS) if parsed.rank[n] == 1 else len(M_CELLS) ** 2)
            res[n] = vals[k:k + ln]
            k += ln
        return res
    before, after = split(o0), split(o1)
    fails = []
    for n in names:
        if before[n] != after[n] and n not in real_out:
            fails.append(("dynamic-write-not-output", {"variable": n, "oracle": "gfortran"}))
    if st2 != "ok":
        fails.append(("replay-differs-on-output", {"oracle": "gfortran", "replayed": "run-time error (" + st2 + ")"}))
        return fails
    after_t = split(o2)
    for n in names:
        if n in real_out and after[n] != after_t[n]:
            k = next(k for k in range(len(after[n])) if after[n][k] != after_t[n][k])
            fails.append(("replay-differs-on-output", {"variable": n, "flat_index": k, "recorded": after[n][k],
                                                       "replayed": after_t[n][k], "oracle": "gfortran"}))
    return fails



# ---------------------------------------------------------------------------
# classifier of the known defect class (textual, on the real PSyIR)

def partial_first_writes(nodes):
    """Variables whose first textual access in the region is a WRITE that does not
    unconditionally define the whole variable: an array element write, a write nested in an
    IF or a loop body, or a loop whose bounds read its own variable.  -> {name: reason}"""
    from psyclone.core import VariablesAccessInfo, AccessType
    from psyclone.psyir.nodes import Loop, Assignment, Reference
    from psyclone.psyir.symbols import ArrayType
    nodes = list(nodes)
    if not nodes:
        return {}
    vai = VariablesAccessInfo(nodes)
    out = {}
    for sig in vai.all_signatures:
        acc = vai[sig].all_accesses
        if not acc or acc[0].access_type != AccessType.WRITE:
            continue
        node = acc[0].node
        stmt = node if isinstance(node, Loop) else node.ancestor(Assignment, include_self=True)
        name = str(sig)
        if "%" in name:
            is_arr = bool(node.get_signature_and_indices()[1][-1]) if hasattr(node, "get_signature_and_indices") else True
        else:
            is_arr = rank_of(nodes[0].scope.symbol_table.lookup(name).datatype) > 0
        if is_arr:
            out[name] = "array element write"
        elif not any(stmt is n for n in nodes):
            out[name] = "write nested in a conditional or a loop body"
        elif isinstance(stmt, Loop) and any(
                r.name.lower() == name.lower()
                for e in (stmt.start_expr, stmt.stop_expr, stmt.step_expr) for r in e.walk(Reference)):
            out[name] = "loop variable read in its own bounds"
    return out


def partial_first_written_and_read(nodes):
    """names of partial_first_writes(nodes) that are also READ somewhere in the region (their
    unrecorded incoming value can then influence ANY output, e.g. through a loop condition)"""
    from psyclone.core import VariablesAccessInfo, Signature
    nodes = list(nodes)
    part = partial_first_writes(nodes)
    if not part:
        return []
    vai = VariablesAccessInfo(nodes)
    return sorted(n for n in part if any(str(sig) == n and vai[sig].is_read() for sig in vai.all_signatures))


def line(op, *args):
    return sx([op] + list(args))
