"""Shared by C12 and C13: seeded region generator over MiniF programs, access to the real
PSyclone region analyses (get_in_out_parameters, ExtractTrans, ACCDataTrans), exporter glue
and the textual classifier of the known defect class."""
import re

import minif
from common import sx

A_CELLS = list(range(minif.A_LO, minif.A_HI + 1))
M_CELLS = list(range(minif.M_LO, minif.M_HI + 1))


class RGen(minif.BodyGen):
    """BodyGen biased so that regions of every kind occur: read-modify-write of array
    elements (first access READ), scalar temporaries assigned at the top level, scalars
    updated in place, plain (partial) element writes, conditionally written variables."""

    def assign(self, live, ind="  "):
        r = self.rng
        x = r.random()
        if x < 0.30:
            a = r.choice(self.arrays1)
            sub = self.subscript(live)
            return [f"{ind}{a}({sub}) = {a}({sub}) + {self.expr(live, 1)}"]
        if x < 0.45 and self.scalars:
            return [f"{ind}{r.choice(self.scalars)} = {self.expr(live)}"]
        if x < 0.55 and self.scalars:
            s = r.choice(self.scalars)
            return [f"{ind}{s} = {s} + {self.expr(live, 1)}"]
        return super().assign(live, ind)


def gen_program(rng, nstmts):
    scalars = ["s0", "s1", "t"][: rng.randint(1, 3)]
    arrays1 = ["a", "b", "c"][: rng.randint(2, 3)]
    arrays2 = ["m"] if rng.random() < 0.3 else []
    loopvars = ["i", "j", "k"]
    init = minif.gen_init(rng, scalars, arrays1, arrays2)
    bg = RGen(rng, scalars, arrays1, arrays2, loopvars)
    body = bg.block([], nstmts)
    return minif.Prog(scalars, arrays1, arrays2, loopvars + ["ii", "jj"], init, body)


def source_of(prog, body=None):
    lines = ["program p"] + prog.decls() + prog.init + (prog.body if body is None else body) + ["end program p"]
    return "\n".join(lines) + "\n"


def n_init_nodes(prog):
    return len(prog.scalars) + len(prog.arrays1) + len(prog.arrays2)


def rank_of(datatype):
    """rank of a declared variable; arrays with a negative lower bound reach PSyclone as
    UnsupportedFortranType (still non-scalar), so fall back to the declaration text"""
    from psyclone.psyir.symbols import ArrayType, UnsupportedFortranType
    if isinstance(datatype, ArrayType):
        return len(datatype.shape)
    if isinstance(datatype, UnsupportedFortranType):
        part = getattr(datatype, "partial_datatype", None)
        if isinstance(part, ArrayType):
            return len(part.shape)
        m = re.search(r"dimension\s*\(([^)]*)\)", datatype.declaration, re.I)
        return m.group(1).count(",") + 1 if m else 0
    return 0


class Parsed:
    """A parsed program: the routine, the name table (ids for every declared variable first),
    the declared cells, and exporters for prefix / region."""

    def __init__(self, src, n_init):
        from psyclone.psyir.symbols import DataSymbol, ArrayType
        self.src, self.n_init = src, n_init
        self.psyir, self.routine = minif.parse_program(src)
        self.names = minif.Names()
        self.rank = {}
        for sym in self.routine.symbol_table.symbols:
            if isinstance(sym, DataSymbol):
                self.names.id(sym.name)
                self.rank[sym.name.lower()] = rank_of(sym.datatype)
        self.body = self.routine.children[n_init:]

    def vid(self, name):
        return self.names.id(name)

    def all_ids(self):
        return sorted(self.names.id(n) for n in self.rank)

    def cells(self, name):
        r = self.rank[name]
        x = self.vid(name)
        if r == 0:
            return [(x,)]
        if r == 1:
            return [(x, i) for i in A_CELLS]
        return [(x, i, j) for j in M_CELLS for i in M_CELLS]

    def queries(self):
        """[(name, [cells])] in a fixed order, and the flat list"""
        per = [(n, self.cells(n)) for n in sorted(self.rank)]
        flat = [c for _, cs in per for c in cs]
        return per, flat

    def export(self, nodes):
        return minif.export_stmt(list(nodes), self.names)

    def prefix(self, i):
        return self.export(self.routine.children[: self.n_init + i])

    def region_nodes(self, i, j, routine=None):
        r = routine if routine is not None else self.routine
        return r.children[self.n_init + i: self.n_init + j]


def split_values(per, flat_values):
    """flat value list -> {name: [values]}"""
    out, k = {}, 0
    for n, cs in per:
        out[n] = flat_values[k:k + len(cs)]
        k += len(cs)
    return out


# ---------------------------------------------------------------------------
# the real code

def real_inout(nodes):
    from psyclone.psyir.tools.call_tree_utils import CallTreeUtils
    try:
        rw = CallTreeUtils().get_in_out_parameters(list(nodes))
    except NotImplementedError:
        raise
    except Exception as e:                                        # noqa: BLE001
        err = "error:" + type(e).__name__      # no lists at all: nothing recorded
        return [err], [err]
    return (sorted(str(s) for s in rw.signatures_read), sorted(str(s) for s in rw.signatures_written))


def real_extract_lists(parsed, i, j):
    """in/out lists recorded by the real ExtractTrans + ExtractNode lowering, read back from
    the generated ProvideVariable calls.  Returns None if the transformation refuses."""
    from psyclone.psyir.transformations import ExtractTrans, TransformationError
    from psyclone.psyir.nodes import Routine
    p2 = parsed.psyir.copy()
    r2 = p2.walk(Routine)[0]
    try:
        ExtractTrans().apply(parsed.region_nodes(i, j, r2))
    except TransformationError:
        return None
    text = minif.write_program(p2)
    pre, post, phase = [], [], 0
    for line in text.splitlines():
        s = line.strip()
        if "% PreEndDeclaration" in s:
            phase = 1
        elif "% PostStart" in s:
            phase = 2
        m = re.search(r'ProvideVariable\("([a-z0-9_]+)",\s*([a-z0-9_]+)\)', s, re.I)
        if m and phase == 1:
            pre.append(m.group(2).lower())
        elif m and phase == 2:
            post.append(m.group(2).lower())
    return sorted(pre), sorted(post)


def real_acc_clauses(parsed, i, j, enter_data=False):
    """Apply the real ACCDataTrans to body[i:j] of a copy; returns 'refuse' or
    {'copyin': [...], 'copyout': [...], 'copy': [...]} parsed from the lowered directive."""
    from psyclone.transformations import ACCDataTrans, TransformationError
    from psyclone.psyir.nodes import Routine, ACCDataDirective, ACCEnterDataDirective
    from psyclone.psyir.backend.fortran import FortranWriter
    p2 = parsed.psyir.copy()
    r2 = p2.walk(Routine)[0]
    if enter_data:
        class _Enter(ACCEnterDataDirective):
            def data_on_device(self, parent):
                pass
        r2.addchild(_Enter())
    nodes = parsed.region_nodes(i, j, r2)
    try:
        ACCDataTrans().apply(nodes)
    except TransformationError:
        return "refuse"
    except Exception as e:                                        # noqa: BLE001
        if not nodes and isinstance(e, IndexError):
            return "refuse"       # apply([]) dies on node_list[0]: no directive either
        return "error:" + type(e).__name__     # never predicted by the model -> disagreement
    d = r2.walk(ACCDataDirective)[0]
    d.lower_to_language_level()
    head = FortranWriter()(d).splitlines()[0].strip().lower()
    if not head.startswith("!$acc data"):
        raise ValueError("unexpected directive text: " + head)
    out = {"copyin": [], "copyout": [], "copy": []}
    for m in re.finditer(r"\b(copyin|copyout|copy)\(([^)]*)\)", head):
        out[m.group(1)] += [v.strip() for v in m.group(2).split(",") if v.strip()]
    return {k: sorted(v) for k, v in out.items()}


def item_sexps(parsed, nodes):
    """top-level region nodes -> model items: `(s <stmt>)`, or `(x)` for a node that is or
    contains a CodeBlock / Return (the excluded node types reachable from Fortran source)"""
    from psyclone.psyir.nodes import CodeBlock, Return
    items = []
    for n in nodes:
        if n.walk((CodeBlock, Return)):
            items.append(["x"])
        else:
            items.append(["s", minif.export_stmt(n, parsed.names)])
    return items


# ---------------------------------------------------------------------------
# classifier of the known defect class (textual, on the real PSyIR)

def partial_first_writes(nodes):
    """Variables whose first textual access in the region is a WRITE that does not
    unconditionally define the whole variable: an array element write, a write nested in an
    IF or a loop body, or a loop whose bounds read its own variable.  -> {name: reason}"""
    from psyclone.core import VariablesAccessInfo, AccessType
    from psyclone.psyir.nodes import Loop, Assignment, Reference
    from psyclone.psyir.symbols import ArrayType
    nodes = list(nodes)
    if not nodes:
        return {}
    vai = VariablesAccessInfo(nodes)
    out = {}
    for sig in vai.all_signatures:
        acc = vai[sig].all_accesses
        if not acc or acc[0].access_type != AccessType.WRITE:
            continue
        node = acc[0].node
        stmt = node if isinstance(node, Loop) else node.ancestor(Assignment, include_self=True)
        name = str(sig)
        sym = nodes[0].scope.symbol_table.lookup(name)
        if rank_of(sym.datatype) > 0:
            out[name] = "array element write"
        elif not any(stmt is n for n in nodes):
            out[name] = "write nested in a conditional or a loop body"
        elif isinstance(stmt, Loop) and any(
                r.name.lower() == name.lower()
                for e in (stmt.start_expr, stmt.stop_expr, stmt.step_expr) for r in e.walk(Reference)):
            out[name] = "loop variable read in its own bounds"
    return out


def line(op, *args):
    return sx([op] + list(args))
