"""C03/C04 — real-code side: program generator, symbol-table exporter (PSyIR -> Decls.Unit
S-expression), capture of the table the writer declares from, and a parser for the declaration
order of the written text."""
import re

STUB = """module ext_mod
  implicit none
  integer, parameter :: ek1 = 8, ek2 = 4, en1 = 5
  real :: ev1, ev2
  integer :: ei1
contains
  subroutine esub(x)
    real :: x
    x = 1.0
  end subroutine esub
end module ext_mod
module wild_mod
  implicit none
  integer, parameter :: wk = 8, wn = 3
  real :: wv1
  integer :: zeta, alpha, beta
end module wild_mod
"""

IDENT = re.compile(r"[A-Za-z_][A-Za-z_0-9]*")


# --------------------------------------------------------------------------- capture
def write_capture(node):
    """Write `node` with the real FortranWriter; returns (text, [(table, is_module_scope)...]) where the
    tables are the ones handed to gen_decls (for a routine: the merged whole-routine scope)."""
    from psyclone.psyir.backend.fortran import FortranWriter
    seen = []

    class W(FortranWriter):
        def gen_decls(self, symbol_table, is_module_scope=False):
            # exported at once: the tables belong to the writer's private copy of the tree
            seen.append(export_table(symbol_table, is_module_scope) + (is_module_scope,))
            return super().gen_decls(symbol_table, is_module_scope)
    return W()(node), seen


# --------------------------------------------------------------------------- export
def _expr_names(expr):
    from psyclone.psyir.nodes import Reference, Literal
    from psyclone.psyir.symbols import DataSymbol
    out = []
    if expr is None:
        return out
    from psyclone.psyir.symbols import IntrinsicSymbol
    for ref in expr.walk(Reference):
        if not isinstance(ref.symbol, IntrinsicSymbol):
            out.append(ref.symbol.name.lower())
    for lit in expr.walk(Literal):
        p = getattr(lit.datatype, "precision", None)
        if isinstance(p, DataSymbol):
            out.append(p.name.lower())
    return out


def _type_names(dt, cands):
    """(kind names, other names) read by a datatype"""
    from psyclone.psyir.symbols import (ArrayType, ScalarType, DataTypeSymbol, DataSymbol, UnsupportedFortranType,
                                        StructureType)
    from psyclone.psyir.nodes import Node
    kinds, other = [], []
    if isinstance(dt, ArrayType):
        for dim in dt.shape:
            if isinstance(dim, ArrayType.ArrayBounds):
                for b in (dim.lower, dim.upper):
                    if isinstance(b, Node):
                        other += _expr_names(b)
        p = getattr(dt, "precision", None)
        if isinstance(p, DataSymbol):
            kinds.append(p.name.lower())
        if isinstance(dt.intrinsic, DataTypeSymbol):
            other.append(dt.intrinsic.name.lower())
    elif isinstance(dt, ScalarType):
        if isinstance(dt.precision, DataSymbol):
            kinds.append(dt.precision.name.lower())
    elif isinstance(dt, DataTypeSymbol):
        other.append(dt.name.lower())
    elif isinstance(dt, UnsupportedFortranType):
        text = dt.declaration.lower()
        text = re.sub(r"'[^']*'|\"[^\"]*\"", " ", text)
        other += [w for w in IDENT.findall(text) if w in cands]
    elif isinstance(dt, StructureType):
        for comp in dt.components.values():
            k, o = _type_names(comp.datatype, cands)
            other += k + o + _expr_names(comp.initial_value)
    return kinds, other


def classify(sym, table):
    from psyclone.psyir.symbols import (ContainerSymbol, IntrinsicSymbol, RoutineSymbol, UnresolvedInterface,
                                        PreprocessorInterface, GenericInterfaceSymbol, UnsupportedType, DataSymbol,
                                        DataTypeSymbol)
    if isinstance(sym, ContainerSymbol):
        return "cont1" if sym.wildcard_import else "cont0"
    if sym.is_import:
        return ["imp", sym.interface.container_symbol.name.lower()]
    if isinstance(sym, IntrinsicSymbol) or (isinstance(sym, RoutineSymbol)
                                            and isinstance(sym.interface, UnresolvedInterface)):
        return "skip"
    if isinstance(sym.interface, PreprocessorInterface):
        return "skip"
    if isinstance(sym.interface, UnresolvedInterface):
        return "unres"
    if isinstance(sym, RoutineSymbol):
        if isinstance(sym, GenericInterfaceSymbol) or isinstance(sym.datatype, UnsupportedType):
            return "iface"
        if sym.is_modulevar or sym.is_automatic:
            return "skip"
        return "rbad"
    if isinstance(sym, DataSymbol) and sym.is_constant:
        return "param"
    if isinstance(sym, DataSymbol) and sym.is_argument:
        return "arg"
    if isinstance(sym, DataTypeSymbol):
        return "dtype"
    return "other"


def outer_names(table):
    names, wild = [], False
    t = table.parent_symbol_table()
    while t is not None:
        from psyclone.psyir.symbols import ContainerSymbol
        for s in t.symbols:
            names.append(s.name.lower())
            if isinstance(s, ContainerSymbol) and s.wildcard_import:
                wild = True
            if s.name.lower() == "_psyclone_internal_interface":
                wild = True
        t = t.parent_symbol_table()
    return names, wild


def export_table(table, is_module, routines=(), args=()):
    """-> (unit as nested list for common.sx, {name: id}, [(name, cls, ideps, xdeps)])"""
    from psyclone.psyir.symbols import (Symbol, DataSymbol, GenericInterfaceSymbol, RoutineSymbol,
                                        UnsupportedFortranType, DataTypeSymbol)
    syms = list(table.symbols)
    outer, owild = outer_names(table)
    owild = owild or any(s.name.lower() == "_psyclone_internal_interface" for s in syms)
    local = [s.name.lower() for s in syms]
    cands = set(local) | set(outer)
    rows = []
    for s in syms:
        cls = classify(s, table)
        ideps, xdeps = [], []
        own = s.name.lower()
        if isinstance(s, GenericInterfaceSymbol):
            xdeps += [r.symbol.name.lower() for r in s.routines]
        elif isinstance(s, RoutineSymbol):
            if isinstance(s.datatype, UnsupportedFortranType):
                xdeps += _type_names(s.datatype, cands)[1]
        elif isinstance(s, DataTypeSymbol):
            k, o = _type_names(s.datatype, cands)
            xdeps += k + o
        elif isinstance(s, DataSymbol):
            ideps += _expr_names(s.initial_value)
            k, o = _type_names(s.datatype, cands)
            ideps += k
            xdeps += o
        ideps = [d for d in dict.fromkeys(ideps) if d != own]
        xdeps = [d for d in dict.fromkeys(xdeps) if d != own and d not in ideps]
        rows.append((own, cls, isinstance(s, RoutineSymbol),
                     s.visibility == Symbol.Visibility.PUBLIC, ideps, xdeps))
    allnames = set(local) | set(outer) | {d for r in rows for d in r[4] + r[5]} | set(routines) | \
        {r[1][1] for r in rows if isinstance(r[1], list)} | set(args)
    ids = {n: i + 1 for i, n in enumerate(sorted(allnames))}
    symx = []
    for (n, cls, rt, pub, ideps, xdeps) in rows:
        c = ["imp", ids[cls[1]]] if isinstance(cls, list) else cls
        symx.append([ids[n], c, rt, pub, [ids[d] for d in ideps], [ids[d] for d in xdeps]])
    from psyclone.psyir.symbols import Symbol as S
    unit = ["unit", bool(is_module), table.default_visibility == S.Visibility.PRIVATE, owild,
            [ids[n] for n in dict.fromkeys(outer)], [ids[a] for a in args], [],
            [ids[r] for r in routines], symx]
    return unit, ids, rows


# --------------------------------------------------------------------------- text
def spec_lines(text, is_module):
    """lines of the specification part of the first program unit in `text` (after the header)"""
    lines = text.split("\n")[1:]
    out = []
    for ln in lines:
        if is_module and ln.strip().lower() == "contains":
            break
        if not is_module and ln.strip() == "":
            break
        out.append(ln)
    return out


def declared_order(lines):
    """names declared by the lines, in order; also the access statements and use statements"""
    decls, access, uses = [], [], []
    unnamed = 0
    i = 0
    while i < len(lines):
        ln = lines[i].strip()
        low = ln.lower()
        i += 1
        if not low or low.startswith("!") or low == "implicit none":
            continue
        if low.startswith("use"):
            m = re.match(r"use\s*(?:,\s*intrinsic\s*::)?\s*(\w+)(?:\s*,\s*only\s*:\s*(.*))?$", low)
            if m:
                only = [x.strip().split("=>")[0] for x in m.group(2).split(",")] if m.group(2) else []
                uses.append((m.group(1), [x for x in only if x]))
            continue
        if low in ("public", "private"):
            access.append((low, None))
            continue
        m = re.match(r"(public|private)\s*::\s*(.*)$", low)
        if m:
            access.append((m.group(1), [x.strip() for x in m.group(2).split(",")]))
            continue
        m = re.match(r"type\s*(?:,[^:]*)?::\s*(\w+)\s*$", low)
        if m and not low.startswith("type("):
            decls.append(m.group(1))
            while i < len(lines) and not lines[i].strip().lower().startswith("end type"):
                i += 1
            i += 1
            continue
        m = re.match(r"(?:abstract\s+)?interface\b\s*(\w*)", low)
        if m:
            name = m.group(1)
            body = []
            while i < len(lines) and not lines[i].strip().lower().startswith("end interface"):
                body.append(lines[i].strip().lower())
                i += 1
            i += 1
            if not name:
                name = "_psyclone_internal_interface" + (f"_{unnamed}" if unnamed else "")
                unnamed += 1
            decls.append(name or "?")
            continue
        if "::" in low:
            rhs = low.split("::", 1)[1]
            m = IDENT.match(rhs.strip())
            if m:
                decls.append(m.group(0))
            continue
        decls.append("?" + low)
    return decls, access, uses


# --------------------------------------------------------------------------- generator
class Gen:
    """A random module or subroutine in the supported subset.  `risky` enables the constructs of the
    known-finding classes (a constant that reads a variable / an unsupported-type constant / an
    interface body importing a later constant / an argument of a local derived type)."""

    def __init__(self, rng, risky=False, named_args=False):
        self.r = rng
        self.risky = risky
        self.named_args = named_args

    def build(self):
        r = self.r
        self.module = r.random() < 0.4
        self.kparams, self.iparams, self.scalars, self.arrays, self.types, self.tvars = [], [], [], [], [], []
        self.decl, self.uses, self.args, self.pre = [], [], [], []
        self.ifaces, self.features = [], set()
        self.rparams = []
        if r.random() < 0.5:
            only = r.sample(["ek1", "ek2", "en1", "ev1", "ev2", "ei1"], r.randint(1, 4))
            self.uses.append("use ext_mod, only: " + ", ".join(only))
            self.kparams += [k for k in only if k in ("ek1", "ek2")]
            self.iparams += [k for k in only if k == "en1"]
            self.features.add("use-only")
        self.wild = r.random() < 0.25
        if self.wild:
            self.uses.append("use wild_mod")
            self.kparams.append("wk")
            self.iparams.append("wn")
            self.features.add("use-wildcard")
        n = r.randint(3, 10)
        cnt = 0
        for _ in range(n):
            cnt += 1
            self.entity(cnt)
        return self

    def lkinds(self):
        """kind constants declared in this unit"""
        return [x for x in self.kparams if x.startswith("kp")]

    def entity(self, k):
        r = self.r
        kinds = ["kparam", "iparam", "rparam", "scalar", "array", "parray", "type", "tvar", "unsup", "iface", "save",
                 "kparray", "kref", "kintr"]
        w = [2, 3, 2, 3, 3, 1, 1, 1, 1, 1, 1, 2, 2, 1]
        if self.risky:
            kinds += ["risk_kindvar", "risk_charlen", "risk_iface"]
            w += [2, 2, 2]
        kind = r.choices(kinds, w)[0]
        vis = ""
        if self.module and r.random() < 0.3:
            vis = r.choice([", public", ", private"])
        if kind == "kparam":
            nm = f"kp{k}"
            self.decl.append(f"integer, parameter{vis} :: {nm} = {r.choice(['8', '4', 'kind(1.0d0)', 'selected_real_kind(6, 30)'])}")
            self.kparams.append(nm)
        elif kind == "iparam":
            nm = f"np{k}"
            rhs = str(r.randint(2, 6))
            if self.iparams and r.random() < 0.6:
                rhs = f"{r.choice(self.iparams)} + {r.randint(1, 3)}"
                self.features.add("param-dep")
            kk = ""
            if self.kparams and r.random() < 0.2:
                kk = f"(kind={r.choice(['4', '8'])})"
            self.decl.append(f"integer{kk}, parameter{vis} :: {nm} = {rhs}")
            self.iparams.append(nm)
        elif kind == "rparam":
            nm = f"cp{k}"
            self.rparams.append(nm)
            if self.kparams:
                kp = r.choice(self.kparams)
                self.decl.append(f"real(kind={kp}), parameter{vis} :: {nm} = {r.randint(1, 9)}.0_{kp}")
                self.features.add("param-kind")
            else:
                self.decl.append(f"real, parameter{vis} :: {nm} = {r.randint(1, 9)}.5")
        elif kind == "kparray" and self.lkinds():
            # own kind + an initial value without any Literal node (array constructor = CodeBlock)
            nm = f"wa{k}"
            self.decl.append(f"real(kind={r.choice(self.lkinds())}), dimension(3), parameter{vis} :: {nm} = "
                             f"(/0.25, 0.5, 0.25/)")
            self.features.add("param-ownkind-codeblock-init")
        elif kind == "kref" and self.lkinds() and self.iparams:
            # own kind + an initial value that is a bare reference to another constant
            nm = f"np{k}"
            self.decl.append(f"integer(kind={r.choice(self.lkinds())}), parameter{vis} :: {nm} = {r.choice(self.iparams)}")
            self.iparams.append(nm)
            self.features.add("param-ownkind-ref-init")
        elif kind == "kintr" and self.lkinds() and self.rparams:
            nm = f"cp{k}"
            self.decl.append(f"real(kind={r.choice(self.lkinds())}), parameter{vis} :: {nm} = "
                             f"epsilon({r.choice(self.rparams)})")
            self.rparams.append(nm)
            self.features.add("param-ownkind-intrinsic-init")
        elif kind == "scalar":
            nm = f"s{k}"
            t = r.choice(["real", "integer", "logical"])
            if t == "real" and self.kparams and r.random() < 0.5:
                t = f"real(kind={r.choice(self.kparams)})"
            self.decl.append(f"{t}{vis} :: {nm}")
            self.scalars.append((nm, t))
        elif kind == "array":
            nm = f"a{k}"
            b = r.choice(self.iparams) if self.iparams and r.random() < 0.6 else str(r.randint(2, 6))
            if b in self.iparams:
                self.features.add("bound-param")
            self.decl.append(f"real{vis} :: {nm}({b})")
            self.arrays.append((nm, b))
        elif kind == "parray":
            nm = f"pa{k}"
            b = r.choice(self.iparams) if self.iparams else "3"
            self.decl.append(f"real, parameter{vis} :: {nm}({b}) = 1.0")
            self.features.add("param-array")
        elif kind == "type":
            nm = f"t{k}"
            self.decl.append(f"type{vis} :: {nm}\n  integer :: i\n  real :: r({r.randint(2, 4)})\nend type {nm}")
            self.types.append(nm)
            self.features.add("dtype")
        elif kind == "tvar" and self.types:
            nm = f"tv{k}"
            self.decl.append(f"type({r.choice(self.types)}){vis} :: {nm}")
            self.tvars.append(nm)
        elif kind == "unsup":
            nm = f"up{k}"
            self.decl.append(r.choice([f"real, pointer{vis} :: {nm}(:)", f"real, target{vis} :: {nm}(4)",
                                       f"character(len=8){vis} :: {nm}"]))
            self.features.add("unsupported-decl")
        elif kind == "iface":
            nm = f"xf{k}"
            self.decl.append(f"interface\n  subroutine {nm}(x)\n    real :: x\n  end subroutine {nm}\nend interface")
            self.ifaces.append(nm)
            self.features.add("interface")
        elif kind == "save":
            nm = f"sv{k}"
            init = r.choice(self.iparams) if self.iparams and r.random() < 0.5 else "1"
            self.decl.append(f"integer, save{vis} :: {nm} = {init}")
            self.scalars.append((nm, "integer"))
            self.features.add("static-init")
        elif kind == "risk_kindvar" and self.scalars:
            nm = f"rk{k}"
            self.decl.append(f"integer, parameter{vis} :: {nm} = kind({r.choice(self.scalars)[0]})")
            self.features.add("RISK-param-reads-variable")
        elif kind == "risk_charlen":
            nm = f"cs{k}"
            self.decl.append(f"character(len=*), parameter{vis} :: {nm} = 'abc'")
            self.decl.append(f"integer, parameter{vis} :: ln{k} = len({nm})")
            self.features.add("RISK-unsupported-constant")
        elif kind == "risk_iface" and self.kparams and any(x.startswith("kp") for x in self.kparams):
            nm = f"xg{k}"
            kp = r.choice([x for x in self.kparams if x.startswith("kp")])
            self.decl.append(f"interface\n  subroutine {nm}(x)\n    import :: {kp}\n    real(kind={kp}) :: x\n"
                             f"  end subroutine {nm}\nend interface")
            self.features.add("RISK-interface-import")

    def body(self, indent="    "):
        r = self.r
        out = []
        reals = [n for n, t in self.scalars if t.startswith("real")]
        ints = [n for n, t in self.scalars if t == "integer"]
        for _ in range(r.randint(1, 6)):
            c = r.random()
            if c < 0.15:
                out.append("! a comment " + str(r.randint(0, 99)))
                self.features.add("comment")
            elif c < 0.3 and self.arrays:
                a, b = r.choice(self.arrays)
                out.append(f"{a}(:) = {r.randint(0, 5)}.0")
                self.features.add("array-assign")
            elif c < 0.5 and self.arrays and ints:
                a, b = r.choice(self.arrays)
                iv = r.choice(ints)
                out.append(f"do {iv} = 1, {b}\n  {a}({iv}) = {a}({iv}) + 1.0\nend do")
                self.features.add("loop")
            elif c < 0.6 and reals:
                out.append(f"write(*,*) {r.choice(reals)}")
                self.features.add("codeblock")
            elif c < 0.7 and self.ifaces and reals:
                out.append(f"call {r.choice(self.ifaces)}({r.choice(reals)})")
            elif c < 0.8 and self.tvars:
                out.append(f"{r.choice(self.tvars)}%i = {r.randint(1, 5)}")
            elif reals:
                out.append(f"{r.choice(reals)} = {r.randint(1, 9)}.0")
            elif ints:
                out.append(f"{r.choice(ints)} = {r.randint(1, 9)}")
        if self.named_args:
            out += self.named_arg_statements()
        txt = "\n".join(out)
        return "\n".join(indent + ln for ln in txt.split("\n"))

    def named_arg_statements(self):
        """executable statements whose named / optional arguments a reader or writer could permute"""
        r = self.r
        self.decl += ["real, allocatable :: al1(:), al2(:,:)", "logical, allocatable :: lm(:)",
                      "integer :: ierr", "character(len=80) :: emsg"]
        self.features.add("named-arg-statements")

        def opts(*o):
            o = list(o)
            r.shuffle(o)
            return ", ".join(o)
        pool = [
            "allocate(al1(4), al2(4,4), " + opts("stat=ierr") + ")",
            "allocate(lm(4), " + opts("stat=ierr", "errmsg=emsg") + ")",
            "allocate(al2, " + opts("mold=al2", "stat=ierr") + ")",
            "allocate(al1, " + opts("source=al1", "stat=ierr", "errmsg=emsg") + ")",
            "q = sum(al1, " + opts("dim=1", "mask=lm") + ")",
            "q = q + sum(" + opts("array=al1", "mask=lm") + ")",
            "q = q + maxval(al2, mask=al2 > 0.0)",
            "q = q + minval(al1, dim=1)",
            "q = q + real(size(al2, dim=2))",
            "deallocate(al1, al2, " + opts("stat=ierr", "errmsg=emsg") + ")",
            "deallocate(lm, " + opts("stat=ierr", "errmsg=emsg") + ")",
            "deallocate(al1, stat=ierr)",
        ]
        if self.ifaces:
            pool.append(f"call {r.choice(self.ifaces)}(x=q)")
        n = r.randint(3, 7)
        picked = sorted(r.sample(range(len(pool)), min(n, len(pool))))
        return [pool[i] for i in picked]

    def source(self):
        r = self.r
        ind = lambda s, p: "\n".join(p + ln for ln in s.split("\n"))
        if self.module:
            acc = []
            if r.random() < 0.4:
                acc.append("private")
                pubs = [d for d in ["sub1"] if r.random() < 0.7]
                if self.wild and r.random() < 0.7:
                    pubs += r.sample(["zeta", "alpha", "beta"], r.randint(1, 3))
                    self.features.add("access-wildcard-names")
                if self.uses and self.uses[0].startswith("use ext_mod") and r.random() < 0.6:
                    only = [x.strip() for x in self.uses[0].split(":")[1].split(",")]
                    pubs += r.sample(only, min(len(only), r.randint(1, 3)))
                    self.features.add("access-imported-names")
                if pubs:
                    acc.append("public :: " + ", ".join(pubs))
            body = self.body()
            return ("module gm\n" + "".join("  " + u + "\n" for u in self.uses) + "  implicit none\n"
                    + "".join("  " + a + "\n" for a in acc)
                    + "".join(ind(d, "  ") + "\n" for d in self.decl)
                    + "contains\n  subroutine sub1(q)\n    real, intent(inout) :: q\n" + body
                    + "\n    q = q + 1.0\n  end subroutine sub1\nend module gm\n")
        # subroutine with arguments (array argument bounds given by a later argument)
        args, adecl = ["q"], ["real, intent(inout) :: q"]
        if r.random() < 0.6:
            args = ["arr", "n"] + args if r.random() < 0.5 else ["n", "arr"] + args
            adecl += ["integer, intent(in) :: n", "real, intent(inout) :: arr(n)"]
            self.arrays.append(("arr", "n"))
            self.features.add("array-arg")
            if r.random() < 0.5:
                self.decl.append("real :: work(n)")
                self.features.add("automatic-array")
        self.args = args
        body = self.body("  ")
        return ("subroutine sub1(" + ", ".join(args) + ")\n" + "".join("  " + u + "\n" for u in self.uses)
                + "  implicit none\n" + "".join("  " + a + "\n" for a in adecl)
                + "".join(ind(d, "  ") + "\n" for d in self.decl) + body + "\n  q = q + 1.0\nend subroutine sub1\n")


TRANS = ["chunk", "tile", "hoist", "arr2loop", "rename"]


def rename_constant(psyir, rng, name=None):
    """`rename_symbol` of a local constant (preferably one used as a kind): an accepted symbol-table edit
    that moves the symbol to the end of its table.  Symbols named in unsupported declaration text are
    left alone (that text is not updated by a rename)."""
    from psyclone.psyir.nodes import ScopingNode
    from psyclone.psyir.symbols import DataSymbol, SymbolError, UnsupportedFortranType
    cands = []
    for sc in psyir.walk(ScopingNode):
        tab = sc.symbol_table
        texts = " ".join(s.datatype.declaration.lower() for s in tab.symbols
                         if isinstance(getattr(s, "datatype", None), UnsupportedFortranType))
        for s in tab.symbols:
            if isinstance(s, DataSymbol) and s.is_constant and not s.is_import and not s.is_unresolved:
                if name is not None and s.name.lower() != name:
                    continue
                if re.search(r"\b" + re.escape(s.name.lower()) + r"\b", texts):
                    continue
                used_as_kind = any(getattr(getattr(o, "datatype", None), "precision", None) is s for o in tab.symbols)
                cands.append((tab, s, used_as_kind))
    if not cands:
        return None
    kinds = [c for c in cands if c[2]]
    tab, s, _ = rng.choice(kinds if kinds and rng.random() < 0.8 else cands)
    old = s.name
    try:
        tab.rename_symbol(s, tab.next_available_name(old + "_r"))
    except (SymbolError, KeyError):
        return None
    return old


def apply_history(psyir, rng, nmax=3):
    """Apply up to nmax accepted symbol-adding transformations; returns the list of names applied."""
    from psyclone.psyir.nodes import Loop, Assignment, Routine
    from psyclone.psyir.transformations import (ChunkLoopTrans, HoistLoopBoundExprTrans,
                                                ArrayAssignment2LoopsTrans, TransformationError)
    done = []
    for _ in range(nmax):
        t = rng.choice(TRANS)
        try:
            if t == "rename":
                nm = rename_constant(psyir, rng)
                if nm:
                    done.append("rename:" + nm)
                continue
            if t == "arr2loop":
                cands = [a for a in psyir.walk(Assignment) if a.is_array_assignment]
                if not cands:
                    continue
                ArrayAssignment2LoopsTrans().apply(rng.choice(cands))
            else:
                loops = psyir.walk(Loop)
                if not loops:
                    continue
                lp = rng.choice(loops)
                if t == "chunk":
                    ChunkLoopTrans().apply(lp, {"chunksize": rng.choice([2, 4, 8])})
                elif t == "hoist":
                    HoistLoopBoundExprTrans().apply(lp)
                else:
                    from psyclone.psyir.transformations import LoopTiling2DTrans
                    LoopTiling2DTrans().apply(lp, {"tilesize": 4})
            done.append(t)
        except TransformationError:
            continue
    return done
