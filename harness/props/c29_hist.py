"""C29 helper: HISTORIES of complete PSyclone runs through the real entry point
`psyclone.generator.generate(filename, api=, script_name=, kernel_paths=, kern_out_path=, kern_naming=)`,
2-5 calls one after the other in ONE process (Config is a process-wide singleton: whatever a call leaves
behind in it - naming scheme, output directory, API - is seen by the next call).

A call = {"base": 1|2, "script": 1|2|3, "naming": "single"|"multiple"|"default", "dir": "A"|"B"|"cwd"}:
base 1 = LFRic testkern (1_single_invoke.f90), base 2 = GOcean compute_cu (single_invoke.f90);
script 1 = ACCRoutineTrans, 2 = Dynamo0p3KernelConstTrans(number_of_layers=20) / a marker declaration added by the script,
3 = both; naming "default" = the kern_naming argument is omitted; dir "cwd" = kern_out_path omitted
(PSyclone then uses the current working directory, which the harness points at a scratch directory).
After EVERY call the clauses of C29 are evaluated on the real directories and the generated PSy layer; the
outcome and the directories are compared with the Lean model run sequentially with the REQUESTED scheme."""
import contextlib
import io
import os
import re
import shutil
import sys
import tempfile

import common

BASES = {1: ("lfric", "dynamo0p3", "1_single_invoke.f90", "testkern"),
         2: ("gocean", "gocean1p0", "single_invoke.f90", "compute_cu")}

SCRIPT_TEXT = {
    (1, 1): ("from psyclone.transformations import ACCRoutineTrans\n"
             "def trans(psy):\n"
             "    for invoke in psy.invokes.invoke_list:\n"
             "        for kern in invoke.schedule.coded_kernels():\n"
             "            ACCRoutineTrans().apply(kern)\n"
             "    return psy\n"),
    (1, 2): ("from psyclone.transformations import Dynamo0p3KernelConstTrans\n"
             "def trans(psy):\n"
             "    for invoke in psy.invokes.invoke_list:\n"
             "        for kern in invoke.schedule.coded_kernels():\n"
             "            Dynamo0p3KernelConstTrans().apply(kern, {'number_of_layers': 20})\n"
             "    return psy\n"),
    (1, 3): ("from psyclone.transformations import ACCRoutineTrans, Dynamo0p3KernelConstTrans\n"
             "def trans(psy):\n"
             "    for invoke in psy.invokes.invoke_list:\n"
             "        for kern in invoke.schedule.coded_kernels():\n"
             "            Dynamo0p3KernelConstTrans().apply(kern, {'number_of_layers': 20})\n"
             "            ACCRoutineTrans().apply(kern)\n"
             "    return psy\n"),
    (2, 1): ("from psyclone.transformations import ACCRoutineTrans\n"
             "def trans(psy):\n"
             "    for invoke in psy.invokes.invoke_list:\n"
             "        for kern in invoke.schedule.coded_kernels():\n"
             "            ACCRoutineTrans().apply(kern)\n"
             "    return psy\n"),
    # a trivial user transformation: a marker declaration in the kernel, flagged as modified
    (2, 2): ("from psyclone.psyir.symbols import DataSymbol, INTEGER_TYPE\n"
             "def trans(psy):\n"
             "    for invoke in psy.invokes.invoke_list:\n"
             "        for kern in invoke.schedule.coded_kernels():\n"
             "            table = kern.get_kernel_schedule().symbol_table\n"
             "            table.new_symbol('c29_hist_marker', symbol_type=DataSymbol, datatype=INTEGER_TYPE)\n"
             "            kern.modified = True\n"
             "    return psy\n"),
    (2, 3): ("from psyclone.psyir.symbols import DataSymbol, INTEGER_TYPE\n"
             "from psyclone.transformations import ACCRoutineTrans\n"
             "def trans(psy):\n"
             "    for invoke in psy.invokes.invoke_list:\n"
             "        for kern in invoke.schedule.coded_kernels():\n"
             "            table = kern.get_kernel_schedule().symbol_table\n"
             "            table.new_symbol('c29_hist_marker', symbol_type=DataSymbol, datatype=INTEGER_TYPE)\n"
             "            ACCRoutineTrans().apply(kern)\n"
             "    return psy\n"),
}


def script_ok(base, script):
    return (base, script) in SCRIPT_TEXT


def body_of(text):
    """Kernel version visible in a kernel file: 1 = acc routine, 2 = constant nlayers / marker declaration,
    3 = both, 0 = none of them (not a transformed kernel of these histories)."""
    low = text.lower()
    acc = "!$acc routine" in low
    other = bool(re.search(r"parameter\s*::\s*nlayers\s*=\s*20", low)) or "c29_hist_marker" in low
    return (1 if acc else 0) + (2 if other else 0)


def canon(text):
    if text == "":
        return "E"
    m = re.search(r"^\s*module\s+(\w+)", text, re.I | re.M)
    subs = re.findall(r"^\s*subroutine\s+(\w+)", text, re.I | re.M)
    if not m:
        return ["junk"]
    return [body_of(text), m.group(1).lower(), [s.lower() for s in subs]]


def snapshot(dirs):
    out = {}
    for lab, path in dirs.items():
        files = {}
        for name in sorted(os.listdir(path)):
            if name.endswith(".py") or name == "__pycache__":
                continue
            with open(os.path.join(path, name)) as fh:
                files[name] = fh.read()
        out[lab] = files
    return out


def run_history(calls):
    """Executes the calls; returns one observation per call."""
    from psyclone.configuration import Config
    from psyclone.errors import GenerationError
    from psyclone.generator import generate
    tests = os.path.join(common.REPO, "src", "psyclone", "tests", "test_files")
    root = tempfile.mkdtemp(prefix="c29-hist-")
    old_cwd = os.getcwd()
    old_path = list(sys.path)
    cfg = Config.get()
    saved = (cfg._kernel_output_dir, cfg._kernel_naming, cfg._api)
    obs = []
    try:
        dirs = {}
        for lab in ("A", "B", "cwd"):
            dirs[lab] = os.path.join(root, lab)
            os.mkdir(dirs[lab])
        sdir = os.path.join(root, "scripts")
        os.mkdir(sdir)
        os.chdir(dirs["cwd"])
        for k, call in enumerate(calls):
            api, sub, alg, _ = BASES[call["base"]]
            spath = os.path.join(sdir, f"c29_script_{call['base']}_{call['script']}.py")
            if not os.path.exists(spath):
                with open(spath, "w") as fh:
                    fh.write(SCRIPT_TEXT[(call["base"], call["script"])])
            kwargs = {"api": api, "script_name": spath, "kernel_paths": [os.path.join(tests, sub)]}
            if call["naming"] != "default":
                kwargs["kern_naming"] = call["naming"]
            if call["dir"] != "cwd":
                kwargs["kern_out_path"] = dirs[call["dir"]]
            before = snapshot(dirs)
            err, psy = None, None
            try:
                with contextlib.redirect_stdout(io.StringIO()):
                    _, psy = generate(os.path.join(tests, sub, alg), **kwargs)
                psy = str(psy).lower()
            except GenerationError as e:
                err = ["GenerationError", str(e.value)[:100]]
            except Exception as e:       # noqa: BLE001 - any other exception is an outcome to be judged
                err = [type(e).__name__, str(e)[:200]]
            after = snapshot(dirs)
            uses = sorted(set(re.findall(r"use\s+(\w+)\s*,\s*only\s*:\s*(\w+_code)\b", psy))) if psy else None
            obs.append({
                "error": err,
                "use": [list(u) for u in uses] if uses is not None else None,
                "new": {lab: sorted(set(after[lab]) - set(before[lab])) for lab in dirs},
                "changed": {lab: sorted(n for n in before[lab] if after[lab].get(n) != before[lab][n])
                            for lab in dirs},
                "before": {lab: {n: canon(t) for n, t in before[lab].items()} for lab in dirs},
                "after": {lab: {n: canon(t) for n, t in after[lab].items()} for lab in dirs},
            })
    finally:
        os.chdir(old_cwd)
        sys.path[:] = old_path
        cfg._kernel_output_dir, cfg._kernel_naming, cfg._api = saved
        shutil.rmtree(root, ignore_errors=True)
    return obs


def history_failures(calls, obs):
    """Clauses of C29 violated by the REAL behaviour, evaluated after every call (no model involved)."""
    fails = []
    for k, (call, o) in enumerate(zip(calls, obs)):
        name = BASES[call["base"]][3]
        want_dir = call["dir"]
        scheme = "multiple" if call["naming"] == "default" else call["naming"]

        def bad(clause, detail):
            fails.append({"clause": clause, "call": k, "detail": detail})
        for lab in o["changed"]:
            if o["changed"][lab]:
                bad("existing-file-modified", [lab, o["changed"][lab]])
            if lab != want_dir and o["new"][lab]:
                bad("file-written-to-another-runs-directory", [lab, o["new"][lab], "requested", want_dir])
        new = o["new"][want_dir]
        f0 = f"{name}_0_mod.f90"
        existing = o["before"][want_dir].get(f0)
        mine0 = [call["script"], f"{name}_0_mod", f"{name}_0_code"]

        def is_mine0(c):
            return (isinstance(c, list) and len(c) == 3 and c[0] == mine0[0] and c[1] == mine0[1]
                    and mine0[2] in c[2])
        must_create = scheme == "multiple" or existing is None
        if must_create:
            if o["error"] is not None:
                bad("run-that-must-write-a-fresh-file-raised", [scheme, o["error"]])
                continue
            if len(new) != 1:
                bad("not-exactly-one-fresh-file", [scheme, new, sorted(o["after"][want_dir])])
                continue
            m = re.fullmatch(re.escape(name) + r"_(\d+)_mod\.f90", new[0])
            if not m or (scheme == "single" and m.group(1) != "0"):
                bad("unexpected-file-name", [scheme, new[0]])
                continue
            i = m.group(1)
            c = o["after"][want_dir][new[0]]
            if not (isinstance(c, list) and len(c) == 3 and c[1] == f"{name}_{i}_mod" and f"{name}_{i}_code" in c[2]):
                bad("names-do-not-match-file-name", [new[0], c])
            elif c[0] != call["script"]:
                bad("file-holds-another-kernel", [new[0], c[0], call["script"]])
            if o["use"] != [[f"{name}_{i}_mod", f"{name}_{i}_code"]]:
                bad("psy-layer-does-not-use-the-file-it-wrote", [new[0], o["use"]])
        elif is_mine0(existing):
            # 'single', identical kernel present: share it
            if o["error"] is not None:
                bad("single-identical-kernel-rejected", [o["error"]])
                continue
            if new:
                bad("single-run-created-a-file-instead-of-sharing", new)
            if o["use"] != [[f"{name}_0_mod", f"{name}_0_code"]]:
                bad("psy-layer-does-not-use-the-shared-file", o["use"])
        else:
            # 'single', a different version present: must fail, directory untouched
            if o["error"] is None:
                bad("single-run-uses-other-version", [existing, "wanted", mine0, "use", o["use"]])
            elif o["error"][0] != "GenerationError":
                bad("unexpected-exception", o["error"])
            if new:
                bad("failed-single-run-created-a-file", new)
    return fails


# ------------------------------------------------------------------------------------------------
# model side: the same history, sequentially, with the REQUESTED scheme per call
# ------------------------------------------------------------------------------------------------
def model_lines(calls):
    """One exec line per (prefix length k, directory): the calls among the first k that target the directory,
    each run to completion before the next starts."""
    lines, index = [], []
    for k in range(1, len(calls) + 1):
        for lab in ("A", "B", "cwd"):
            sel = [j for j in range(k) if calls[j]["dir"] == lab]
            if not sel:
                continue
            runs = [[1 if calls[j]["naming"] == "single" else 0, calls[j]["base"], calls[j]["script"]] for j in sel]
            fuel = len(sel) + 8
            sched = [r for r in range(len(sel)) for _ in range(fuel)]
            lines.append(common.sx(["exec", runs, [], sched]))
            index.append((k, lab, sel))
    return lines, index


def model_view(line):
    top = common.parse_sx(line)
    sect = {s[0]: s[1:] for s in top}
    runs = [[x[2], x[1]] if x[0] == "done" else [x[0]] for x in sect["runs"]]     # [result, idx]
    files = {}
    for b, i, content, _owner, _writers in sect["files"]:
        files[f"{BASES[b][3]}_{i}_mod.f90"] = content if content == "E" else [content[0], content[1], content[2]]
    return runs, files


def real_view(calls, obs, k, lab, sel):
    """What the model predicts, read off the real observations after call k-1 for directory `lab`."""
    runs = []
    for j in sel:
        o = obs[j]
        if o["error"] is not None:
            runs.append(["failed" if o["error"][0] == "GenerationError" else o["error"][0], 0])
        elif o["new"][lab]:
            m = re.search(r"_(\d+)_mod\.f90$", o["new"][lab][0])
            runs.append(["wrote", int(m.group(1)) if m else -1])
        else:
            runs.append(["reused", 0])
    files = {}
    for fname, c in obs[k - 1]["after"][lab].items():
        if c == "E" or c == ["junk"]:
            files[fname] = c
            continue
        body, mod, subs = c
        m = re.fullmatch(r"(\w+?)_(\d+)_mod", mod)
        base = next((b for b, v in BASES.items() if m and v[3] == m.group(1)), None)
        if base is None or f"{m.group(1)}_{m.group(2)}_code" not in subs:
            files[fname] = ["inconsistent-names", mod, subs]
        else:
            files[fname] = [body, base, int(m.group(2))]
    return runs, files


# ------------------------------------------------------------------------------------------------
# generation of histories
# ------------------------------------------------------------------------------------------------
def call_(base, script, naming, d="A"):
    return {"base": base, "script": script, "naming": naming, "dir": d}


FIXED = [
    # a 'single' run first, then 'multiple'/default runs with the identical and with a different kernel,
    # then 'single' runs that must share / must fail
    ("single-then-multiple", [call_(1, 1, "single"), call_(1, 1, "multiple"), call_(1, 2, "default"),
                              call_(1, 1, "single"), call_(1, 2, "single")]),
    # two APIs and two output directories (one of them the default = cwd) alternating
    ("apis-and-directories", [call_(2, 1, "single", "B"), call_(1, 1, "default", "cwd"), call_(2, 1, "multiple", "B"),
                              call_(1, 1, "multiple", "A"), call_(2, 2, "single", "cwd")]),
]


def random_history(rng):
    n = rng.randint(2, 5)
    bases = rng.choice([[1], [1], [1, 2], [2]])
    dirs = rng.choice([["A"], ["A"], ["A", "B"], ["A", "cwd"], ["cwd", "B"]])
    calls = []
    for _ in range(n):
        b = rng.choice(bases)
        s = rng.choice([s for s in (1, 2, 3) if script_ok(b, s)])
        calls.append(call_(b, s, rng.choice(["single", "multiple", "default"]), rng.choice(dirs)))
    return ("random", calls)


def scheme_orders(length):
    """All orders of schemes of the given length on one kernel module and one directory (thorough tier)."""
    import itertools
    out = []
    for combo in itertools.product(["single", "multiple", "default"], repeat=length):
        out.append(("orders-%d" % length, [call_(1, 1 + (j % 2), nm) for j, nm in enumerate(combo)]))
    return out
