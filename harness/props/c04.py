"""C04 — Generated code declares every entity it uses, in a valid order.

Tie: (a) symbol tables built through the API (constants with random dependency graphs incl. cycles,
reverse order, kind and array-bound dependencies) and (b) symbol tables of generated modules /
subroutines before and after histories of symbol-adding transformations are exported to the Lean model
(`Decls.genDecls`) and the declaration order parsed back from the real writer's text is compared with
the model's; (c) routines with nested scopes and clashing names are written and the merged table is
compared with `Decls.mergeScopes`.  Property on the real code: `gfortran -fimplicit-none
-fsyntax-only` on the written text, declaration-before-use on the parsed order, distinct names /
identity / no host-name hiding after merging."""
import glob
import json
import os
import random

import common
import minif
from common import driver, sx, parse_sx
from props import c04_real as R
from props import c04_merge

CORPUS = os.path.join(common.ROOT, "corpus", "C04")

FINDING_CLAUSES = {
    "C04-param-reads-variable": lambda s, t: s == "param" and t in ("other", "dtype", "arg"),
    "C04-interface-reads-later": lambda s, t: s == "iface" and t in ("param", "arg", "dtype", "other"),
    "C04-arg-of-local-type": lambda s, t: s == "arg" and t in ("dtype", "other"),
    "C04-untracked-param-dep": lambda s, t: s == "param" and t == "param",
}
GROUP = {"iface": 1, "param": 2, "arg": 3, "dtype": 4, "other": 5}


def tag(cls):
    return cls if isinstance(cls, str) else "imp"


def monotone_breaks(rows):
    """pairs (symbol, dependency, finding id) violating Decls.GroupMonotone"""
    out = []
    pos = {r[0]: i for i, r in enumerate(rows)}
    cls = {r[0]: tag(r[1]) for r in rows}
    for (n, c, _rt, _pub, ideps, xdeps) in rows:
        c = tag(c)
        if c not in GROUP:
            continue
        for d in ideps + xdeps:
            if d not in cls or cls[d] not in GROUP:
                continue
            t = cls[d]
            ok = GROUP[t] < GROUP[c] or (t == c and ((c == "param" and d in ideps) or
                                                      (c != "param" and pos[d] < pos[n])))
            if not ok:
                fid = next((f for f, p in FINDING_CLAUSES.items() if p(c, t)), None)
                out.append((n, d, fid))
    return out


def order_ok(order, rows):
    """declaration-before-use on a written order"""
    idx = {n: i for i, n in enumerate(order)}
    for (n, _c, _rt, _pub, ideps, xdeps) in rows:
        if n in idx:
            for d in ideps + xdeps:
                if d in idx and not idx[d] < idx[n]:
                    return f"'{n}' is declared before '{d}' which its declaration reads"
    return None


def model_decls(units):
    outs = driver("C04", [sx(["decls", u]) for u in units])
    return [parse_sx(o) for o in outs]


# ---------------------------------------------------------------- (a) API-built constant tables
def api_table(rng):
    from psyclone.psyir.symbols import SymbolTable, DataSymbol, INTEGER_TYPE, ScalarType, ArrayType
    from psyclone.psyir.nodes import Reference, Literal, BinaryOperation, IntrinsicCall
    n = rng.randint(2, 6)
    names = [f"p{i}" for i in range(n)]
    rng.shuffle(names)
    mode = rng.choice(["dag-forward", "dag-reverse", "random", "random"])
    table = SymbolTable()
    syms = {}
    spec = []
    scal = {x for x in names if rng.random() < 0.6}     # never arrays: may be used as array bounds
    for i, nm in enumerate(names):
        if mode == "dag-forward":
            cand = names[:i]
        elif mode == "dag-reverse":
            cand = names[i + 1:]
        else:
            cand = [x for x in names if x != nm]
        deps = [d for d in cand if rng.random() < 0.35]
        bc = [x for x in cand if x in scal]
        kind = rng.choice(bc) if bc and rng.random() < 0.3 else None
        bound = rng.choice(bc) if bc and nm not in scal and rng.random() < 0.3 else None
        spec.append((nm, deps, kind, bound))
        syms[nm] = DataSymbol(nm, INTEGER_TYPE, is_constant=True, initial_value=Literal("1", INTEGER_TYPE))
    for nm, deps, kind, bound in spec:
        s = syms[nm]
        dt = ScalarType(ScalarType.Intrinsic.INTEGER, syms[kind]) if kind else INTEGER_TYPE
        if bound:
            dt = ArrayType(dt, [Reference(syms[bound])])
        s.datatype = dt
        # initial value with or without Literal nodes (bare references / intrinsic call on a reference)
        nolit = bool(deps) and rng.random() < 0.5
        expr = None if nolit else Literal("1", INTEGER_TYPE)
        for d in deps:
            ref = Reference(syms[d])
            if nolit and rng.random() < 0.3:
                ref = IntrinsicCall.create(IntrinsicCall.Intrinsic.ABS, [ref])
            expr = ref if expr is None else BinaryOperation.create(BinaryOperation.Operator.ADD, expr, ref)
        s.initial_value = expr
        table.add(s)
    if rng.random() < 0.4:
        table.add(DataSymbol("v0", INTEGER_TYPE))
    return table, {"mode": mode, "spec": spec}


def real_gen_decls(table, is_module=False):
    from psyclone.psyir.backend.fortran import FortranWriter
    from psyclone.psyir.backend.visitor import VisitorError
    try:
        text = FortranWriter().gen_decls(table, is_module)
    except VisitorError as e:
        return None, str(e)
    return R.declared_order(text.split("\n"))[0], text


def check_api(chk, n):
    stats = {"raise": 0, "ok": 0}
    batch = []
    for _ in range(n):
        cs = chk.rng.randrange(2 ** 31)
        table, info = api_table(random.Random(cs))
        info["case_seed"] = cs
        unit, ids, rows = R.export_table(table, False)
        order, text = real_gen_decls(table)
        batch.append((unit, ids, rows, order, text, info))
    models = model_decls([b[0] for b in batch])
    for (unit, ids, rows, order, text, info), m in zip(batch, models):
        inv = {v: k for k, v in ids.items()}
        mo = None if m[0] == "err" else [inv[i] for i in m[1:]]
        agreed = (mo == order)
        stats["raise" if order is None else "ok"] += 1
        case = {"kind": "api-constants", "info": info, "real_order": order, "model_order": mo}
        chk.case(case, nontrivial=any(r[4] or r[5] for r in rows), agreed=agreed)
        if order is not None:
            why = order_ok(order, rows)
            if why:
                breaks = monotone_breaks(rows)
                known = agreed and breaks and all(b[2] for b in breaks)
                if not known:
                    chk.violation(dict(case, observed=text, expected=why, failing="declaration order"))
                    return stats
                chk.cov.setdefault("known_class_hits", {})
                for b in breaks:
                    chk.cov["known_class_hits"][b[2]] = chk.cov["known_class_hits"].get(b[2], 0) + 1
        if not agreed:
            chk.correspondence_broken("gen_decls order differs from Decls.genDecls", case, mo, order)
    return stats


# ---------------------------------------------------------------- (c) scope merging
POOL = ["a", "b", "a_1", "b_1", "a_1_1", "c"]


def merge_case(rng):
    """-> (routine node, spec) ; spec = (outer names, [tables]) with tables = [(marker, name, kind)]"""
    from psyclone.psyir.nodes import Routine, Container, IfBlock, Literal, Assignment, Reference
    from psyclone.psyir.symbols import DataSymbol, INTEGER_TYPE, BOOLEAN_TYPE, ArrayType, ArgumentInterface
    cont = Container("cm")
    outer = [x for x in POOL if rng.random() < 0.25]
    for o in outer:
        cont.symbol_table.add(DataSymbol(o + "", INTEGER_TYPE))
    rout = Routine("rsub")
    cont.addchild(rout)
    marker = [0]
    tables = []

    def fill(table, allow_args):
        rows = []
        args = []
        for nm in rng.sample(POOL, rng.randint(0, 4)):
            marker[0] += 1
            s = DataSymbol(nm, ArrayType(INTEGER_TYPE, [marker[0]]))
            kind = "free"
            if allow_args and rng.random() < 0.3:
                s.interface = ArgumentInterface(ArgumentInterface.Access.READWRITE)
                args.append(s)
                kind = "fixed"
            table.add(s)
            rows.append((marker[0], nm, kind))
        if args:
            table.specify_argument_list(args)
        return rows
    tables.append(fill(rout.symbol_table, True))
    zz = DataSymbol("zz", INTEGER_TYPE)
    rout.symbol_table.add(zz)
    tables[0].append((0, "zz", "free"))

    def mk_if(depth):
        ib = IfBlock.create(Literal("true", BOOLEAN_TYPE),
                            [Assignment.create(Reference(zz), Literal("1", INTEGER_TYPE))])
        return ib

    def grow(parent_sched, depth):
        for _ in range(rng.randint(0, 2 if depth < 2 else 0)):
            ib = mk_if(depth)
            parent_sched.addchild(ib)
            tables.append(fill(ib.if_body.symbol_table, False))
            grow(ib.if_body, depth + 1)
    rout.addchild(Assignment.create(Reference(zz), Literal("0", INTEGER_TYPE)))
    grow(rout, 0)
    return rout, (outer + ["cm", "rsub"], tables)


def real_merge(rout):
    from psyclone.psyir.backend.fortran import FortranWriter
    got = []

    class W(FortranWriter):
        def gen_decls(self, symbol_table, is_module_scope=False):
            from psyclone.psyir.symbols import ArrayType
            for s in symbol_table.symbols:
                if isinstance(s.datatype, ArrayType):
                    got.append((int(s.datatype.shape[0].upper.value), s.name))
                elif s.name.startswith("zz"):
                    got.append((0, s.name))
            return super().gen_decls(symbol_table, is_module_scope)
    try:
        text = W()(rout)
    except Exception as e:  # SymbolError wrapped in VisitorError: unresolvable clash
        return None, f"{type(e).__name__}: {e}"
    return got, text


def codes(s):
    return [ord(c) for c in s]


def check_merge(chk, n):
    batch = []
    for _ in range(n):
        cs = chk.rng.randrange(2 ** 31)
        rout, (outer, tables) = merge_case(random.Random(cs))
        got, text = real_merge(rout)
        batch.append((outer, tables, got, text, cs))
    lines = [sx(["merge", [codes(o) for o in o_],
                 [[i, codes(nm), k] for i, nm, k in t[0]],
                 [[[i, codes(nm), k] for i, nm, k in tt] for tt in t[1:]]]) for o_, t, _g, _x, _c in batch]
    outs = driver("C04", lines)
    renamed_total = 0
    for (outer, tables, got, text, cs), mo in zip(batch, outs):
        m = parse_sx(mo)
        if m == "none":
            model = None
        else:
            model = [(e[0], "".join(chr(c) for c in e[1])) for e in m[1:]]
        agreed = (model == got)
        orig = {i: (nm, k) for t in tables for i, nm, k in t}
        renamed = [] if got is None else [(i, nm) for i, nm in got if orig[i][0] != nm]
        renamed_total += len(renamed)
        case = {"kind": "merge", "case_seed": cs, "outer": outer, "tables": tables, "real": got, "model": model}
        chk.case(case, nontrivial=bool(renamed), agreed=agreed)
        if got is not None:
            why = None
            names = [nm for _i, nm in got]
            if len(set(names)) != len(names):
                why = "two merged symbols are written under the same name"
            elif sorted(i for i, _ in got) != sorted(orig):
                why = "a symbol object was lost or duplicated by the merge"
            else:
                for i, nm in renamed:
                    if orig[i][1] != "free":
                        why = f"argument '{orig[i][0]}' was renamed to '{nm}'"
                    elif nm in outer:
                        why = f"'{orig[i][0]}' was renamed to '{nm}', hiding a host-scope name"
            if why:
                chk.violation(dict(case, observed=text, expected=why, failing="scope merge"))
                return renamed_total
        if not agreed:
            chk.correspondence_broken("merged routine scope differs from Decls.mergeScopes", case, model, got)
    return renamed_total


# ---------------------------------------------------------------- (b) generated programs
def directives(src):
    """`!@rename <name>` lines at the top of a corpus file: symbol-table edits applied after reading"""
    return [ln.split()[1].lower() for ln in src.split("\n") if ln.startswith("!@rename ")]


def run_program(src, hist_seed, with_hist):
    """-> dict(status, text, units=[(unit, ids, rows, is_module, real_order)], hist, compile)"""
    from psyclone.psyir.frontend.fortran import FortranReader
    res = {"src": src, "hist": [], "units": [], "hist_seed": hist_seed, "with_hist": with_hist}
    st, out = minif.gfortran_run(R.STUB + src, run=False)
    if st != "ok":
        res["status"] = "source-invalid"
        res["detail"] = out[:400]
        return res
    try:
        psyir = FortranReader().psyir_from_source(src)
    except Exception as e:
        res["status"] = "reader-refused"
        res["detail"] = f"{type(e).__name__}: {str(e)[:200]}"
        return res
    for nm in directives(src):
        if R.rename_constant(psyir, random.Random(0), name=nm):
            res["hist"].append("rename:" + nm)
    if with_hist:
        try:
            res["hist"] = res["hist"] + R.apply_history(psyir, random.Random(hist_seed))
        except Exception as e:
            res["status"] = "transformation-crashed"
            res["detail"] = f"{type(e).__name__}: {str(e)[:200]}"
            return res
    try:
        text, seen = R.write_capture(psyir)
    except Exception as e:
        res["status"] = "writer-refused"
        res["detail"] = f"{type(e).__name__}: {str(e)[:200]}"
        return res
    res["status"] = "written"
    res["text"] = text
    # split the text into program units in the order gen_decls was called
    lines = text.split("\n")
    heads, depth = [], 0
    for i, ln in enumerate(lines):
        low = ln.strip().lower()
        if low.startswith(("interface", "abstract interface")):
            depth += 1
        elif low.startswith("end interface"):
            depth -= 1
        elif depth == 0 and (low.startswith(("module ", "subroutine ", "program ")) or
                             (" function " in " " + low and not low.startswith(("end", "!")) and "::" not in low)):
            heads.append(i)
    for (unit, ids, rows, ism), h in zip(seen, heads):
        spec = R.spec_lines("\n".join(lines[h:]), ism)
        order = R.declared_order(spec)[0]
        res["units"].append((unit, ids, rows, ism, order))
    res["nheads"] = len(heads)
    res["nseen"] = len(seen)
    st, out = minif.gfortran_run(R.STUB + text, run=False)
    res["compile"] = (st, out[:1500])
    return res


def judge_program(chk, res, models, label):
    """compare with the model and evaluate the property; returns True if a violation was reported"""
    hits = chk.cov.setdefault("known_class_hits", {})
    all_agreed = True
    breaks = []
    for (unit, ids, rows, ism, order), m in zip(res["units"], models):
        inv = {v: k for k, v in ids.items()}
        mo = None if m[0] == "err" else [inv[i] for i in m[1:]]
        agreed = (mo == order)
        all_agreed &= agreed
        chk.case({"kind": label, "unit": unit, "real_order": order}, nontrivial=len(order) >= 3, agreed=agreed)
        if not agreed:
            chk.correspondence_broken("declaration order of the written text differs from Decls.genDecls",
                                      {"src": res["src"], "hist": res["hist"], "text": res["text"]}, mo, order)
        why = order_ok(order, rows)
        b = monotone_breaks(rows)
        breaks += b
        if why and not (agreed and b and all(x[2] for x in b)):
            chk.violation({"src": res["src"], "hist": res["hist"], "hist_seed": res["hist_seed"],
                           "with_hist": res["with_hist"], "observed": res["text"], "expected": why,
                           "failing": "declaration order", "kind": label})
            return True
    st, out = res["compile"]
    if st != "ok":
        if all_agreed and breaks and all(x[2] for x in breaks):
            for x in breaks:
                hits[x[2]] = hits.get(x[2], 0) + 1
            return False
        chk.violation({"src": res["src"], "hist": res["hist"], "hist_seed": res["hist_seed"],
                       "with_hist": res["with_hist"], "observed": res["text"],
                       "expected": "written code compiles with gfortran -fimplicit-none -fsyntax-only",
                       "gfortran": out, "failing": "compile", "kind": label})
        return True
    return False


def check_programs(chk, n):
    dist = {}
    feats = {}
    sources = []
    for f in sorted(glob.glob(os.path.join(CORPUS, "*.f90"))):
        sources.append((open(f).read(), 0, False, "corpus:" + os.path.basename(f)))
    for i in range(n):
        g = R.Gen(chk.rng, risky=(i % 5 == 4)).build()
        src = g.source()
        for ft in g.features:
            feats[ft] = feats.get(ft, 0) + 1
        sources.append((src, chk.rng.randint(0, 10 ** 6), i % 2 == 1, "generated"))
    results = []
    for src, hs, wh, label in sources:
        res = run_program(src, hs, wh)
        dist[res["status"]] = dist.get(res["status"], 0) + 1
        for t in res["hist"]:
            dist["trans:" + t] = dist.get("trans:" + t, 0) + 1
        if res["status"] == "written":
            if res["nheads"] != res["nseen"]:
                raise common.Infra(f"could not split written text into {res['nseen']} units")
            results.append((res, label))
    units = [u[0] for res, _ in results for u in res["units"]]
    models = model_decls(units)
    k = 0
    for res, label in results:
        m = models[k:k + len(res["units"])]
        k += len(res["units"])
        if judge_program(chk, res, m, label):
            break
    chk.cov["program_distribution"] = dist
    chk.cov["generator_features"] = feats


# ---------------------------------------------------------------- known findings
def replay_finding(entry):
    """True iff the finding still reproduces on the real code"""
    w = entry["witness"]
    if "src" in w:
        res = run_program(w["src"], 0, False)
        if res["status"] != "written":
            return False
        bad = res["compile"][0] != "ok" or any(order_ok(u[4], u[2]) for u in res["units"])
        return bad
    if "api" in w:   # constants a(bound b), b with table order a, b
        from psyclone.psyir.symbols import SymbolTable, DataSymbol, INTEGER_TYPE, ArrayType
        from psyclone.psyir.nodes import Reference, Literal
        t = SymbolTable()
        b = DataSymbol("b", INTEGER_TYPE, is_constant=True, initial_value=Literal("3", INTEGER_TYPE))
        a = DataSymbol("a", ArrayType(INTEGER_TYPE, [Reference(b)]), is_constant=True,
                       initial_value=Literal("1", INTEGER_TYPE))
        t.add(a)
        t.add(b)
        order, _ = real_gen_decls(t)
        return order is not None and order.index("a") < order.index("b")
    return False


def run(chk):
    thorough = chk.tier == "thorough"
    chk.cov["rule"] = ("(a) API-built tables of 2..6 constants with forward / reverse / random (cyclic) dependency "
                       "graphs through initial values, kinds and array bounds; (b) generated modules and subroutines "
                       "(imports with only-lists and wildcards, kind / integer / real / array constants, locals, "
                       "automatic arrays, derived types, interfaces, unsupported declarations, SAVE, access "
                       "statements; every 5th with the risky constructs of the known-finding classes), half of them "
                       "after a history of <=3 accepted ChunkLoop/LoopTiling2D/HoistLoopBoundExpr/"
                       "ArrayAssignment2Loops transformations; (c) routines with <=3 levels of nested scopes whose "
                       "symbols are drawn from a pool of 6 clashing names, host-scope names from the same pool. "
                       "non-trivial = a table with at least one dependency / a unit with >=3 declarations / a merge "
                       "that renamed something; (d) merge/rename with CodeBlocks: generated caller/callee modules for InlineTrans (locals "
                       "printed by WRITE statements under mixed/upper-case spellings at routine level and inside IFs; "
                       "callee imports or declares the same names; call possibly inside an IF) judged by refusal / "
                       "CodeBlock-name resolution before vs after / compile-and-run of original vs transformed, and "
                       "routines with nested IF scopes + API-added inner-scope symbols merged in place by routine_node; "
                       "distinct by canonical JSON")
    chk.assumptions += ["the exporter's reading of which names a declaration uses (initial value, kind, array bounds, "
                        "type name, identifiers of unsupported declaration text) is trusted",
                        "gfortran 12 -fimplicit-none -fsyntax-only is the compile oracle",
                        "references in executable statements are outside the model (PSyIR references are by object)"]
    chk.lean()
    chk.cov["api_tables"] = check_api(chk, 1500 if thorough else 200)
    if not chk.violations:
        chk.cov["merge_renamed_symbols"] = check_merge(chk, 1500 if thorough else 200)
    if not chk.violations:
        chk.cov["merge_codeblock_families"] = c04_merge.check(chk, 250 if thorough else 24, 400 if thorough else 40)
    if not chk.violations:
        check_programs(chk, 400 if thorough else 40)
    for e in common.known_findings("C04"):
        if replay_finding(e):
            chk.known(e["what"])


def replay(payload):
    if payload.get("kind") == "merge-codeblock":
        return c04_merge.replay(payload)
    if "src" in payload:
        res = run_program(payload["src"], payload.get("hist_seed", 0), payload.get("with_hist", False))
        print("status:", res["status"], res.get("detail", ""), "history:", res["hist"])
        if res["status"] != "written":
            return 0
        print(res["text"])
        bad = None
        for u in res["units"]:
            bad = bad or order_ok(u[4], u[2])
        st, out = res["compile"]
        print("declaration order:", bad or "valid", "\ngfortran -fimplicit-none -fsyntax-only:", st, out)
        if not (bad or st != "ok"):
            return 0
        # a failure of a listed known-finding class (model reproduces the order, GroupMonotone broken
        # only through the listed pairs) is not the stored violation
        known = {e["id"] for e in common.known_findings("C04")}
        models = model_decls([u[0] for u in res["units"]])
        agreed, breaks = True, []
        for (unit, ids, rows, ism, order), m in zip(res["units"], models):
            inv = {v: k for k, v in ids.items()}
            agreed &= (None if m[0] == "err" else [inv[i] for i in m[1:]]) == order
            breaks += monotone_breaks(rows)
        if agreed and breaks and all(b[2] in known for b in breaks):
            print("this failure belongs to the known finding(s)", sorted({b[2] for b in breaks}))
            return 0
        return 1
    if payload.get("kind") == "merge":
        rout, (outer, tables) = merge_case(random.Random(payload["case_seed"]))
        got, text = real_merge(rout)
        print("tables:", tables, "host names:", outer, "\nmerged (marker, name):", got, "\n", text)
        if got is None:
            return 0
        orig = {i: (nm, k) for t in tables for i, nm, k in t}
        names = [nm for _i, nm in got]
        bad = (len(set(names)) != len(names) or sorted(i for i, _ in got) != sorted(orig)
               or any(orig[i][0] != nm and (orig[i][1] != "free" or nm in outer) for i, nm in got))
        print("property:", "violated" if bad else "holds")
        return 1 if bad else 0
    if payload.get("kind") == "api-constants":
        table, info = api_table(random.Random(payload["info"]["case_seed"]))
        unit, ids, rows = R.export_table(table, False)
        order, text = real_gen_decls(table)
        print("constants:", info["spec"], "\nwritten:\n", text)
        why = order_ok(order, rows) if order is not None else None
        print("property:", why or "holds")
        return 1 if why else 0
    print("stored case:", json.dumps(payload)[:2000])
    return 1
