"""C19: seeded generator of tangent-linear kernels (Fortran text) inside PSyAD's subset, the
values of their passive arguments, and a stream of kernels PSyAD must refuse."""

A_LO, A_HI = -4, 24          # rank-1 active / coefficient arrays
M_LO, M_HI = 0, 10           # rank-2 active array


class Kernel:
    def __init__(self, src, active, locals_, passive_vals, arrays1, arrays2, scalars, real_only, has_passive_stmt,
                 features):
        self.src, self.active, self.locals = src, active, locals_
        self.passive_vals = passive_vals          # name -> int | {index: int}
        self.arrays1, self.arrays2, self.scalars = arrays1, arrays2, scalars   # ACTIVE ARGUMENT objects
        self.real_only = real_only
        self.has_passive_stmt = has_passive_stmt
        self.features = features
        self.dims = None          # optional: active argument name -> [(lo, hi), ...] (default: the global window)
        self.sections = False     # kernel of the array-notation stream

    def payload(self):
        return {"src": self.src, "active": self.active, "locals": self.locals,
                "passive_vals": {k: (v if isinstance(v, int) else {str(i): x for i, x in v.items()})
                                 for k, v in self.passive_vals.items()},
                "arrays1": self.arrays1, "arrays2": self.arrays2, "scalars": self.scalars,
                "dims": self.dims, "sections": self.sections}

    @staticmethod
    def from_payload(p):
        pv = {k: (v if isinstance(v, int) else {int(i): x for i, x in v.items()}) for k, v in p["passive_vals"].items()}
        k = Kernel(p["src"], p["active"], p.get("locals", []), pv, p.get("arrays1", []), p.get("arrays2", []),
                   p.get("scalars", []), False, True, [])
        if p.get("dims"):
            k.dims = {n: [tuple(d) for d in ds] for n, ds in p["dims"].items()}
        k.sections = bool(p.get("sections"))
        return k


class KGen:
    def __init__(self, rng, real_only=False, allow_unsafe=True, passive_temps=True, cond_on_reals=True, shift=0, init_locals=False, rank2=True):
        self.r = rng
        self.rank2 = rank2          # False: no rank-2 active array (keeps the set of active locations small)
        self.guard = []             # lines placed before the first statement of the next kernel (passive early exits)
        # compiled tier: a TL kernel that reads a local before assigning it is not a defined Fortran program (gfortran
        # hands it stack garbage, the adjoint zeroes its locals): local active temporaries are zeroed at the top
        self.init_locals = init_locals
        self.shift = shift          # compiled tier: arrays declared (0:40), every subscript shifted by `shift`
        self.real_only = real_only
        self.allow_unsafe = allow_unsafe
        self.passive_temps = passive_temps and not real_only
        self.cond_on_reals = cond_on_reals
        self.features = set()

    # -- passive expressions ------------------------------------------------
    def coef(self, live):
        r = self.r
        x = r.random()
        if x < 0.3:
            return f"{r.randint(2, 4)}.0"
        if x < 0.55:
            return r.choice(["p", "q"])
        if x < 0.7 and live:
            return f"cf({self.index(live)})"
        if x < 0.8 and not self.real_only:
            self.features.add("int-coef")
            return r.choice(["n1", "k1"])
        if x < 0.9:
            self.features.add("sum-coef")
            return "(p + q)"
        if self.ptemps:
            self.features.add("ptemp-coef")
            return r.choice(self.ptemps)
        return "q"

    def _sh(self, e):
        """add the constant `shift` to a subscript, keeping the canonical form `base ± c` (SymPy's
        expand rewrites right-hand sides into that form; the model compares subscripts syntactically)"""
        if not self.shift:
            return e
        import re
        if re.fullmatch(r"\d+", e):
            return str(int(e) + self.shift)
        m = re.fullmatch(r"(.*?) ([+-]) (\d+)", e)
        base, c = (m.group(1), int(m.group(3)) * (1 if m.group(2) == "+" else -1)) if m else (e, 0)
        c += self.shift
        return base if c == 0 else f"{base} {'+' if c > 0 else '-'} {abs(c)}"

    def index(self, live, wide=True):
        return self._sh(self._index(live, wide))

    def index2(self, live):
        return self._sh(self._index2(live))

    def _index(self, live, wide=True):
        r = self.r
        if live and r.random() < 0.85:
            v = r.choice(live)
            x = r.random()
            if x < 0.5:
                return v
            if x < 0.7:
                return f"{v} + {r.randint(1, 3)}"
            if x < 0.85:
                return f"{v} - {r.randint(1, 3)}"
            if wide:
                c = r.randint(0, 2)
                return f"2 * {v}" + (f" + {c}" if c else "")
            return v
        if not self.real_only and r.random() < 0.5:
            self.features.add("passive-index")
            return r.choice(["n1", "n2", "n1 + 1"])
        return str(r.randint(0, 8))

    def _index2(self, live):
        r = self.r
        if live and r.random() < 0.85:
            v = r.choice(live)
            return v if r.random() < 0.6 else f"{v} + 1"
        return str(r.randint(0, 8))

    def aref(self, live, allow_local=True):
        r = self.r
        x = r.random()
        if x < 0.12:
            return r.choice(self.scalars)
        if x < 0.22 and allow_local and self.locals:
            return r.choice(self.locals)
        if x < 0.32 and self.arrays2:
            return f"m({self.index2(live)}, {self.index2(live)})"
        return f"{r.choice(self.arrays1)}({self.index(live)})"

    def term(self, live, ref):
        r = self.r
        x = r.random()
        if x < 0.35:
            return ref
        if x < 0.6:
            return f"{self.coef(live)} * {ref}"
        if x < 0.75:
            return f"{ref} * {self.coef(live)}"
        if x < 0.85:
            return f"{self.coef(live)} * {ref} * {self.coef(live)}"
        return f"(-{ref})" if r.random() < 0.5 else f"{self.coef(live)} * (-{ref})"

    def assign(self, live, ind):
        r = self.r
        lhs = self.aref(live)
        n = r.choice([0, 1, 1, 2, 2, 2, 3])
        if n == 0:
            return [f"{ind}{lhs} = 0.0"]
        parts = []
        for k in range(n):
            x = r.random()
            if x < 0.3:
                ref = lhs
                self.features.add("increment")
            elif x < 0.36 and "(" in lhs and self.allow_unsafe and not self.real_only:
                # same array, different subscript text: may alias at run time
                ref = lhs.split("(")[0] + "(" + (self.index2(live) + ", " + self.index2(live) if lhs.startswith("m(")
                                                 else self.index(live)) + ")"
                self.features.add("same-array")
            else:
                ref = self.aref(live)
                if not self.allow_unsafe and ref != lhs and ref.split("(")[0] == lhs.split("(")[0]:
                    ref = lhs       # tame mode: the LHS array only through the LHS reference itself
            t = self.term(live, ref)
            op = r.choice(["+", "+", "-"])
            parts.append((op, t))
        s = ("-" if parts[0][0] == "-" and r.random() < 0.7 else "") + parts[0][1]
        for op, t in parts[1:]:
            s += f" {op} {t}"
        return [f"{ind}{lhs} = {s}"]

    def bound(self, lo_side):
        r = self.r
        if self.real_only or r.random() < 0.5:
            if not self.allow_unsafe:
                return str(r.randint(0, 3) if lo_side else r.randint(4, 8))
            return str(r.randint(0, 4) if lo_side else r.randint(3, 8))
        x = r.random()
        if x < 0.4:
            return "n1" if lo_side else "n2"
        if x < 0.7:
            self.features.add("expr-bound")
            return "n1 + 1" if lo_side else "n2 - 1"
        if x < 0.85:
            self.features.add("expr-bound")
            return "n1 - 1" if lo_side else "n2 + 1"
        return "n2" if lo_side else "n1"

    def loop_header(self, v):
        r = self.r
        x = r.random()
        lo, hi = self.bound(True), self.bound(False)
        if x < 0.4:
            return f"do {v} = {lo}, {hi}"
        if x < 0.65:
            self.features.add("step>1")
            return f"do {v} = {lo}, {hi}, {r.choice([2, 3])}"
        if x < 0.8:
            self.features.add("step<0")
            return f"do {v} = {hi}, {lo}, {r.choice([-1, -2, -3])}"
        if x < 0.9 and not self.real_only:
            self.features.add("var-step")
            return f"do {v} = {lo}, {hi}, k1" if r.random() < 0.7 else f"do {v} = {hi}, {lo}, -k1"
        # candidates for zero-trip loops (possibly with the spurious reversed iteration)
        self.features.add("zero-trip-candidate")
        lo2 = r.randint(3, 8)
        hi2 = lo2 - r.randint(1, 3)
        st = r.choice([1, 2, 3]) if self.allow_unsafe else 1
        return f"do {v} = {lo2}, {hi2}" + ("" if st == 1 else f", {st}")

    def cond(self, live):
        r = self.r
        c = []
        if not self.real_only:
            c += ["lg", ".not. lg", f"n1 > {r.randint(0, 6)}", f"n2 <= {r.randint(2, 8)}"]
        if self.cond_on_reals:
            c += [f"p > {r.randint(-2, 2)}.0", f"q < {r.randint(-2, 2)}.0"]
        if live:
            v = r.choice(live)
            c += [f"{v} < {r.randint(1, 6)}", f"mod({v}, 2) == 0"]
            if self.cond_on_reals:
                c.append(f"cf({v}) > 0.0")
        return r.choice(c) if c else "2 > 1"

    def block(self, live, n, ind, depth):
        r = self.r
        out = []
        for _ in range(n):
            x = r.random()
            free = [v for v in ["i", "j"] if v not in live]
            if x < 0.3 and free and depth < 2:
                v = free[0]
                self.features.add("loop" if depth == 0 or not live else "nested-loop")
                out.append(ind + self.loop_header(v))
                out += self.block(live + [v], r.randint(1, 3), ind + "  ", depth + 1)
                out.append(ind + "end do")
            elif x < 0.45 and depth < 3:
                self.features.add("if")
                out.append(f"{ind}if ({self.cond(live)}) then")
                out += self.block(live, r.randint(1, 2), ind + "  ", depth + 1)
                if r.random() < 0.5:
                    self.features.add("else")
                    out.append(ind + "else")
                    out += self.block(live, r.randint(1, 2), ind + "  ", depth + 1)
                out.append(ind + "end if")
            else:
                out += self.assign(live, ind)
        return out

    def kernel(self):
        r = self.r
        self.features = set()
        self.arrays1 = ["a", "b", "c"][: r.randint(2, 3)]
        self.arrays2 = ["m"] if (r.random() < 0.3 and self.rank2) else []
        self.scalars = ["s", "t"][: r.randint(1, 2)]
        self.locals = ["w1", "w2"][: r.choice([0, 0, 1, 2])]
        self.ints = ["n1", "n2", "k1"]
        # passive temporaries: assigned once, at the top of the routine, from arguments only
        self.ptemps = ["pt"] if (self.passive_temps and r.random() < 0.25) else []
        body = list(self.guard)
        if self.guard:
            self.features.add("early-return")
        if self.ptemps:
            self.features.add("passive-temp")
            body.append("  pt = " + r.choice(["2.0 * p", "p + q", "p * q"]))
        if self.init_locals:
            body += [f"  {w} = 0.0" for w in self.locals]
        body += self.block([], r.randint(2, 5), "  ", 0)
        if self.locals:
            self.features.add("active-local")
        args = self.arrays1 + self.arrays2 + self.scalars + ["p", "q", "cf"]
        if not self.real_only:
            args += ["n1", "n2", "k1", "lg"]
        r.shuffle(args)
        decl = []
        a_dim = f"{A_LO}:{A_HI}" if not self.shift else "0:40"
        m_dim = f"{M_LO}:{M_HI}" if not self.shift else "0:24"
        for a in self.arrays1:
            decl.append(f"  real, intent(inout) :: {a}({a_dim})")
        for a in self.arrays2:
            decl.append(f"  real, intent(inout) :: {a}({m_dim},{m_dim})")
        decl.append("  real, intent(inout) :: " + ", ".join(self.scalars))
        decl.append("  real, intent(in) :: p, q")
        decl.append(f"  real, intent(in) :: cf({a_dim})")
        if not self.real_only:
            decl.append("  integer, intent(in) :: n1, n2, k1")
            decl.append("  logical, intent(in) :: lg")
        decl.append("  integer :: i, j")
        if self.locals:
            decl.append("  real :: " + ", ".join(self.locals))
        if self.ptemps:
            decl.append("  real :: " + ", ".join(self.ptemps))
        src = ("module tl_mod\n  implicit none\ncontains\nsubroutine tl_kern(" + ", ".join(args) + ")\n"
               + "\n".join(decl) + "\n" + "\n".join(body) + "\nend subroutine tl_kern\nend module tl_mod\n")
        pv = {"p": r.randint(-3, 3), "q": r.randint(-3, 3),
              "cf": {i: r.randint(-2, 3) for i in range(A_LO, A_HI + 1)}}
        if not self.real_only:
            pv.update({"n1": r.randint(0, 6), "n2": r.randint(2, 8), "k1": r.choice([1, 2, 3, 2, -1, -2]),
                       "lg": r.randint(0, 1)})
        return Kernel(src, self.arrays1 + self.arrays2 + self.scalars + self.locals, list(self.locals), pv,
                      list(self.arrays1), list(self.arrays2), list(self.scalars), self.real_only,
                      bool(self.ptemps), sorted(self.features))


# ---------------------------------------------------------------------------
# early-exit family: passive statements containing RETURN in front of the first active statement (the
# adjoint must leave exactly when the tangent-linear code leaves).  Systematic: guard shape x condition x
# the passive values that decide every condition both ways; the statements behind the guard come from KGen.
GUARD_CONDS = [          # (condition text, passive values making it true, values making it false)
    ("lg", {"lg": 1}, {"lg": 0}),
    (".not. lg", {"lg": 0}, {"lg": 1}),
    ("n1 > 3", {"n1": 5}, {"n1": 2}),
    ("n2 <= n1", {"n1": 4, "n2": 3}, {"n1": 1, "n2": 6}),
]
GUARD_SHAPES = ["stmt", "block", "nested", "else-chain", "two", "else-passive"]


def guard_variants(shape, ci):
    """[(lines, passive-value overrides, returns?)] for one guard shape; conditions ci and ci+1"""
    c1, t1, f1 = GUARD_CONDS[ci % len(GUARD_CONDS)]
    # second condition on other variables than the first
    c2, t2, f2 = GUARD_CONDS[(ci + 2) % len(GUARD_CONDS)]
    def both(x, y):
        d = dict(x)
        d.update(y)
        return d
    if shape == "stmt":
        return [([f"  if ({c1}) return"], t1, True), ([f"  if ({c1}) return"], f1, False)]
    if shape == "block":
        g = [f"  if ({c1}) then", "    return", "  end if"]
        return [(g, t1, True), (g, f1, False)]
    if shape == "nested":
        g = [f"  if ({c1}) then", f"    if ({c2}) return", "  end if"]
        return [(g, both(t1, t2), True), (g, both(t1, f2), False), (g, both(f1, t2), False)]
    if shape == "else-chain":
        g = [f"  if ({c1}) then", "    return", "  else", f"    if ({c2}) then", "      return", "    end if", "  end if"]
        return [(g, both(t1, f2), True), (g, both(f1, t2), True), (g, both(f1, f2), False)]
    if shape == "two":
        g = [f"  if ({c1}) return", f"  if ({c2}) return"]
        return [(g, both(t1, f2), True), (g, both(f1, t2), True), (g, both(f1, f2), False)]
    if shape == "else-passive":
        g = [f"  if ({c1}) then", "    return", "  else", "    i = 0", "  end if"]
        return [(g, t1, True), (g, f1, False)]
    raise ValueError(shape)


def guard_family(rng, n_bases, shapes_per_base):
    """yields (base kernel, [(guarded kernel, returns?, passive-value overrides)]): the same random statements without and with a leading
    early-exit guard, the guarded kernel once per decisive assignment of the passive values"""
    gen = KGen(rng, allow_unsafe=False, rank2=False)
    k = rng.randrange(len(GUARD_SHAPES) * len(GUARD_CONDS))
    for _ in range(n_bases):
        state = rng.getstate()
        gen.guard = []
        base = gen.kernel()
        after = rng.getstate()
        out = []
        for _ in range(shapes_per_base):
            shape, ci = GUARD_SHAPES[k % len(GUARD_SHAPES)], k // len(GUARD_SHAPES)
            k += 1
            for lines, over, returns in guard_variants(shape, ci):
                rng.setstate(state)          # same statements, argument order and passive values as the base
                gen.guard = lines
                kern = gen.kernel()
                kern.passive_vals.update(over)
                kern.features = sorted(set(kern.features) | {"guard-" + shape, "returns" if returns else "falls-through"})
                out.append((kern, returns, dict(over)))
        gen.guard = []
        rng.setstate(after)
        yield base, out


# ---------------------------------------------------------------------------
# kernels outside PSyAD's subset: the real code must raise, and so must the linear-form exporter
REFUSED = [
    ("product of two active variables", "a(i) = b(i) * c(i)"),
    ("constant term", "a(i) = b(i) + 1.0"),
    ("passive term", "a(i) = b(i) + p"),
    ("active variable in a denominator", "a(i) = p / b(i)"),
    ("active variable inside an intrinsic", "a(i) = abs(b(i))"),
    ("two active variables in one term", "a(i) = 2.0 * b(i) * c(i) + a(i)"),
    ("active variable squared", "a(i) = b(i) ** 2"),
    ("IF on an active variable", "if (b(i) > 0.0) then\n a(i) = b(i)\n end if"),
    ("active loop bound", "do j = 1, int(s)\n a(j) = b(j)\n end do"),
    ("passive LHS with active RHS", "p2 = b(i)"),
]


def refused_kernel(rng):
    what, stmt = rng.choice(REFUSED)
    pre = rng.choice(["", "  c(i) = c(i) + 2.0 * a(i)\n"])
    src = ("module tl_mod\n  implicit none\ncontains\nsubroutine tl_kern(a, b, c, s, p, n1)\n"
           f"  real, intent(inout) :: a({A_LO}:{A_HI}), b({A_LO}:{A_HI}), c({A_LO}:{A_HI}), s\n"
           "  real, intent(in) :: p\n  integer, intent(in) :: n1\n  integer :: i, j\n  real :: p2\n"
           f"  do i = 1, n1\n{pre}  {stmt}\n  end do\nend subroutine tl_kern\nend module tl_mod\n")
    return what, src, ["a", "b", "c", "s"]


# ---------------------------------------------------------------------------
# array-notation stream: assignments to array sections.  Sections whose strides differ between
# the references stay in array notation after preprocess_trans (ArrayAssignment2LoopsTrans refuses
# them) and reach AssignmentTrans._array_ranges_match; equal strides are lowered to loops.
class SecGen:
    N1, N2 = 10, 6          # a(10,6), b(10,6): rank 2;  c(10), e(10): rank 1;  cf(10) passive

    def __init__(self, rng):
        self.r = rng

    def section(self, n, extent, avoid_step=None):
        """`lo:hi:st` with n elements inside 1..extent"""
        r = self.r
        cands = [(lo, st) for st in (1, 2, 3) for lo in range(1, extent + 1)
                 if lo + (n - 1) * st <= extent and st != avoid_step]
        if not cands:
            cands = [(lo, st) for st in (1, 2, 3) for lo in range(1, extent + 1) if lo + (n - 1) * st <= extent]
        lo, st = r.choice(cands)
        hi = lo + (n - 1) * st
        return f"{lo}:{hi}" + (f":{st}" if st != 1 else ""), st

    def scalar_index(self, other=None):
        r = self.r
        c = ["j", "k", "1", "j + 1", str(r.randint(2, 5))]
        if other is not None:
            c = [x for x in c if x != other]
        return r.choice(c)

    def coef(self):
        r = self.r
        return r.choice(["2.0", "3.0", "p", "4.0", "p * 2.0"])

    def statement(self):
        """one array-section assignment; returns (text, feature)"""
        r = self.r
        shape = r.choice(["col", "col", "row", "vec", "full"])
        if shape in ("col", "full"):
            n = r.choice([3, 4, 5])
            sec, st = self.section(n, self.N1)
            sidx = self.scalar_index() if shape == "col" else ":"
            lhs = lambda arr, s2=sec, i2=sidx: f"{arr}({s2}, {i2})"       # noqa: E731
        elif shape == "row":
            n = r.choice([2, 3])
            sec, st = self.section(n, self.N2)
            sidx = self.scalar_index().replace("j + 1", "j")
            lhs = lambda arr, s2=sec, i2=sidx: f"{arr}({i2}, {s2})"       # noqa: E731
        else:
            n = r.choice([3, 4, 5])
            sec, st = self.section(n, self.N1)
            sidx = None
            lhs = lambda arr, s2=sec: f"{arr}({s2})"                      # noqa: E731
        larr = r.choice(["c", "e"]) if shape == "vec" else r.choice(["a", "b"])
        terms, feat = [], shape
        # occurrences of the LHS array on the RHS: identical ranges; same or different scalar subscript
        x = r.random()
        if x < 0.35:
            terms.append((r.choice(["", "", self.coef() + " * "]) + lhs(larr)))
            feat += "+same-index-increment"
        elif x < 0.75 and sidx not in (None, ":"):
            other = self.scalar_index(other=sidx)
            if shape == "row":
                other = other.replace("j + 1", "k" if sidx != "k" else "1")
            ref = f"{larr}({sec}, {other})" if shape == "col" else f"{larr}({other}, {sec})"
            terms.append(r.choice(["", self.coef() + " * "]) + ref)
            feat += "+shifted-index"
        # other arrays; the first one gets a stride different from the LHS so the statement survives preprocessing
        others = [a for a in (["a", "b"] if larr in "ab" else ["c", "e"]) if a != larr] + (["c", "e"] if larr in "ab" else ["a", "b"])
        for t in range(r.choice([1, 1, 2])):
            arr = others[t % len(others)] if r.random() < 0.8 else r.choice(others)
            keep = r.random() < 0.25 and t > 0
            if arr in ("a", "b"):
                if r.random() < 0.7 or shape == "full":
                    s2, _ = self.section(n, self.N1, None if keep else st)
                    ref = f"{arr}({s2}, {':' if shape == 'full' else self.scalar_index()})"
                else:
                    if n > 3:
                        s2, _ = self.section(n, self.N1, None if keep else st)
                        ref = f"{arr}({s2}, {self.scalar_index()})"
                    else:
                        s2, _ = self.section(n, self.N2, None if keep else st)
                        ref = f"{arr}({self.scalar_index().replace('j + 1', 'j')}, {s2})"
            else:
                if shape == "full":
                    continue
                s2, _ = self.section(n, self.N1, None if keep else st)
                ref = f"{arr}({s2})"
            c = self.coef()
            if r.random() < 0.3 and shape != "full":
                s3, _ = self.section(n, self.N1)
                c = f"cf({s3})"
            terms.append(f"{c} * {ref}")
        if not terms:
            terms = ["0.0"]
        r.shuffle(terms)
        text = terms[0]
        for t in terms[1:]:
            text += r.choice([" + ", " + ", " - "]) + t
        return f"{lhs(larr)} = {text}", feat

    def kernel(self):
        r = self.r
        feats = set()
        body = []
        loop_j = r.random() < 0.3
        ind = "    " if loop_j else "  "
        if loop_j:
            body.append("  do j = 1, 5")
            feats.add("section-in-loop")
        for _ in range(r.choice([1, 1, 2])):
            st, f = self.statement()
            if loop_j and ", :)" in st:
                st = st.replace(", :)", ", j)")
            feats.add(f)
            body.append(ind + st)
            if r.random() < 0.4:
                i1, i2 = r.randint(1, 10), r.randint(1, 10)
                body.append(f"{ind}c({i1}) = c({i1}) + {self.coef()} * e({i2})")
        if loop_j:
            body.append("  end do")
        args = ["a", "b", "c", "e", "p", "cf", "k"] + ([] if loop_j else ["j"])
        decl = [f"  real, intent(inout) :: a({self.N1},{self.N2}), b({self.N1},{self.N2}), c({self.N1}), e({self.N1})",
                f"  real, intent(in) :: p, cf({self.N1})",
                "  integer, intent(in) :: k" + ("" if loop_j else ", j")]
        if loop_j:
            decl.append("  integer :: j")
        src = ("module tl_mod\n  implicit none\ncontains\nsubroutine tl_kern(" + ", ".join(args) + ")\n"
               + "\n".join(decl) + "\n" + "\n".join(body) + "\nend subroutine tl_kern\nend module tl_mod\n")
        jv = r.randint(1, 5)
        kv = r.choice([x for x in range(1, 6) if x != jv])
        pv = {"p": r.randint(-3, 3), "k": kv, "cf": {i: r.randint(-2, 3) for i in range(1, self.N1 + 1)}}
        if not loop_j:
            pv["j"] = jv
        kern = Kernel(src, ["a", "b", "c", "e"], [], pv, ["c", "e"], ["a", "b"], [], False, False, sorted(feats))
        kern.dims = {"a": [(1, self.N1), (1, self.N2)], "b": [(1, self.N1), (1, self.N2)],
                     "c": [(1, self.N1)], "e": [(1, self.N1)]}
        kern.sections = True
        return kern
