"""C06 helpers: test-program template, running the real PSyclone transformations, building the
Lean-model input from the PSyIR, normalising exported MiniF, gfortran comparison."""
import concurrent.futures

import common
import minif

HUGE = 1000000

# name -> (rank, ((lo, hi), ...))
ARRAYS = {"a": ((1, 10),), "b": ((1, 10),), "c": ((0, 9),), "d": ((3, 12),),
          "v": ((1, 4),), "r": ((1, 4),), "w": ((0, 3),), "u": ((2, 5),),
          "m": ((1, 4), (1, 4)), "q": ((0, 3), (2, 5)), "p2": ((1, 4), (1, 4)),
          # per-dimension DIFFERENT lower bounds; e2's first lower bound equals that of v, r (and m, p2)
          "e2": ((1, 4), (0, 3)), "t3": ((1, 3), (1, 4), (2, 5))}
GEN_ARRAYS = [a for a in ARRAYS if len(ARRAYS[a]) <= 2]      # arrays the generic generators draw from (MiniF: rank <= 2)
SCALARS = ["x", "y", "z"]
INTS = ["n", "k"]


def decl(name):
    dims = ARRAYS[name]
    return "  real, dimension(%s) :: %s" % (
        ",".join(f"{hi - lo + 1}" if lo == 1 else f"{lo}:{hi}" for lo, hi in dims), name)


def program(params, stmts):
    """params: dict with per-array (mul, add, mod, off), scalar values, n, k"""
    lines = ["program p"] + [decl(a) for a in ARRAYS]
    lines += ["  real :: x, y, z", "  integer :: n, k, i1, i2, i3"]
    for a, dims in ARRAYS.items():
        mu, ad, mo, of = params["arr"].get(a, (2, 1, 7, 2))
        if len(dims) == 1:
            lines += [f"  do i1 = {dims[0][0]}, {dims[0][1]}",
                      f"    {a}(i1) = mod((i1 + 5) * {mu} + {ad}, {mo}) - {of}", "  enddo"]
        elif len(dims) == 2:
            lines += [f"  do i2 = {dims[1][0]}, {dims[1][1]}", f"    do i1 = {dims[0][0]}, {dims[0][1]}",
                      f"      {a}(i1, i2) = mod((i1 + 3) * {mu} + (i2 + 2) * {ad}, {mo}) - {of}", "    enddo", "  enddo"]
        else:
            lines += [f"  do i3 = {dims[2][0]}, {dims[2][1]}", f"  do i2 = {dims[1][0]}, {dims[1][1]}",
                      f"    do i1 = {dims[0][0]}, {dims[0][1]}",
                      f"      {a}(i1, i2, i3) = mod((i1 + 3) * {mu} + (i2 + 2) * {ad} + i3 * 3, {mo}) - {of}",
                      "    enddo", "  enddo", "  enddo"]
    for s in SCALARS:
        lines.append(f"  {s} = {params['sc'][s]}")
    lines += [f"  n = {params['n']}", f"  k = {params['k']}"]
    n_init = len(ARRAYS) + len(SCALARS) + 2          # number of top-level init statements
    lines += ["  " + s for s in stmts]
    for a in ARRAYS:
        lines.append(f"  print *, {a}")
    lines.append("  print *, x, y, z")
    lines.append("end program p")
    return "\n".join(lines) + "\n", n_init


MARK = 777777


def program_multi(params, stmt_lists):
    """one program with one block (init, statements, prints) per case; returns (src, n_init, block starts)"""
    one, n_init = program(params, [])
    lines = one.split("\n")
    head_end = next(i for i, l in enumerate(lines) if l.startswith("  integer :: n, k"))
    head, init = lines[:head_end + 1], lines[head_end + 1: head_end + 1 + _init_lines(params)]
    prints = [l for l in lines if l.startswith("  print")]
    body, starts, pos = [], [], 0
    for j, stmts in enumerate(stmt_lists):
        starts.append(pos)
        body += init + ["  " + s for s in stmts] + [f"  print *, {MARK}, {j}"] + prints
        pos += n_init + len(stmts) + 1
    return "\n".join(head + body + ["end program p"]) + "\n", n_init, starts


def _init_lines(params):
    n = 0
    for a, dims in ARRAYS.items():
        n += {1: 3, 2: 5, 3: 7}[len(dims)]
    return n + len(SCALARS) + 2


def gen_params(rng):
    return {"arr": {a: (rng.randint(1, 5), rng.randint(0, 6), rng.choice([5, 7]), rng.randint(1, 3)) for a in ARRAYS},
            "sc": {s: rng.randint(-3, 4) for s in SCALARS}, "n": rng.choice([3, 4, 5]), "k": rng.choice([1, 2])}


# ---------------------------------------------------------------------------
TRANS = {}


def trans(name):
    if not TRANS:
        from psyclone.psyir import transformations as T
        for n in ["ArrayAssignment2LoopsTrans", "Abs2CodeTrans", "Sign2CodeTrans", "Min2CodeTrans", "Max2CodeTrans",
                  "Sum2LoopTrans", "Product2LoopTrans", "Minval2LoopTrans", "Maxval2LoopTrans", "DotProduct2CodeTrans",
                  "Matmul2CodeTrans", "ArrayAccess2LoopTrans", "Reference2ArrayRangeTrans", "AllArrayAccess2LoopTrans"]:
            TRANS[n] = getattr(T, n)
    return TRANS[name]()


class Applied:
    """result of running one real transformation on the statement under test"""
    refused = None      # message or None
    orig_stmt = None    # original PSyIR statement (detached copy, in a copied tree)
    new_stmts = None    # list of PSyIR nodes that replaced it
    out_src = None
    new_names = ()
    routine = None


def pick(stmt, target):
    from psyclone.psyir import nodes as N
    if target[0] == "assign":
        return stmt
    if target[0] == "intrinsic":
        calls = [c for c in stmt.walk(N.IntrinsicCall) if c.intrinsic.name == target[1]]
        return calls[target[2]]
    if target[0] == "index":
        return stmt.lhs.indices[target[1]]
    raise ValueError(target)


def apply_at(psyir, routine, pos, tname, target):
    """apply transformation `tname` to the target inside the statement routine.children[pos]"""
    from psyclone.psyir import nodes as N
    from psyclone.psyir.transformations import TransformationError
    res = Applied()
    res.routine = routine
    stmt = routine.children[pos]
    res.orig_stmt = stmt.copy()
    before = set(s.name for s in routine.symbol_table.symbols)
    tail = len(routine.children) - (pos + 1)
    try:
        if target[0] == "refs":
            t = trans(tname)
            for ref in stmt.walk(N.Reference):
                try:
                    t.apply(ref)
                except TransformationError:
                    pass
        else:
            trans(tname).apply(pick(stmt, target))
    except TransformationError as err:
        res.refused = str(err.value)
        return res
    res.new_names = sorted(set(s.name for s in routine.symbol_table.symbols) - before)
    res.new_stmts = routine.children[pos: len(routine.children) - tail]
    return res


def parse(src):
    from psyclone.psyir.frontend.fortran import FortranReader
    from psyclone.psyir import nodes as N
    psyir = FortranReader().psyir_from_source(src)
    return psyir, psyir.walk(N.Routine)[0]


def write(psyir):
    from psyclone.psyir.backend.fortran import FortranWriter
    return FortranWriter()(psyir)


def split_blocks(out):
    """program output -> {block number: list of values}"""
    vals, blocks, cur = parse_vals(out), {}, None
    i = 0
    while i < len(vals):
        if vals[i] == float(MARK) and i + 1 < len(vals):
            cur = int(vals[i + 1])
            blocks[cur] = []
            i += 2
            continue
        if cur is not None:
            blocks[cur].append(vals[i])
        i += 1
    return blocks


def apply_real(src, n_init, tname, target, nstmts=1):
    """parse, apply transformation `tname` to the target inside statement number `n_init`."""
    from psyclone.psyir.frontend.fortran import FortranReader
    from psyclone.psyir.backend.fortran import FortranWriter
    from psyclone.psyir import nodes as N
    from psyclone.psyir.transformations import TransformationError
    psyir = FortranReader().psyir_from_source(src)
    routine = psyir.walk(N.Routine)[0]
    res = Applied()
    res.routine = routine
    stmt = routine.children[n_init + nstmts - 1]
    res.orig_copy_tree = psyir.copy()
    res.orig_stmt = res.orig_copy_tree.walk(N.Routine)[0].children[n_init + nstmts - 1]
    before = set(s.name for s in routine.symbol_table.symbols)
    tail = len(routine.children) - (n_init + nstmts)
    try:
        if target[0] == "refs":
            t = trans(tname)
            for ref in stmt.walk(N.Reference):
                try:
                    t.apply(ref)
                except TransformationError:
                    pass
        else:
            trans(tname).apply(pick(stmt, target))
    except TransformationError as err:
        res.refused = str(err.value)
        return res
    res.new_names = sorted(set(s.name for s in routine.symbol_table.symbols) - before)
    res.new_stmts = routine.children[n_init + nstmts - 1: len(routine.children) - tail]
    res.out_src = FortranWriter()(psyir)
    return res


# ---------------------------------------------------------------------------
# PSyIR -> MiniF with LBOUND/UBOUND/HUGE replaced by literals
def _bound_literal(call):
    from psyclone.psyir import nodes as N
    from psyclone.psyir.symbols import INTEGER_TYPE
    args = call.arguments
    sym = args[0].symbol
    dim = int(args[1].value) if len(args) > 1 else 1
    lo, hi = ARRAYS[sym.name.lower()][dim - 1]
    return N.Literal(str(lo if call.intrinsic.name == "LBOUND" else hi), INTEGER_TYPE)


def prep(node):
    """copy of a PSyIR subtree (inside a dummy parent) with inquiry intrinsics replaced by literals"""
    from psyclone.psyir import nodes as N
    from psyclone.psyir.symbols import INTEGER_TYPE
    holder = N.Schedule()
    holder.addchild(node.copy() if not isinstance(node, N.DataNode) else
                    N.Assignment.create(N.Reference(_dummy_symbol()), node.copy()))
    for call in holder.walk(N.IntrinsicCall):
        if call.intrinsic.name in ("LBOUND", "UBOUND") and isinstance(call.arguments[0], N.Reference) \
                and call.arguments[0].symbol.name.lower() in ARRAYS:
            call.replace_with(_bound_literal(call))
        elif call.intrinsic.name == "HUGE":
            call.replace_with(N.Literal(str(HUGE), INTEGER_TYPE))
    top = holder.children[0]
    return top.rhs if isinstance(node, N.DataNode) else top


_DUMMY = []


def _dummy_symbol():
    from psyclone.psyir.symbols import DataSymbol, REAL_TYPE
    if not _DUMMY:
        _DUMMY.append(DataSymbol("dummy__", REAL_TYPE))
    return _DUMMY[0]


def ex(node, names):
    return minif.export_expr(prep(node), names)


def ex_stmts(nodes, names):
    return block(["seqs"] + [minif.export_stmt(prep(n), names) for n in nodes])


def flat(st):
    if st is None:
        return []
    if st[0] in ("seq", "seqs"):
        out = []
        for c in st[1:]:
            out += flat(c)
        return out
    if st[0] == "skip":
        return []
    if st[0] == "ite":
        return [["ite", st[1], block(st[2]), block(st[3])]]
    if st[0] == "loop":
        return [st[:5] + [block(st[5])]]
    return [st]


def block(st):
    return ["seqs"] + flat(st)


class OutOfDomain(Exception):
    """statement outside the domain of the Lean model (still evaluated with gfortran)"""


def sec_of(aref, names):
    """ArrayReference with exactly one Range (or a plain Reference to a rank-1 array) -> model Sec"""
    from psyclone.psyir import nodes as N
    if type(aref) is N.Reference:
        dims = ARRAYS.get(aref.name.lower())
        if dims is None or len(dims) != 1:
            raise OutOfDomain("whole-array reference of rank != 1")
        return ["sec", names.id(aref.name), ["r1"], ["lit", dims[0][0]], ["lit", dims[0][1]], ["lit", 1]]
    idx = aref.indices
    rpos = [i for i, x in enumerate(idx) if isinstance(x, N.Range)]
    if len(rpos) != 1 or len(idx) > 2:
        raise OutOfDomain("not exactly one range")
    rg = idx[rpos[0]]
    if len(idx) == 1:
        fix = ["r1"]
    elif rpos[0] == 0:
        fix = ["row", ex(idx[1], names)]
    else:
        fix = ["col", ex(idx[0], names)]
    return ["sec", names.id(aref.name), fix, ex(rg.start, names), ex(rg.stop, names), ex(rg.step, names)]


def sec2_of(aref, names):
    """rank-2 ArrayReference with two Ranges (or a plain Reference to a rank-2 array) -> model Sec2"""
    from psyclone.psyir import nodes as N
    if type(aref) is N.Reference:
        dims = ARRAYS.get(aref.name.lower())
        if dims is None or len(dims) != 2:
            raise OutOfDomain("whole-array reference of rank != 2")
        return ["sec2", names.id(aref.name)] + [x for lo, hi in dims for x in (["lit", lo], ["lit", hi], ["lit", 1])]
    idx = aref.indices
    if len(idx) != 2 or not all(isinstance(x, N.Range) for x in idx):
        raise OutOfDomain("not two ranges")
    out = ["sec2", names.id(aref.name)]
    for rg in idx:
        out += [ex(rg.start, names), ex(rg.stop, names), ex(rg.step, names)]
    return out


def aexpr2_of(node, names):
    from psyclone.psyir import nodes as N
    if not node.walk(N.Range) and not any(type(r) is N.Reference and r.symbol.is_array and
                                          not (isinstance(r.parent, N.IntrinsicCall) and r.parent.is_inquiry)
                                          for r in node.walk(N.Reference)):
        return ["sc", ex(node, names)]
    if isinstance(node, N.ArrayReference) or type(node) is N.Reference:
        return ["asec2", sec2_of(node, names)]
    if isinstance(node, N.BinaryOperation):
        op = minif._BIN.get(node.operator.name)
        if op is None:
            raise OutOfDomain(node.operator.name)
        return ["bin", op, aexpr2_of(node.children[0], names), aexpr2_of(node.children[1], names)]
    if isinstance(node, N.UnaryOperation):
        return ["un", minif._UN[node.operator.name], aexpr2_of(node.children[0], names)]
    if isinstance(node, N.IntrinsicCall):
        nm = node.intrinsic.name
        args = [aexpr2_of(a, names) for a in node.arguments]
        if nm == "ABS":
            return ["un", "abs", args[0]]
        if nm in ("MIN", "MAX", "SIGN") and len(args) >= 2:
            out = args[0]
            for a in args[1:]:
                out = ["bin", nm.lower(), out, a]
            return out
    raise OutOfDomain(type(node).__name__)


def aexpr_of(node, names):
    from psyclone.psyir import nodes as N
    if not node.walk(N.Range) and not any(type(r) is N.Reference and r.symbol.is_array and
                                          not (isinstance(r.parent, N.IntrinsicCall) and r.parent.is_inquiry)
                                          for r in node.walk(N.Reference)):
        return ["sc", ex(node, names)]
    if isinstance(node, N.ArrayReference) or type(node) is N.Reference:
        return ["asec", sec_of(node, names)]
    if isinstance(node, N.BinaryOperation):
        op = minif._BIN.get(node.operator.name)
        if op is None:
            raise OutOfDomain(node.operator.name)
        return ["bin", op, aexpr_of(node.children[0], names), aexpr_of(node.children[1], names)]
    if isinstance(node, N.UnaryOperation):
        return ["un", minif._UN[node.operator.name], aexpr_of(node.children[0], names)]
    if isinstance(node, N.IntrinsicCall):
        nm = node.intrinsic.name
        args = [aexpr_of(a, names) for a in node.arguments]
        if nm == "ABS":
            return ["un", "abs", args[0]]
        if nm in ("MIN", "MAX", "SIGN") and len(args) >= 2:
            out = args[0]
            for a in args[1:]:
                out = ["bin", nm.lower(), out, a]
            return out
    raise OutOfDomain(type(node).__name__)


def tgt_of(lhs, names):
    from psyclone.psyir import nodes as N
    if type(lhs) is N.Reference:
        return ["sc", names.id(lhs.name)]
    if isinstance(lhs, N.ArrayReference) and not lhs.walk(N.Range) and len(lhs.indices) <= 2:
        return [f"e{len(lhs.indices)}", names.id(lhs.name)] + [ex(i, names) for i in lhs.indices]
    raise OutOfDomain("target")


def asg_of_sexp(st):
    """exported MiniF assignment -> model Asg"""
    if st[0] == "assign":
        return ["asg", ["sc", st[1]], st[2]]
    if st[0] == "store1":
        return ["asg", ["e1", st[1], st[2]], st[3]]
    if st[0] == "store2":
        return ["asg", ["e2", st[1], st[2], st[3]], st[4]]
    raise OutOfDomain("asg")


def outside_domain(stmt, target):
    """reason why a generated statement is outside the property's domain (else None):
    * a REAL variable inside an array-section bound (not standard Fortran, extents become data dependent);
    * the lowered intrinsic sits in the 2nd argument of an enclosing SIGN: then only the SIGN OF A ZERO
      produced by the lowering is observed (ABS(+0.0) is lowered to 0.0 * -1.0 = -0.0), and signed zeros are
      excluded from the property's value domain."""
    from psyclone.psyir import nodes as N
    from psyclone.psyir.symbols import ScalarType
    for rge in stmt.walk(N.Range):
        for ref in rge.walk(N.Reference):
            if isinstance(ref.parent, N.IntrinsicCall) and ref.parent.is_inquiry:
                continue
            try:
                if type(ref) is N.Reference and ref.symbol.datatype.intrinsic == ScalarType.Intrinsic.REAL:
                    return "REAL variable in a section bound"
            except AttributeError:
                pass
    if target[0] == "intrinsic":
        try:
            node = pick(stmt, target)
        except IndexError:
            return None
        child, anc = node, node.parent
        while anc is not None and anc is not stmt.parent:
            if isinstance(anc, N.IntrinsicCall) and anc.intrinsic.name == "SIGN" and len(anc.arguments) == 2 \
                    and anc.arguments[1] is child:
                return "sign of a zero observed by an enclosing SIGN"
            child, anc = anc, anc.parent
    return None


def has_bad_call(rhs):
    from psyclone.psyir import nodes as N
    for call in rhs.walk(N.Call):
        if isinstance(call, N.IntrinsicCall) and call.intrinsic.is_inquiry:
            continue
        if not call.is_elemental:
            return True
    return False


def refusal_class(msg):
    for key, cls in [("not guaranteed to be elemental", "notElemental"), ("different strides", "stride"),
                     ("different ranges", "overlap"), ("dimension argument", "dim"),
                     ("no ArrayReference", "noArray")]:
        if key in msg:
            return cls
    return "other:" + msg[:80]


# ---------------------------------------------------------------------------
def parse_vals(out):
    vals = []
    for t in out.split():
        try:
            vals.append(float(t))
        except ValueError:
            vals.append(t)
    return vals


def run_pairs(pairs, workers=3, checks=True, raw=False):
    """pairs: list of (orig_src, new_src) -> list of (verdict, orig_out, new_out);
    verdict in same / differ / skip"""
    def one(src):
        import subprocess
        flags = ("-ffree-line-length-none", "-w") + (("-fcheck=bounds",) if checks else ())
        for attempt in range(3):        # a loaded machine can exceed the compile time limit: retry
            try:
                return minif.gfortran_run(src, flags=flags)
            except subprocess.TimeoutExpired as err:
                last = err
        raise common.Infra(f"gfortran timed out three times: {last}")
    flat_srcs = [s for p in pairs for s in p]
    with concurrent.futures.ThreadPoolExecutor(max_workers=workers) as pool:
        outs = list(pool.map(one, flat_srcs))
    if raw:
        return [(outs[2 * i], outs[2 * i + 1]) for i in range(len(pairs))]
    res = []
    for i in range(len(pairs)):
        (s0, o0), (s1, o1) = outs[2 * i], outs[2 * i + 1]
        if s0 != "ok":
            res.append(("skip", f"{s0}: {o0[-200:]}", ""))          # original program itself invalid
        elif s1 != "ok":
            res.append(("differ", o0, f"{s1}: {o1[-300:]}"))
        else:
            v0, v1 = parse_vals(o0), parse_vals(o1)
            res.append(("same" if v0 == v1 else "differ", o0, o1))
    return res
