"""C07 — seeded generator of caller/callee pairs (one module, contained subroutines).

Caller `main` has integer scalars i j n t k, arrays a(0:10) b(2:12) c(10) mm(0:5,2:7), optionally a
module variable g.  Callee `s` has 1..4 formals (scalar bound to a variable / array element /
expression / literal; rank-1 and rank-2 array formals with assumed or shifted or explicit bounds
bound to whole arrays, sections, rows and columns), locals whose names may clash with caller
names, and a small random body that may modify its arguments (including variables that occur in
subscripts of other actuals).  Every callee local is written before it is read."""

CALLER_SCALARS = ["i", "j", "n", "t", "k"]
ARR1 = {"a": (0, 10), "b": (2, 12), "c": (1, 10)}
MM = ((0, 5), (2, 7))
CALLER_LOCALS = ["i", "j", "n", "t", "k", "ii", "jj", "kk", "a", "b", "c", "mm"]


class Case:
    def __init__(self):
        self.src = ""
        self.kind = ""
        self.meta = {}


def _sub(rng):
    """subscript expression over caller variables, in range for i, j in [2, 5]"""
    return rng.choice(["i", "j", "i+1", "j-1", "2", "i+j-2", "i", "j", "3"])


class CalleeGen:
    def __init__(self, rng, opts):
        self.rng = rng
        self.o = opts
        self.formals = []      # dicts: name, kind, decl, actual, definable, lo(s)
        self.lscal, self.larr, self.lloop = [], [], []
        self.used_bases = set()

    # ---- arguments -------------------------------------------------------
    def pick_formals(self):
        r = self.rng
        n = r.choice([1, 2, 2, 3, 3, 4])
        names = r.sample(["x", "y", "k", "v", "w", "z", "n", "i", "a", "u"], n)
        free_scal = [s for s in ["i", "j", "n", "t"]]
        r.shuffle(free_scal)
        free_arr = ["a", "b", "c"]
        r.shuffle(free_arr)
        mm_free = True
        force_arr = any(self.o.get(x) for x in ("stride", "rank", "arrayexpr"))
        for pos, nm in enumerate(names):
            kind = r.choice(["svar", "svar", "svar", "selem", "selem", "sexpr", "slit", "arr1", "arr1", "arr2"])
            if force_arr and pos == 0:
                kind = "arr1"
            f = {"name": nm, "kind": kind, "definable": True, "rank": 0}
            if kind == "svar" and free_scal:
                f["actual"] = free_scal.pop()
            elif kind == "selem" and (free_arr or mm_free):
                if mm_free and (not free_arr or r.random() < 0.25):
                    mm_free = False
                    f["actual"] = f"mm({_sub(r)}, {r.choice(['i', 'j', 'i+1', 'j+1', '3', 'i+j-2', '4'])})"
                else:
                    arr = free_arr.pop()
                    sub = _sub(r)
                    if arr != "b" and r.random() < 0.12:
                        sub = "b(i)"          # indirect subscript (b holds values 2..5)
                    f["actual"] = f"{arr}({sub})"
            elif kind == "sexpr":
                f["actual"] = r.choice(["n + 1", "i * 2", "i + j", "t - n", "j + 1", "a(i) + 1", "2 * n - i",
                                        "mm(i, j) + t", "max(i, n)"])
                f["definable"] = False
            elif kind == "slit":
                f["actual"] = str(r.randint(0, 6))
                f["definable"] = False
            elif kind == "arr1" and (free_arr or mm_free):
                f["rank"] = 1
                lo = r.choice([1, 1, 0, 2, 3])
                form = r.choice(["assumed", "assumed", "lower", "explicit"])
                if form == "assumed":
                    lo, f["dims"] = 1, ":"
                elif form == "lower":
                    f["dims"] = f"{lo}:" if lo != 1 else ":"
                else:
                    f["dims"] = f"{lo}:{lo + 3}"
                f["lo"] = [lo]
                if mm_free and (not free_arr or (not (force_arr and pos == 0) and r.random() < 0.3)):
                    mm_free = False
                    f["actual"] = r.choice(["mm(:, j)", "mm(i, :)", "mm(1:4, 3)", "mm(2, 3:6)", "mm(0:3, j)",
                                            "mm(j, 3:7)"])
                else:
                    arr = free_arr.pop()
                    l, u = ARR1[arr]
                    f["actual"] = r.choice([arr, arr, arr, f"{arr}(:)", f"{arr}({l}:)", f"{arr}({l + 1}:{l + 5})",
                                            f"{arr}(3:7)", f"{arr}(i:i+3)", f"{arr}(j-1:j+3)"])
                    if self.o.get("stride"):
                        f["actual"] = f"{arr}({l}:{l + 8}:2)"
            elif kind == "arr2" and mm_free:
                mm_free = False
                f["rank"] = 2
                form = r.choice(["assumed", "assumed", "lower"])
                if form == "assumed":
                    f["lo"], f["dims"] = [1, 1], ":,:"
                else:
                    l1, l2 = r.choice([0, 1, 2]), r.choice([0, 1, 3])
                    f["lo"], f["dims"] = [l1, l2], (f"{l1}:" if l1 != 1 else ":") + "," + (f"{l2}:" if l2 != 1 else ":")
                f["actual"] = r.choice(["mm", "mm", "mm(1:4, 3:6)", "mm(:, 3:6)", "mm(0:3, :)"])
            else:
                f["kind"] = "slit"
                f["actual"] = str(r.randint(0, 6))
                f["definable"] = False
            self.formals.append(f)
        if self.o.get("loopvar") and not any(f["kind"] == "svar" for f in self.formals) and free_scal:
            f = self.formals[0]
            f.update(kind="svar", actual=free_scal.pop(), definable=True, rank=0)
            f.pop("dims", None)
        if self.o.get("func"):
            for f in self.formals:            # a function referenced in an expression must not define its arguments
                f["definable"] = False
            return
        if not any(f["definable"] for f in self.formals):
            f = self.formals[0]
            f.update(kind="svar", actual=(free_scal.pop() if free_scal else "t"), definable=True, rank=0)
            f.pop("dims", None)

    def pick_locals(self):
        r = self.rng
        fn = {f["name"] for f in self.formals}
        pool = [x for x in ["i", "j", "n", "t", "q", "r", "a", "b", "kk", "ii"] if x not in fn]
        if self.o.get("outer"):
            pool = ["g"] + pool
        r.shuffle(pool)
        if self.o.get("outer") and "g" in pool:
            pool.remove("g")
            pool.insert(0, "g")
        ns = r.choice([0, 1, 1, 2, 2, 3])
        if self.o.get("clash"):
            cl = [x for x in pool if x in CALLER_LOCALS]
            if cl:
                pool.remove(cl[0])
                pool.insert(0, cl[0])
        if self.o.get("outer") or self.o.get("loopvar") or self.o.get("clash") or self.o.get("func"):
            ns = max(ns, 1)     # loopvar: the DO-variable formal is not assignable inside its loop; keep a target
        self.lscal = pool[:ns]
        pool = pool[ns:]
        if r.random() < 0.35 and pool:
            self.larr = [(pool.pop(0), r.choice([0, 1]))]     # (name, lower bound), 4 elements
        if r.random() < 0.6 and pool:
            self.lloop = [pool.pop(0)]

    # ---- expressions -----------------------------------------------------
    def scal_atoms(self, live):
        out = [f["name"] for f in self.formals if f["rank"] == 0] + self.init_done + live
        return out

    def aidx(self, lo, live):
        r = self.rng
        if live and r.random() < 0.5:
            return f"{lo} + {live[0]}" if lo else live[0]
        return str(lo + r.randint(0, 3))

    def atom(self, live):
        r = self.rng
        x = r.random()
        arrs = [f for f in self.formals if f["rank"] >= 1]
        if x < 0.2:
            return str(r.randint(0, 5))
        if x < 0.45 and arrs:
            f = r.choice(arrs)
            if f["rank"] == 1:
                return f"{f['name']}({self.aidx(f['lo'][0], live)})"
            return f"{f['name']}({self.aidx(f['lo'][0], live)}, {self.aidx(f['lo'][1], live)})"
        if x < 0.55 and self.larr_done:
            nm, lo = r.choice(self.larr_done)
            return f"{nm}({self.aidx(lo, live)})"
        sc = self.scal_atoms(live)
        return r.choice(sc) if sc else str(r.randint(0, 5))

    def expr(self, live, depth=0):
        r = self.rng
        if depth >= 2 or r.random() < 0.4:
            return self.atom(live)
        op = r.choice(["+", "-", "+", "*", "min", "max"])
        a, b = self.expr(live, depth + 1), self.expr(live, depth + 1)
        if op in ("min", "max"):
            return f"{op}({a}, {b})"
        return f"({a} {op} {b})"

    def lhs(self, live):
        r = self.rng
        cands = []
        for f in self.formals:
            if f["rank"] == 0 and f["definable"]:
                cands += [f["name"]] * 2
            elif f["rank"] == 1 and not self.o.get("func"):
                cands.append(f"{f['name']}({self.aidx(f['lo'][0], live)})")
            elif f["rank"] == 2 and not self.o.get("func"):
                cands.append(f"{f['name']}({self.aidx(f['lo'][0], live)}, {self.aidx(f['lo'][1], live)})")
        cands += self.init_done
        for nm, lo in self.larr_done:
            cands.append(f"{nm}({self.aidx(lo, live)})")
        return r.choice(cands)

    def stmts(self, n, live, ind, depth=0):
        r = self.rng
        out = []
        for _ in range(n):
            x = r.random()
            free = [v for v in self.lloop if v not in live]
            if x < 0.2 and free and depth < 2:
                v = free[0]
                out.append(f"{ind}do {v} = 0, {r.choice([1, 2, 2])}")
                out += self.stmts(r.randint(1, 2), live + [v], ind + "  ", depth + 1)
                out.append(f"{ind}enddo")
            elif x < 0.35 and depth < 2:
                out.append(f"{ind}if ({self.atom(live)} {r.choice(['>', '<', '>=', '=='])} {r.randint(0, 4)}) then")
                out += self.stmts(1, live, ind + "  ", depth + 1)
                if r.random() < 0.4:
                    out.append(f"{ind}else")
                    out += self.stmts(1, live, ind + "  ", depth + 1)
                out.append(f"{ind}endif")
            else:
                out.append(f"{ind}{self.lhs(live)} = {self.expr(live)}")
        return out

    def add_returns(self, body):
        """RETURN statements: a trailing one (accepted: apply drops it), a top-level one in mid-body, one nested in
        an IF / a loop, with or without a trailing RETURN, several (all refused by validate)"""
        r = self.rng
        mode = self.o.get("ret")
        if not mode:
            return body
        tops = [k for k, ln in enumerate(body) if k >= 1 and ln.startswith("    ") and not ln.startswith("     ")]
        at = r.choice(tops) if tops else len(body)

        def nested():
            cond = "1 > 0" if r.random() < 0.5 else f"{self.atom([])} {r.choice(['>=', '<', '=='])} {r.randint(0, 3)}"
            blk = [f"    if ({cond}) then", "      return", "    endif"]
            if self.lloop and r.random() < 0.35:
                v = self.lloop[0]
                blk = [f"    do {v} = 0, 1"] + ["  " + ln for ln in blk] + ["    enddo"]
            return blk
        if mode == "trailing":
            return body + ["    return"]
        if mode == "mid":
            return body[:at] + ["    return"] + body[at:]
        if mode == "nested":
            return body[:at] + nested() + body[at:]
        if mode == "nested_trailing":
            return body[:at] + nested() + body[at:] + ["    return"]
        if mode == "multi":
            return body[:at] + nested() + body[at:] + nested() + (["    return"] if r.random() < 0.5 else [])
        return body

    def build(self):
        r = self.rng
        self.pick_formals()
        self.pick_locals()
        decl = []
        for f in self.formals:
            intent = "inout" if f["definable"] else "in"
            if f["rank"] == 0:
                decl.append(f"    integer, intent({intent}) :: {f['name']}")
            else:
                decl.append(f"    integer, dimension({f['dims']}), intent({'in' if self.o.get('func') else 'inout'}) :: {f['name']}")
        for nm in self.lscal:
            if self.o.get("static") and nm == self.lscal[0]:
                decl.append(f"    integer :: {nm} = 3")
            else:
                decl.append(f"    integer :: {nm}")
        for nm, lo in self.larr:
            decl.append(f"    integer, dimension({lo}:{lo + 3}) :: {nm}")
        for nm in self.lloop:
            decl.append(f"    integer :: {nm}")
        body = []
        self.init_done, self.larr_done = [], []
        for nm in self.lscal:
            body.append(f"    {nm} = {self.expr([], 1)}")
            self.init_done.append(nm)
        for nm, lo in self.larr:
            if self.lloop:
                v = self.lloop[0]
                body += [f"    do {v} = {lo}, {lo + 3}", f"      {nm}({v}) = {v} + {r.randint(0, 3)}", "    enddo"]
            else:
                body += [f"    {nm}({lo + d}) = {r.randint(0, 4)}" for d in range(4)]
            self.larr_done.append((nm, lo))
        if self.o.get("loopvar"):
            sv = [f for f in self.formals if f["kind"] == "svar"]
            if sv:
                v = sv[0]["name"]
                if r.random() < 0.3 and not any("mm" in f["actual"] for f in self.formals):
                    sv[0]["actual"] = "mm(0, 7)"     # DO-variable dummy associated with an element: must be refused
                sv[0]["definable"] = False           # a DO variable must not be redefined inside its loop
                body.append(f"    do {v} = 1, 3")
                body += self.stmts(r.randint(1, 2), [], "      ", 2)
                body.append("    enddo")
                sv[0]["definable"] = True
        if self.o.get("bump"):
            # make sure a subscript / expression variable passed as another argument is modified early
            sv = [f for f in self.formals if f["kind"] == "svar" and f["actual"] in ("i", "j", "n")]
            if sv:
                body.append(f"    {sv[0]['name']} = {sv[0]['name']} + 1")
        if self.o.get("container"):
            body.append(f"    {self.lhs([])} = g + 1")
        body += self.stmts(r.randint(1, 4), [], "    ")
        body = self.add_returns(body)
        names = ", ".join(f["name"] for f in self.formals)
        args = ", ".join(f["actual"] for f in self.formals)
        if self.o.get("nargs"):
            args = ", ".join([f["actual"] for f in self.formals][:-1])
        if self.o.get("rank"):
            af = [f for f in self.formals if f["rank"] >= 1]
            if af:
                args = ", ".join(("n" if f is af[0] else f["actual"]) for f in self.formals)
        if self.o.get("arrayexpr"):
            af = [f for f in self.formals if f["rank"] == 1]
            if af:
                args = ", ".join(("c + 1" if f is af[0] else f["actual"]) for f in self.formals)
        if self.o.get("func"):
            body.append(f"    s = {self.expr([])}")
            sub = [f"  function s({names})", "    integer :: s"] + decl + body + ["  end function s"]
            use = r.choice(["t = t + s({a}) * 2", "a(i) = s({a})", "n = s({a}) - t", "c(j) = max(s({a}), k)"])
            return sub, use.format(a=args)
        sub = [f"  subroutine s({names})"] + decl + body + ["  end subroutine s"]
        return sub, f"call s({args})"


def gen_case(rng):
    """returns Case with .src (module + program), .kind (intended class; the model's flags decide)"""
    r = rng
    x = r.random()
    opts = {}
    if x < 0.44:
        kind = "plain"
    elif x < 0.52:
        mode = r.choice(["trailing", "trailing", "mid", "nested", "nested_trailing", "nested_trailing", "multi"])
        kind, opts = "ret_" + mode, {"ret": mode}
    elif x < 0.64:
        kind, opts = "bump", {"bump": True}
    elif x < 0.72:
        kind, opts = "loopvar", {"loopvar": True}
    elif x < 0.78:
        kind, opts = "outer", {"outer": True}
    elif x < 0.84:
        kind, opts = "fresh", {"clash": True}
    elif x < 0.92:
        kind, opts = "func", {"func": True}
    else:
        kind = r.choice(["static", "stride", "nargs", "rank", "container", "arrayexpr"])
        opts = {kind: True}
        if kind == "static":
            opts["force_local"] = True
    modvar = kind in ("outer", "container") or r.random() < 0.15
    cg = CalleeGen(r, opts)
    sub, call = cg.build()
    if kind == "static" and not cg.lscal:
        kind = "plain"
    # module variables named like the candidates `<name>_1`, `<name>_2` that merge tries for a clashing callee local:
    # a renamed local must not take (and so hide) a name the caller sees from the enclosing scope
    xvars = []
    if kind == "fresh" or r.random() < 0.2:
        clashing = [l for l in cg.lscal + [a for a, _ in cg.larr] + cg.lloop if l in CALLER_LOCALS]
        for l in (clashing or [r.choice(["i", "t", "n", "q"])])[:2]:
            xvars.append(f"{l}_1")
            if r.random() < 0.35:
                xvars.append(f"{l}_2")
    init = [f"    i = {r.randint(2, 3)}", f"    j = {r.randint(2, 3)}", f"    n = {r.randint(0, 5)}",
            f"    t = {r.randint(0, 4)}", f"    k = {r.randint(0, 9)}"]
    for arr, (l, u) in ARR1.items():
        kk, c, m = r.randint(1, 7), r.randint(0, 9), r.choice([5, 7, 11])
        if arr == "b":
            init += [f"    do ii = {l}, {u}", f"      b(ii) = mod(ii * {kk} + {c}, 4) + 2", "    enddo"]
        else:
            init += [f"    do ii = {l}, {u}", f"      {arr}(ii) = mod(ii * {kk} + {c}, {m})", "    enddo"]
    kk, c = r.randint(1, 5), r.randint(1, 5)
    init += ["    do jj = 2, 7", "      do ii = 0, 5", f"        mm(ii, jj) = mod(ii * {kk} + jj * {c}, 7)", "      enddo",
             "    enddo"]
    if modvar:
        init.append(f"    g = {r.randint(1, 9)}")
    for xv in xvars:
        init.append(f"    {xv} = {r.randint(10, 40)}")
    pre = [f"    {xv} = {xv} + {r.choice(['n', 'i', '1'])}" for xv in xvars if r.random() < 0.7]
    for _ in range(r.choice([0, 0, 1, 2])):
        pre.append("    " + r.choice(["n = n + 1", "a(3) = t", "t = t + i", "c(2) = n - 1", "mm(2, 3) = 5"]
                                     + (["g = g + n"] if modvar else [])))
    place = r.random()
    if place < 0.7:
        callst = ["    " + call]
    elif place < 0.85:
        callst = ["    do kk = 1, 2", "      " + call, "    enddo"]
    else:
        callst = [f"    if (n {r.choice(['>=', '<'])} {r.randint(0, 4)}) then", "      " + call, "    else", "      t = t - 1",
                  "    endif"]
    post = []
    if r.random() < 0.4:
        post.append("    " + r.choice(["t = t + i", "n = n + j", "a(1) = i"] + (["t = t + g"] if modvar else [])))
    for xv in xvars:
        if r.random() < 0.7:
            post.append("    " + r.choice([f"t = t + {xv}", f"{xv} = {xv} * 2 + t", f"n = n - {xv}"]))
    prints = ["    print *, i, j, n, t, k", "    print *, a", "    print *, b", "    print *, c", "    print *, mm"]
    if modvar:
        prints.append("    print *, g")
    lines = ["module m", "  implicit none"]
    if modvar:
        lines.append("  integer :: g")
    for xv in xvars:
        prints.append(f"    print *, {xv}")
        lines.append(f"  integer :: {xv}")
    lines += ["contains", "  subroutine main()", "    integer :: i, j, n, t, k, ii, jj, kk",
              "    integer, dimension(0:10) :: a", "    integer, dimension(2:12) :: b", "    integer, dimension(10) :: c",
              "    integer, dimension(0:5,2:7) :: mm"]
    lines += init + pre + callst + post + prints + ["  end subroutine main"] + sub + ["end module m"]
    case = Case()
    case.src = "\n".join(lines) + "\n"
    case.kind = kind
    case.modvar = modvar
    return case


WRAPPER = "program p\n  use m\n  call main()\nend program p\n"


def modvars_of(src):
    """module-level integer variables of a generated / corpus source, in declaration (= print) order"""
    import re
    head = src.split("contains")[0]
    return re.findall(r"^  integer :: (\w+)\s*$", head, re.M)


def queries(names, modvar):
    """`modvar`: list of module variable names (printed last, one per line), or legacy bool for `g`"""
    if isinstance(modvar, bool):
        modvar = ["g"] if modvar else []
    return _queries(names, modvar)


def _queries(names, modvars):
    q = [(names.id(s),) for s in CALLER_SCALARS]
    for arr, (l, u) in ARR1.items():
        q += [(names.id(arr), x) for x in range(l, u + 1)]
    q += [(names.id("mm"), x, y) for y in range(MM[1][0], MM[1][1] + 1) for x in range(MM[0][0], MM[0][1] + 1)]
    for v in modvars:
        q.append((names.id(v),))
    return q


def fixed_case(call_lines, sub_lines, modvar=False, xvars=()):
    """hand-written witness in the generator's frame (fixed initial values)"""
    init = ["    i = 2", "    j = 3", "    n = 1", "    t = 2", "    k = 7",
            "    do ii = 0, 10", "      a(ii) = mod(ii * 3 + 1, 7) - 2", "    enddo",
            "    do ii = 2, 12", "      b(ii) = mod(ii * 5 + 1, 4) + 2", "    enddo",
            "    do ii = 1, 10", "      c(ii) = mod(ii * 2 + 3, 5) - 1", "    enddo",
            "    do jj = 2, 7", "      do ii = 0, 5", "        mm(ii, jj) = mod(ii * 2 + jj * 3, 7)", "      enddo", "    enddo"]
    if modvar:
        init.append("    g = 4")
    init += [f"    {xv} = {100 + 10 * k}" for k, xv in enumerate(xvars)]
    prints = ["    print *, i, j, n, t, k", "    print *, a", "    print *, b", "    print *, c", "    print *, mm"]
    if modvar:
        prints.append("    print *, g")
    prints += [f"    print *, {xv}" for xv in xvars]
    lines = ["module m", "  implicit none"] + (["  integer :: g"] if modvar else []) + [f"  integer :: {xv}" for xv in xvars]
    lines += ["contains", "  subroutine main()", "    integer :: i, j, n, t, k, ii, jj, kk",
              "    integer, dimension(0:10) :: a", "    integer, dimension(2:12) :: b", "    integer, dimension(10) :: c",
              "    integer, dimension(0:5,2:7) :: mm"]
    lines += init + list(call_lines) + prints + ["  end subroutine main"] + list(sub_lines) + ["end module m"]
    return "\n".join(lines) + "\n"
