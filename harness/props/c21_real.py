"""C21: run the REAL stub generator and the REAL PSy-layer generator on a metadata spec and
parse both results into per-position signatures.

stub  -> [(dummy name, type, kind, rank, intent)]
call  -> [(actual text, type, kind, rank)]     (typed from the PSy layer's own declarations)
"""
import os
import re
import shutil
import tempfile

from props import c21_gen as G

API = "lfric"
_parser = None


def _f2003():
    global _parser
    if _parser is None:
        from fparser.two.parser import ParserFactory
        _parser = ParserFactory().create(std="f2008")
    return _parser


def _parse(text):
    from fparser.common.readfortran import FortranStringReader
    reader = FortranStringReader(text, ignore_comments=True)
    return _f2003()(reader)


def _decls(routine):
    """name(lower) -> (type, kind, rank, intent) for every entity declared in a subroutine."""
    from fparser.two import Fortran2003 as F
    from fparser.two.utils import walk
    out = {}
    for d in walk(routine, F.Type_Declaration_Stmt):
        spec, attrs, ents = d.items
        if isinstance(spec, F.Intrinsic_Type_Spec):
            ty = str(spec.items[0]).lower()
            kind = ""
            if spec.items[1] is not None:
                kind = re.sub(r"^\(\s*(kind\s*=\s*)?|\)$", "", str(spec.items[1]), flags=re.I).strip().lower()
        else:
            ty = "type"
            kind = str(spec.items[1]).lower()
        rank_attr, intent = 0, ""
        for a in (attrs.items if attrs is not None else []):
            if isinstance(a, F.Dimension_Attr_Spec):
                rank_attr = _nspec(a.items[1])
            elif isinstance(a, F.Intent_Attr_Spec):
                intent = str(a.items[1]).lower()
        for e in ents.items:
            name = str(e.items[0]).lower()
            rank = _nspec(e.items[1]) if e.items[1] is not None else rank_attr
            out[name] = (ty, kind, rank, intent)
    return out


def _nspec(spec):
    items = getattr(spec, "items", None)
    return len(items) if items is not None else 1


# ---------------------------------------------------------------------------------------------
def stub_sigs(stub_text, subname):
    from fparser.two import Fortran2003 as F
    from fparser.two.utils import walk
    tree = _parse(stub_text)
    for sub in walk(tree, F.Subroutine_Subprogram):
        stmt = sub.content[0]
        if str(stmt.items[1]).lower() != subname.lower():
            continue
        dummies = [str(x).lower() for x in (stmt.items[2].items if stmt.items[2] is not None else [])]
        decl = _decls(sub)
        res = []
        for n in dummies:
            if n not in decl:
                res.append((n, "undeclared", "", 0, ""))
            else:
                res.append((n,) + decl[n])
        return res
    raise ValueError("stub subroutine not found")


def stub_sanity(stub_text, subname):
    """Cheap well-formedness clauses on the real stub: no dummy name occurs twice, every dummy is
    declared, every name used in an array bound is a dummy or a declared entity.  Returns a list of
    problem descriptions (empty = fine)."""
    from fparser.two import Fortran2003 as F
    from fparser.two.utils import walk
    tree = _parse(stub_text)
    problems = []
    for sub in walk(tree, F.Subroutine_Subprogram):
        stmt = sub.content[0]
        if str(stmt.items[1]).lower() != subname.lower():
            continue
        dummies = [str(x).lower() for x in (stmt.items[2].items if stmt.items[2] is not None else [])]
        dup = sorted({d for d in dummies if dummies.count(d) > 1})
        if dup:
            problems.append("duplicate dummy argument(s): " + ", ".join(dup))
        decl = _decls(sub)
        missing = [d for d in dummies if d not in decl]
        if missing:
            problems.append("undeclared dummy argument(s): " + ", ".join(missing))
        used = set()
        for d in walk(sub, F.Type_Declaration_Stmt):
            _, attrs, ents = d.items
            specs = [a.items[1] for a in (attrs.items if attrs is not None else [])
                     if isinstance(a, F.Dimension_Attr_Spec)]
            specs += [e.items[1] for e in ents.items if e.items[1] is not None]
            for sp in specs:
                if isinstance(sp, F.Name):
                    used.add(str(sp).lower())
                used |= {str(n).lower() for n in walk(sp, F.Name)}
        unknown = sorted(n for n in used if n not in decl)
        if unknown:
            problems.append("array bound uses name(s) that are neither dummies nor declared: " + ", ".join(unknown))
        return problems
    return ["stub subroutine not found"]


# components of infrastructure derived types that the PSy layer passes directly (trusted facts about
# the LFRic infrastructure, checked against the bundled infrastructure stubs in the thorough tier)
COMPONENT_TYPES = {"ncell_3d": ("integer", "i_def", 0)}


def call_sigs(psy_text, subname):
    from fparser.two import Fortran2003 as F
    from fparser.two.utils import walk
    tree = _parse(psy_text)
    for sub in walk(tree, F.Subroutine_Subprogram):
        calls = [c for c in walk(sub, F.Call_Stmt) if str(c.items[0]).lower() == subname.lower()]
        if not calls:
            continue
        decl = _decls(sub)
        call = calls[0]
        actuals = call.items[1].items if call.items[1] is not None else []
        res = []
        for a in actuals:
            txt = str(a).replace(" ", "")
            if isinstance(a, F.Name):
                ty, kind, rank, _ = decl.get(str(a).lower(), ("undeclared", "", 0, ""))
                res.append((txt, ty, kind, rank))
            elif isinstance(a, F.Part_Ref):
                ty, kind, rank, _ = decl.get(str(a.items[0]).lower(), ("undeclared", "", 0, ""))
                subs = a.items[1].items
                nsec = sum(1 for s in subs if isinstance(s, F.Subscript_Triplet))
                if len(subs) != rank:
                    res.append((txt, "rank-mismatch", kind, nsec))
                else:
                    res.append((txt, ty, kind, nsec))
            elif isinstance(a, F.Data_Ref):
                comp = str(a.items[-1]).lower()
                ty, kind, rank = COMPONENT_TYPES.get(comp, ("unknown-component", "", 0))
                res.append((txt, ty, kind, rank))
            else:
                res.append((txt, "expression", "", 0))
        return res
    raise ValueError("kernel call not found in PSy layer")


# ---------------------------------------------------------------------------------------------
def _setup():
    from psyclone.configuration import Config
    Config.get().api = API


def run_real(md, keep=None):
    """Returns {"stub": [...]|None, "stub_err": str|None, "call": [...]|None, "call_err": str|None,
    "stub_text", "psy_text"}."""
    import fparser
    from psyclone.parse.algorithm import parse
    from psyclone.psyGen import PSyFactory
    from psyclone.gen_kernel_stub import generate
    _setup()
    d = keep or tempfile.mkdtemp(prefix="c21-", dir=os.environ.get("TMPDIR"))
    res = {"stub": None, "stub_err": None, "call": None, "call_err": None,
           "stub_text": None, "psy_text": None, "stub_problems": [],
           "acc": None, "acc_err": None}
    try:
        kfile = os.path.join(d, md["name"] + "_mod.f90")
        with open(kfile, "w") as f:
            f.write(G.kernel_source(md))
        afile = os.path.join(d, "alg.f90")
        with open(afile, "w") as f:
            f.write(G.alg_source(md))
        sub = md["name"] + "_code"
        try:
            text = str(generate(kfile, api=API))
            res["stub_text"] = text
            res["stub"] = stub_sigs(text, sub)
            res["stub_problems"] = stub_sanity(text, sub)
        except Exception as e:  # noqa: BLE001  (refusals of the real code are data here)
            res["stub_err"] = type(e).__name__ + ": " + str(e)[:200]
        try:
            _setup()
            fparser.one.parsefortran.FortranParser.cache.clear()
            _, info = parse(afile, api=API, kernel_paths=[d])
            psy = PSyFactory(API, distributed_memory=False).create(info)
            text = str(psy.gen)
            res["psy_text"] = text
            res["call"] = call_sigs(text, sub)
            try:
                from psyclone.domain.lfric import KernCallAccArgList
                kern = psy.invokes.invoke_list[0].schedule.coded_kernels()[0]
                acc = KernCallAccArgList(kern)
                acc.generate()
                res["acc"] = [str(x).replace(" ", "") for x in acc.arglist]
            except Exception as e:  # noqa: BLE001
                res["acc_err"] = type(e).__name__ + ": " + str(e)[:200]
        except Exception as e:  # noqa: BLE001
            res["call_err"] = type(e).__name__ + ": " + str(e)[:200]
    finally:
        if not keep:
            shutil.rmtree(d, ignore_errors=True)
    return res


def compare(stub, call):
    """THE PROPERTY on the real code: position-by-position (count, type, kind, rank).
    Returns None or a description of the first difference."""
    if len(stub) != len(call):
        first = next((i for i, (s, c) in enumerate(zip(stub, call)) if tuple(s[1:4]) != tuple(c[1:4])),
                     min(len(stub), len(call)))
        return (f"argument count differs: stub has {len(stub)}, call passes {len(call)}; "
                f"first difference at position {first + 1}")
    for i, (s, c) in enumerate(zip(stub, call)):
        if tuple(s[1:4]) != tuple(c[1:4]):
            return (f"position {i + 1}: stub dummy {s[0]} is {s[1]}({s[2]}) rank {s[3]} but the call passes "
                    f"{c[0]} which is {c[1]}({c[2]}) rank {c[3]}")
    return None
