"""C24 thorough tier — gfortran interface check of both generated layers together.

The bundled LFRic infrastructure stubs are built once (out of tree, in a scratch directory), then for a sample of
accepted files the used kernels, the generated PSy module and the generated algorithm layer are compiled with
`gfortran -fsyntax-only` (module files are still written), so that gfortran checks the explicit interface of every
`call invoke_x(...)` against the PSy routine: number, type, kind and rank of every actual/dummy pair, duplicate
dummies, undeclared actual arguments (the algorithm unit has IMPLICIT NONE).
"""
import os
import re
import shutil
import subprocess
import tempfile

import common
from props import c24_gen as G

# messages that are about the agreement of the two argument lists
RELEVANT = re.compile(r"Duplicate symbol|Type mismatch in argument|Rank mismatch in argument|has no IMPLICIT type|"
                      r"More actual than formal|Missing actual argument|already has basic type|"
                      r"Symbol '\w+' at \(1\) already|is not a member of|Unexpected junk in formal argument", re.I)


def holder_mod():
    """derived type with every generated leaf name as a component, two levels of nesting"""
    leaves = ["type(field_type) :: " + ", ".join(G.FIELD + G.FIELD_TRICKY + [n + "(4)" for n in G.FIELD_ARR]
                                                   + [n + "(3)" for n in G.VEC]),
              "real(r_def) :: " + ", ".join(G.RSCAL + [n + "(4)" for n in G.RSCAL_ARR]),
              "integer(i_def) :: " + ", ".join(G.ISCAL + G.DIRN + [n + "(4)" for n in G.ISCAL_ARR]),
              "type(quadrature_xyoz_type) :: " + ", ".join(G.QR + [n + "(4)" for n in G.QR_ARR]),
              "type(operator_type) :: " + ", ".join(G.OP)]
    out = ["module holder_mod", "use constants_mod, only: i_def, r_def", "use field_mod, only: field_type",
           "use operator_mod, only: operator_type", "use quadrature_xyoz_mod, only: quadrature_xyoz_type",
           "implicit none", "type :: inner_type"] + leaves + ["end type inner_type", "type :: mid_type"] + leaves
    out += ["type(inner_type) :: " + ", ".join(G.CONT), "end type mid_type", "type :: holder_type"] + leaves
    out += ["type(mid_type) :: " + ", ".join(G.CONT), "end type holder_type", "end module holder_mod"]
    return "\n".join(out) + "\n"


class Fexec:
    def __init__(self, kdir):
        self.dir = tempfile.mkdtemp(prefix="c24f_")
        self.kdir = kdir
        infra = os.path.join(common.REPO, "src", "psyclone", "tests", "test_files", "dynamo0p3", "infrastructure")
        b = os.path.join(self.dir, "infra")
        os.makedirs(b)
        rc, out = common._run(["make", "-f", os.path.join(infra, "Makefile"), "-j", "8", "F90FLAGS=-O0"], cwd=b, timeout=2400)
        if rc != 0:
            raise common.Infra("building the LFRic infrastructure stubs failed:\n" + out[-1500:])
        self.inc = []
        for d in sorted(os.listdir(b)):
            if os.path.isdir(os.path.join(b, d)):
                self.inc += ["-I", os.path.join(b, d)]
        self.mods = os.path.join(self.dir, "mods")
        os.makedirs(self.mods)
        self._compile_text("holder_mod.f90", holder_mod(), must=True)
        for f, _, _ in G.KERNELS:
            self._compile_file(os.path.join(kdir, f), must=True)

    def close(self):
        shutil.rmtree(self.dir, ignore_errors=True)

    def _gf(self, path):
        cmd = ["gfortran", "-fsyntax-only", "-ffree-line-length-none", "-J", self.mods, "-I", self.mods] + self.inc + [path]
        return common._run(cmd, cwd=self.mods, timeout=600)

    def _compile_file(self, path, must=False):
        rc, out = self._gf(path)
        if rc != 0 and must:
            raise common.Infra(f"gfortran cannot compile support file {path}:\n{out[-1500:]}")
        return rc, out

    def _compile_text(self, name, text, must=False):
        p = os.path.join(self.dir, name)
        with open(p, "w") as f:
            f.write(text)
        return self._compile_file(p, must)

    def check(self, alg_text, psy_text):
        """[(layer, gfortran message)] for the messages that concern the argument lists; other errors are returned
        under layer 'other-…' (not a C24 matter: e.g. run-time-check code, unsupported stub features)."""
        res = []
        rc, out = self._compile_text("psy.f90", psy_text)
        ok_psy = rc == 0
        res += self._pick("psy", out)
        if ok_psy:
            rc, out = self._compile_text("alg.f90", alg_text)
            res += self._pick("alg", out)
        return res

    @staticmethod
    def _pick(layer, out):
        res = []
        for m in re.finditer(r"Error: ([^\n]*)", out):
            msg = m.group(1)
            res.append((layer if RELEVANT.search(msg) else "other-" + layer, msg))
        return res
