"""C09 helpers: loop generator, real OpenMP transformation pipeline, gfortran -fopenmp oracle."""
import copy
import os
import re
import shutil
import subprocess
import tempfile

import common
import minif

A_LO, A_HI = -5, 25
M_LO, M_HI = -2, 12
SCALARS = ["t", "s", "u", "n"]
LOOPVARS = ["i", "j"]
ARRAYS1 = ["a", "b", "c"]
ARRAYS2 = ["m"]
ALLVARS = LOOPVARS + SCALARS + ARRAYS1 + ARRAYS2          # fixed id order: i=0 j=1 t=2 s=3 u=4 n=5 a=6 b=7 c=8 m=9

THREADS = ["1", "2", "3", "8"]
SCHEDS = ["static", "dynamic,1", "guided"]


def fmod(a, b):
    """Fortran MOD (sign of the dividend)"""
    r = abs(a) % abs(b)
    return r if a >= 0 else -r


# ---------------------------------------------------------------------------------------------
# test programs
class Case:
    """header: loop header text ("do i = lo, hi[, st]"), body: list of lines, init: dict of initial values"""

    def __init__(self, header, body, scal, arr1, mk, tag=""):
        self.header, self.body, self.scal, self.arr1, self.mk, self.tag = header, body, scal, arr1, mk, tag

    def to_json(self):
        return {"header": self.header, "body": self.body, "scal": self.scal, "arr1": self.arr1, "mk": self.mk,
                "tag": self.tag}

    @staticmethod
    def from_json(d):
        return Case(d["header"], d["body"], d["scal"], {k: list(v) for k, v in d["arr1"].items()}, list(d["mk"]),
                    d.get("tag", ""))

    def mval(self, i, j):
        k, c, md = self.mk
        return fmod(i * k + j * c, md)

    def source(self):
        L = ["program p", "  integer :: " + ", ".join(LOOPVARS + SCALARS + ["ii", "jj"])]
        for a in ARRAYS1:
            L.append(f"  integer, dimension({A_LO}:{A_HI}) :: {a}")
        L.append(f"  integer, dimension({M_LO}:{M_HI},{M_LO}:{M_HI}) :: m")
        for v in LOOPVARS + SCALARS:
            L.append(f"  {v} = {self.scal[v]}")
        for a in ARRAYS1:
            vals = self.arr1[a]
            half = len(vals) // 2
            L.append(f"  {a}({A_LO}:{A_LO + half - 1}) = (/ " + ", ".join(map(str, vals[:half])) + " /)")
            L.append(f"  {a}({A_LO + half}:{A_HI}) = (/ " + ", ".join(map(str, vals[half:])) + " /)")
        k, c, md = self.mk
        L += [f"  do jj = {M_LO}, {M_HI}", f"    do ii = {M_LO}, {M_HI}", f"      m(ii, jj) = mod(ii * {k} + jj * {c}, {md})",
              "    enddo", "  enddo"]
        L.append("  " + self.header)
        L += ["    " + b for b in self.body]
        L.append("  enddo")
        for v in LOOPVARS + SCALARS + ARRAYS1 + ARRAYS2:
            L.append(f"  print *, {v}")
        L.append("end program p")
        return "\n".join(L) + "\n"

    def bindings(self):
        b = [((ALLVARS.index(v),), self.scal[v]) for v in LOOPVARS + SCALARS]
        for a in ARRAYS1:
            b += [((ALLVARS.index(a), A_LO + k), val) for k, val in enumerate(self.arr1[a])]
        mid = ALLVARS.index("m")
        b += [((mid, i, j), self.mval(i, j)) for j in range(M_LO, M_HI + 1) for i in range(M_LO, M_HI + 1)]
        return b

    def queries(self):
        """same order as the print statements; returns (list of locs, {var: (start, end)})"""
        q, span = [], {}
        for v in LOOPVARS + SCALARS:
            span[v] = (len(q), len(q) + 1)
            q.append((ALLVARS.index(v),))
        for a in ARRAYS1:
            span[a] = (len(q), len(q) + A_HI - A_LO + 1)
            q += [(ALLVARS.index(a), i) for i in range(A_LO, A_HI + 1)]
        span["m"] = (len(q), len(q) + (M_HI - M_LO + 1) ** 2)
        q += [(ALLVARS.index("m"), i, j) for j in range(M_LO, M_HI + 1) for i in range(M_LO, M_HI + 1)]
        return q, span


def family_cases(full):
    scal = {"i": 0, "j": 0, "t": -1, "s": 2, "u": 3, "n": 3}
    arr1 = {a: [((k * 5 + 3 * q) % 9) - 1 for k in range(A_HI - A_LO + 1)] for q, a in enumerate(ARRAYS1)}
    return [Case(h, b, scal, arr1, [3, 5, 11], tag) for h, b, tag in family(full)]


def names():
    n = minif.Names()
    for v in ALLVARS:
        n.id(v)
    return n


def wavefront(di, dw, dr, order, kind="wr", trips=4):
    """Nest with the OUTER loop parallelised over the rank-2 array m: the parallel variable i has distance `di`
    between the write and the read (kind "wr") / second write (kind "ww"); the inner variable j appears with
    constant offsets dw / dr.  order "ji" = m(j.., i..), "ij" = m(i.., j..)."""
    def off(v, d):
        return v if d == 0 else f"{v}{'+' if d > 0 else '-'}{abs(d)}"

    def ref(dj, dii):
        return f"m({off('j', dj)}, {off('i', dii)})" if order == "ji" else f"m({off('i', dii)}, {off('j', dj)})"
    if kind == "wr":
        inner = [f"  {ref(dw, 0)} = {ref(dr, di)} + b(j)"]
    else:
        inner = [f"  {ref(dw, 0)} = b(j) + i", f"  {ref(dr, di)} = a(j) - i"]
    return f"do i = 2, {1 + trips}", ["do j = 1, 3"] + inner + ["enddo"], f"family:{kind}:{order}:di={di}:dw={dw}:dr={dr}"


def _perms(xs):
    if len(xs) <= 1:
        return [list(xs)]
    return [[xs[k]] + p for k in range(len(xs)) for p in _perms(xs[:k] + xs[k + 1:])]


def order_family(full):
    """Multi-statement bodies over rank-1 arrays, EVERY order of the statements: one statement writes a(i), the
    other access to `a` (a read at distance d in the parallel variable, or a second write) sits in ANOTHER statement —
    directly, through a scalar temporary, inside an if-branch, inside an inner loop — so that the (write, other)
    pair is met with the other access both before and after the write in the access sequence.
    -> list of (header, body, tag)"""
    def off(d):
        return "i" if d == 0 else f"i{'+' if d > 0 else '-'}{abs(d)}"
    dists = (-2, -1, 0, 1, 2) if full else (-1, 0, 1)
    out = []
    for d in dists:
        A = f"a({off(d)})"
        shapes = {
            # name: list of statements (each a list of lines)
            "direct": [["a(i) = c(i) + i"], [f"b(i) = {A} * 2"]],
            "temp": [[f"t = {A}"], ["b(i) = t + 1"], ["a(i) = c(i) + i"]],
            "temp-to-write": [[f"t = {A} + c(i)"], ["a(i) = t"]],
            "read-in-if": [["a(i) = c(i) + i"], ["if (c(i) > 2) then", f"  b(i) = {A}", "endif"]],
            "write-in-if": [["if (c(i) > 2) then", "  a(i) = c(i) + i", "endif"], [f"b(i) = {A} * 2"]],
            "read-in-loop": [["a(i) = c(i) + i"], ["do j = 1, 2", f"  m(j, i) = {A} + j", "enddo"]],
            "write-in-loop": [["do j = 1, 2", "  a(i) = c(i) + j", "enddo"], [f"b(i) = {A} * 2"]],
            "three": [["a(i) = c(i) + i"], [f"b(i) = {A} * 2"], ["c(i) = b(i) + 1"]],
        }
        # write and other access in the two branches of ONE IfBlock (never in the same iteration, but in different ones)
        shapes["branches"] = [["if (c(i) > 2) then", "  a(i) = c(i) + i", "else", f"  b(i) = {A}", "endif"]]
        shapes["branches-swapped"] = [["if (c(i) > 2) then", f"  b(i) = {A}", "else", "  a(i) = c(i) + i", "endif"]]
        # two writes to different rows of m; the read meets only ONE of them (row k): every write must be an outer access
        for k in ((1, 2) if full else (2,)):
            shapes[f"second-write:k={k}"] = [["m(1, i) = b(i)"], ["m(2, i) = c(i)"], [f"a(i) = m({k}, {off(d)}) + 1"]]
        if d != 0:
            shapes["write-write"] = [["a(i) = c(i)"], [f"{A} = b(i)"]]
            shapes["write-write-if"] = [["a(i) = c(i)"], ["if (c(i) > 2) then", f"  {A} = b(i)", "endif"]]
        if not full:
            shapes.pop("three")
        for name, stmts in shapes.items():
            for p in _perms(list(range(len(stmts)))):
                body = [ln for k in p for ln in stmts[k]]
                out.append(("do i = 2, 5", body, f"family:order:{name}:d={d}:perm={''.join(map(str, p))}"))
    return out


def family(full):
    """the systematic family run first in every run: statement-order bodies (`order_family`), then the nests
    (quick: a 76-member subset, thorough: all 126)"""
    out = order_family(full)
    for order in ("ji", "ij"):
        for di in (-2, -1, 0, 1, 2):
            for dw in ((-1, 0, 1) if full else (0, 1)):
                for dr in (-1, 0, 1):
                    out.append(wavefront(di, dw, dr, order, "wr"))
        for di in ((-2, -1, 0, 1, 2) if full else (-1, 0, 1, 2)):
            for dr in ((-1, 0, 1) if full else (0, 1)):
                if not (di == 0 and dr == 0):
                    out.append(wavefront(di, 0, dr, order, "ww"))
    return out


class Gen:
    """Seeded generator of candidate loops: temporaries written unconditionally / conditionally,
    guarded uses, reduction-like patterns, written-once scalars, nested loops (also zero-trip),
    inner loop variables used outside their loop, shifted / divided / MOD subscripts."""

    def __init__(self, rng):
        self.r = rng

    def init(self):
        r = self.r
        scal = {v: r.randint(-3, 6) for v in LOOPVARS + SCALARS}
        scal["n"] = r.randint(1, 4)
        arr1 = {a: [r.randint(-2, 7) for _ in range(A_LO, A_HI + 1)] for a in ARRAYS1}
        mk = [r.randint(1, 5), r.randint(1, 5), r.choice([7, 11, 13])]
        return scal, arr1, mk

    def header(self):
        r = self.r
        x = r.random()
        if x < 0.55:
            lo = r.randint(0, 2)
            return f"do i = {lo}, {lo + r.randint(1, 4)}"
        if x < 0.70:
            lo = r.randint(0, 2)
            return f"do i = {lo}, {lo + r.randint(2, 7)}, 2"
        if x < 0.80:
            hi = r.randint(0, 2)
            return f"do i = {hi + r.randint(1, 4)}, {hi}, -1"
        if x < 0.86:
            return "do i = 1, n"
        if x < 0.90:
            return f"do i = {r.randint(3, 5)}, 2"          # zero trips
        if x < 0.94:
            return f"do i = 2, {r.randint(7, 9)}"          # more trips than the exhaustive schedule bound
        return "do i = 3, 3"

    def sub(self, v="i", kinds=None):
        r = self.r
        x = r.random()
        if x < 0.62:
            return v
        if x < 0.80:
            c = r.choice([-2, -1, 1, 2])
            return f"{v}{'+' if c > 0 else '-'}{abs(c)}"
        if x < 0.86:
            return f"{v}/2+1"
        if x < 0.90:
            return f"mod({v}, 3)"
        if x < 0.94:
            return f"2*{v}"
        if x < 0.97:
            return str(r.randint(0, 4))
        return f"b({v})"

    def ref(self, scalars, live):
        r = self.r
        x = r.random()
        if x < 0.30 and scalars:
            return r.choice(scalars)
        if x < 0.40:
            return r.choice(live)
        if x < 0.9:
            return f"{r.choice(ARRAYS1)}({self.sub(r.choice(live))})"
        vs = live if len(live) > 1 else live + ["1"]
        return f"m({vs[0]}, {vs[-1]})"

    def expr(self, scalars, live, depth=0):
        r = self.r
        if depth >= 2 or r.random() < 0.45:
            return self.ref(scalars, live) if r.random() < 0.8 else str(r.randint(0, 9))
        op = r.choice(["+", "-", "+", "*", "max"])
        a, b = self.expr(scalars, live, depth + 1), self.expr(scalars, live, depth + 1)
        return f"max({a}, {b})" if op == "max" else f"({a} {op} {b})"

    def cond(self, scalars, live):
        r = self.r
        return f"{self.ref(scalars[:1] if r.random() < 0.2 else [], live)} {r.choice(['>', '<', '>=', '/='])} {r.randint(0, 8)}"

    def stmt(self, scalars, live, depth):
        """one statement (list of lines)"""
        r = self.r
        x = r.random()
        if x < 0.30:                                    # scalar temporary write
            return [f"{r.choice(scalars)} = {self.expr(scalars if r.random() < 0.3 else [], live)}"]
        if x < 0.62:                                    # array write
            if len(live) > 1 and r.random() < 0.5:
                return [f"m({live[0]}, {live[1]}) = {self.expr(scalars, live)}"]
            return [f"{r.choice(ARRAYS1)}({self.sub(live[-1] if r.random() < 0.8 else live[0])}) = {self.expr(scalars, live)}"]
        if x < 0.82 and depth < 2:                      # if block
            out = [f"if ({self.cond(scalars, live)}) then"]
            for _ in range(r.randint(1, 2)):
                out += ["  " + ln for ln in self.stmt(scalars, live, depth + 1)]
            if r.random() < 0.35:
                out.append("else")
                out += ["  " + ln for ln in self.stmt(scalars, live, depth + 1)]
            out.append("endif")
            return out
        if "j" not in live and depth < 2:               # inner loop
            hi = r.choice(["2", "3", "n", "s", "a(i)"])
            out = [f"do j = 1, {hi}"]
            for _ in range(r.randint(1, 2)):
                out += ["  " + ln for ln in self.stmt(scalars, live + ["j"], depth + 1)]
            out.append("enddo")
            return out
        return [f"{r.choice(ARRAYS1)}({live[-1]}) = {self.expr(scalars, live)}"]

    def pattern(self):
        """targeted shapes"""
        r = self.r
        A, B, C = r.sample(ARRAYS1, 3)
        t, s = r.sample(["t", "s", "u"], 2)
        k = r.randint(0, 8)
        pats = [
            ("uncond-temp", [f"{t} = {B}(i) + {k}", f"{C}(i) = {t} * 2"]),
            ("cond-temp", [f"if ({B}(i) > {k}) then", f"  {t} = {B}(i)", "endif", f"{C}(i) = {t}"]),
            ("cond-temp-guarded", [f"if ({B}(i) > {k}) then", f"  {t} = {B}(i)", f"  {C}(i) = {t}", "endif"]),
            ("ifelse-temp", [f"if ({B}(i) > {k}) then", f"  {t} = {B}(i)", "else", f"  {t} = {k}", "endif", f"{C}(i) = {t}"]),
            ("reduction", [f"{s} = {s} + {A}(i)"]),
            ("read-then-write", [f"{C}(i) = {t}", f"{t} = {B}(i)"]),
            ("written-once", [f"{t} = {B}(i)", f"{C}(i) = {A}(i) + 1"]),
            ("written-once-cond", [f"if ({B}(i) > {k}) then", f"  {t} = i", "endif"]),
            ("nested-temp", ["do j = 1, 3", f"  {t} = {B}(j) + i", f"  m(i, j) = {t}", "enddo"]),
            ("inner-var-before", [f"{C}(i) = j", "do j = 1, 2", f"  m(i, j) = {B}(j)", "enddo"]),
            ("inner-var-after", ["do j = 1, 2", f"  m(i, j) = {B}(j)", "enddo", f"{C}(i) = j"]),
            ("zero-trip-inner-temp", [f"do j = 1, {B}(i) - {k}", f"  {t} = {A}(j)", "enddo", f"{C}(i) = {t}"]),
            ("two-temps", [f"{t} = {A}(i)", f"{s} = {t} + {B}(i)", f"{C}(i) = {s} - {t}"]),
            ("temp-chain-cond", [f"{t} = {A}(i)", f"if ({t} > {k}) then", f"  {s} = {t}", "endif", f"{C}(i) = {t}"]),
            ("shift-dep", [f"{A}(i) = {A}(i-1) + 1"]),
            ("self-update", [f"{A}(i) = {A}(i) + {B}(i)"]),
            ("intdiv-subscript", [f"{A}(i/2+1) = {B}(i)"]),
            ("bound-scalar-written", [f"{t} = {B}(i)", f"{C}(i) = {t} + n"]),
        ]
        if r.random() < 0.25:           # nest over the rank-2 array with distances in the parallel / inner variable
            _, body, tag = wavefront(r.choice([-2, -1, -1, 0, 1, 1, 2]), r.choice([-1, 0, 1]), r.choice([-1, 0, 1]),
                                     r.choice(["ji", "ij"]), r.choice(["wr", "wr", "ww"]))
            return tag.replace("family:", "nest:"), body
        return r.choice(pats)

    def case(self):
        r = self.r
        scal, arr1, mk = self.init()
        header = self.header()
        if r.random() < 0.45:
            tag, body = self.pattern()
            if r.random() < 0.3:
                body = body + self.stmt(["t", "s", "u"], ["i"], 0)
                tag += "+"
        else:
            tag = "random"
            scalars = r.sample(["t", "s", "u"], r.randint(1, 2))
            body = []
            for _ in range(r.randint(1, 4)):
                body += self.stmt(scalars, ["i"], 0)
        if header == "do i = 1, n" and any(re.match(r"\s*n\s*=", b) for b in body):
            header = "do i = 1, 3"
        return Case(header, body, scal, arr1, mk, tag)


# ---------------------------------------------------------------------------------------------
# the real code
def transform(src, mode, force=False, user_opts=None):
    """Apply the real OpenMP transformation(s) to the last top-level loop of the program.
    Returns dict(status, message, text, private, firstprivate, loop_sexp).
    `user_opts`: the CALLER's options dict (the same object is handed to every transformation, as an
    optimisation script does); res["opts_mutated"] tells whether a call changed it."""
    from psyclone.psyir.backend.fortran import FortranWriter
    from psyclone.psyir.nodes import Loop, Routine
    from psyclone.psyir.transformations import TransformationError
    from psyclone.transformations import OMPLoopTrans, OMPParallelLoopTrans, OMPParallelTrans
    from psyclone.errors import GenerationError
    from psyclone.psyir.backend.visitor import VisitorError
    psyir, routine = minif.parse_program(src)
    loop = [c for c in routine.children if isinstance(c, Loop)][-1]
    res = {"status": None, "message": "", "text": None, "private": None, "firstprivate": None}
    try:
        res["loop_sexp"] = minif.export_stmt(loop, names())
    except minif.Unsupported as e:
        raise common.Infra("exporter cannot handle generated loop: " + str(e))
    opts = {"force": True} if force else user_opts
    before = copy.deepcopy(user_opts) if (user_opts is not None and not force) else None
    try:
        return _transform(psyir, loop, mode, opts, res)
    finally:
        if before is not None:
            res["opts_before"], res["opts_after"] = before, copy.deepcopy(user_opts)
            res["opts_mutated"] = before != user_opts


def _transform(psyir, loop, mode, opts, res):
    from psyclone.psyir.backend.fortran import FortranWriter
    from psyclone.psyir.transformations import TransformationError
    from psyclone.transformations import OMPLoopTrans, OMPParallelLoopTrans, OMPParallelTrans
    from psyclone.errors import GenerationError
    from psyclone.psyir.backend.visitor import VisitorError
    try:
        if mode == "paralleldo":
            OMPParallelLoopTrans(omp_schedule="runtime").apply(loop, opts)
        else:
            OMPLoopTrans(omp_schedule="runtime").apply(loop, opts)
            OMPParallelTrans().apply(loop.parent.parent, opts)
    except TransformationError as e:
        res["status"], res["message"] = "refused", str(e.value)
        return res
    except NotImplementedError as e:       # e.g. `b(b(i)) = ...`: the access analysis gives up
        res["status"], res["message"] = "refused", "NotImplementedError: " + str(e)
        return res
    try:
        text = FortranWriter()(psyir)
    except (GenerationError, VisitorError) as e:
        res["status"], res["message"] = "generation-error", str(e)
        return res
    except NotImplementedError as e:
        res["status"], res["message"] = "refused", "NotImplementedError: " + str(e)
        return res
    res["status"], res["text"] = "accepted", text
    dirs = [ln for ln in text.splitlines() if ln.strip().lower().startswith("!$omp parallel")]
    if len(dirs) != 1:
        raise common.Infra("expected exactly one parallel directive:\n" + text)
    d = dirs[0].lower()
    m = re.search(r"(?<!first)private\(([^)]*)\)", d)
    res["private"] = sorted(x.strip() for x in m.group(1).split(",")) if m else []
    m = re.search(r"firstprivate\(([^)]*)\)", d)
    res["firstprivate"] = sorted(x.strip() for x in m.group(1).split(",")) if m else []
    res["directive"] = dirs[0].strip()
    return res


# ---------------------------------------------------------------------------------------------
# gfortran
class Exe:
    """compiled program in a scratch directory"""

    def __init__(self, src, flags=()):
        if shutil.which("gfortran") is None:
            raise common.Infra("gfortran not available")
        self.d = tempfile.mkdtemp(prefix="psyverif-c09-")
        with open(os.path.join(self.d, "p.f90"), "w") as f:
            f.write(src)
        try:
            p = subprocess.run(["gfortran", "-fimplicit-none", "-O0", "-ftrapv", "-fcheck=bounds"] + list(flags) + ["p.f90", "-o", "p.x"],
                               cwd=self.d, stdout=subprocess.PIPE, stderr=subprocess.STDOUT, text=True, timeout=600)
        except subprocess.TimeoutExpired:
            shutil.rmtree(self.d, ignore_errors=True)
            raise common.Infra("gfortran compilation timed out (machine overloaded?)")
        self.ok, self.log = p.returncode == 0, p.stdout

    def run(self, env=None, timeout=120):
        e = dict(os.environ)
        e.update(env or {})
        try:
            q = subprocess.run(["./p.x"], cwd=self.d, stdout=subprocess.PIPE, stderr=subprocess.STDOUT, text=True,
                               timeout=timeout, env=e)
        except subprocess.TimeoutExpired:
            return "timeout", ""
        return ("ok" if q.returncode == 0 else "run-error"), q.stdout

    def close(self):
        shutil.rmtree(self.d, ignore_errors=True)


def parse_out(out):
    try:
        return [int(t) for t in out.split()]
    except ValueError:
        return None


def omp_runs(text, reps, threads=THREADS, scheds=SCHEDS):
    """Compile the OpenMP program and run it under every (threads, schedule) combination `reps` times.
    Yields (env, status, values)."""
    exe = Exe(text, ["-fopenmp"])
    try:
        if not exe.ok:
            yield None, "compile-error", exe.log
            return
        for th in threads:
            for sc in scheds:
                env = {"OMP_NUM_THREADS": th, "OMP_SCHEDULE": sc, "OMP_DYNAMIC": "false",
                       "OMP_WAIT_POLICY": "passive", "GOMP_SPINCOUNT": "0"}
                for _ in range(reps):
                    st, out = exe.run(env)
                    yield env, st, (parse_out(out) if st == "ok" else out)
    finally:
        exe.close()


def serial_run(src):
    exe = Exe(src)
    try:
        if not exe.ok:
            return "compile-error", exe.log
        st, out = exe.run()
        return st, (parse_out(out) if st == "ok" else out)
    finally:
        exe.close()


# ---------------------------------------------------------------------------------------------
# script-like histories: ONE options dict handed to a sequence of OpenMP transformations
_CACHE = {}
PRELUDE_STEPS = ["lfric_pdo", "lfric_do", "lfric_validate", "gocean_pdo", "gocean_do", "generic_pdo", "generic_do"]
OPTS0 = [{"reprod": False}, {"sequential": False}, {"force": False}, {"reprod": False, "script_tag": "x"}, {"collapse": None}]


def _invoke(api):
    """fresh schedule of a small invoke; the algorithm file is parsed once per process"""
    from psyclone.configuration import Config
    from psyclone.parse.algorithm import parse
    from psyclone.psyGen import PSyFactory
    Config.get().api = api
    if api not in _CACHE:
        rel = ("dynamo0p3/1_single_invoke_w3.f90" if api == "dynamo0.3" else "gocean1p0/single_invoke.f90")
        _, _CACHE[api] = parse(os.path.join(common.REPO, "src", "psyclone", "tests", "test_files", rel), api=api)
    return PSyFactory(api, distributed_memory=False).create(_CACHE[api]).invokes.invoke_list[0].schedule


def prelude_step(name, opts):
    """Run one transformation of another API (or a generic one on a trivial loop) with the caller's dict.
    -> "ok" / "refused" / "error:<type>" """
    from psyclone.configuration import Config
    from psyclone.psyir.nodes import Loop
    from psyclone.psyir.transformations import TransformationError
    from psyclone import transformations as T
    cfg = Config.get()
    old_api = cfg._api
    try:
        if name.startswith("lfric"):
            loop = _invoke("dynamo0.3").walk(Loop)[0]
            if name == "lfric_pdo":
                T.DynamoOMPParallelLoopTrans().apply(loop, opts)
            elif name == "lfric_validate":
                T.DynamoOMPParallelLoopTrans().validate(loop, opts)
            else:
                T.Dynamo0p3OMPLoopTrans().apply(loop, opts)
                T.OMPParallelTrans().apply(loop.parent.parent, opts)
        elif name.startswith("gocean"):
            loop = _invoke("gocean1.0").walk(Loop)[0]
            if name == "gocean_pdo":
                T.GOceanOMPParallelLoopTrans().apply(loop, opts)
            else:
                T.GOceanOMPLoopTrans().apply(loop, opts)
                T.OMPParallelTrans().apply(loop.parent.parent, opts)
        else:
            _, routine = minif.parse_program("program q\n integer :: i\n integer, dimension(9) :: a, b\n"
                                             " do i = 1, 9\n  a(i) = b(i)\n enddo\nend program q\n")
            loop = routine.walk(Loop)[0]
            if name == "generic_pdo":
                T.OMPParallelLoopTrans().apply(loop, opts)
            else:
                T.OMPLoopTrans().apply(loop, opts)
                T.OMPParallelTrans().apply(loop.parent.parent, opts)
        return "ok"
    except TransformationError:
        return "refused"
    except Exception as e:      # noqa: BLE001 - recorded, never fatal for the history
        return "error:" + type(e).__name__
    finally:
        cfg._api = old_api


def run_prelude(steps, opts):
    """-> list of (step, outcome, dict-before, dict-after) ; the dict object `opts` is shared"""
    log = []
    for st in steps:
        before = copy.deepcopy(opts)
        out = prelude_step(st, opts)
        log.append({"step": st, "outcome": out, "before": before, "after": copy.deepcopy(opts), "mutated": before != opts})
    return log
