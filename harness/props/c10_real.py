"""C10 helpers working on the REAL PSyclone code: program generator, transformation
histories, abstraction PSyIR -> model forest, direct construction forest -> PSyIR,
validate_global_constraints sweep, FortranWriter outcome, gfortran oracle."""
import os
import shutil
import subprocess
import tempfile

import common  # noqa: F401  (sets sys.path / PSYCLONE_CONFIG)

LOOPDIRS = ("ompDo", "ompParallelDo", "ompTeamsDPD", "ompLoop", "accLoop")
# kinds carrying a number: collapse value (LOOPDIRS), loop dependence distance (loop), nowait (ompSingle)
NUMBERED = LOOPDIRS + ("loop", "ompSingle")
LEAVES = ("stmt", "astmt", "codeBlock", "ompTaskwait", "ompDeclareTarget", "accEnterData", "accUpdate", "accRoutine")
KINDS = ("stmt", "astmt", "codeBlock", "block", "loop", "ompParallel", "ompDo", "ompParallelDo", "ompTeamsDPD", "ompLoop",
         "ompSingle", "ompMaster", "ompTaskloop", "ompTask", "ompTaskwait", "ompTarget", "ompAtomic", "ompSimd",
         "ompDeclareTarget", "accParallel", "accKernels", "accData", "accLoop", "accAtomic", "accEnterData",
         "accUpdate", "accRoutine")


class Unmodelled(Exception):
    """The tree contains a node kind outside the modelled set."""


def _nodes():
    from psyclone.psyir import nodes
    return nodes


# ---------------------------------------------------------------- abstraction
def _exact_kind(node):
    n = _nodes()
    table = [(n.OMPTeamsDistributeParallelDoDirective, "ompTeamsDPD"), (n.DynamicOMPTaskDirective, "ompTask"),
             (n.OMPAtomicDirective, "ompAtomic"), (n.OMPSimdDirective, "ompSimd"),
             (n.OMPDeclareTargetDirective, "ompDeclareTarget"), (n.ACCAtomicDirective, "accAtomic"),
             (n.ACCUpdateDirective, "accUpdate"), (n.ACCRoutineDirective, "accRoutine"),
             (n.OMPParallelDoDirective, "ompParallelDo"), (n.OMPParallelDirective, "ompParallel"),
             (n.OMPDoDirective, "ompDo"), (n.OMPLoopDirective, "ompLoop"),
             (n.OMPSingleDirective, "ompSingle"), (n.OMPMasterDirective, "ompMaster"),
             (n.OMPTaskloopDirective, "ompTaskloop"), (n.OMPTaskwaitDirective, "ompTaskwait"),
             (n.OMPTargetDirective, "ompTarget"), (n.ACCParallelDirective, "accParallel"),
             (n.ACCKernelsDirective, "accKernels"), (n.ACCDataDirective, "accData"),
             (n.ACCLoopDirective, "accLoop"), (n.ACCEnterDataDirective, "accEnterData")]
    for cls, name in table:
        if type(node) is cls:
            return name
    return None


def abstract_list(children, loopvars=()):
    """Model forest (nested lists [kind, n, [children]]) of a list of statement nodes.
    loopvars: variable names of the enclosing loops, innermost first."""
    n = _nodes()
    out = []
    for node in children:
        if isinstance(node, n.Directive):
            kind = _exact_kind(node)
            if kind is None:
                raise Unmodelled(type(node).__name__)
            if isinstance(node, n.RegionDirective):
                c = 0
                if kind in LOOPDIRS:
                    c = node.collapse or 0
                if kind == "ompSingle":
                    c = 1 if node.nowait else 0
                out.append([kind, c, abstract_list(node.dir_body.children, loopvars)])
            else:
                out.append([kind, 0, []])
        elif isinstance(node, n.Loop):
            refs = set()
            for expr in (node.start_expr, node.stop_expr, node.step_expr):
                refs |= {r.name.lower() for r in expr.walk(n.Reference)}
            dep = 0
            for i, v in enumerate(loopvars):
                if v in refs:
                    dep = i + 1
                    break
            out.append(["loop", dep, abstract_list(node.loop_body.children,
                                                    (node.variable.name.lower(),) + tuple(loopvars))])
        elif isinstance(node, n.IfBlock):
            if node.else_body is not None:
                raise Unmodelled("IfBlock with else")
            out.append(["block", 0, abstract_list(node.if_body.children, loopvars)])
        elif isinstance(node, n.Assignment):
            out.append(["astmt" if atomic_form(node) else "stmt", 0, []])
        elif isinstance(node, n.Call):
            out.append(["stmt", 0, []])
        elif isinstance(node, n.CodeBlock) and node.structure == n.CodeBlock.Structure.STATEMENT:
            out.append(["codeBlock", 0, []])
        else:
            raise Unmodelled(type(node).__name__)
    return out


def atomic_form(assign):
    """Independent (syntactic) reading of OpenMP 4.5 section 2.13.6 / OpenACC 2.6 section 2.12 for an
    atomic update statement: scalar-valued `x = x op expr`, `x = expr op x` or `x = intr(..x..)` with
    op in + - * / .and. .or. .eqv. .neqv. and intr in max min iand ior ieor."""
    n = _nodes()
    lhs, rhs = assign.lhs, assign.rhs
    if isinstance(lhs, n.ArrayReference) and any(isinstance(i, n.Range) for i in lhs.indices):
        return False
    if not isinstance(lhs, (n.ArrayReference, n.Reference)) or isinstance(lhs, n.StructureReference):
        return False
    ops = n.BinaryOperation.Operator
    if isinstance(rhs, n.BinaryOperation):
        if rhs.operator not in (ops.ADD, ops.SUB, ops.MUL, ops.DIV, ops.AND, ops.OR, ops.EQV, ops.NEQV):
            return False
        return lhs == rhs.children[0] or lhs == rhs.children[1]
    if isinstance(rhs, n.IntrinsicCall):
        i = n.IntrinsicCall.Intrinsic
        return rhs.intrinsic in (i.MAX, i.MIN, i.IAND, i.IOR, i.IEOR) and any(lhs == a for a in rhs.children)
    return False


def abstract(routine):
    return abstract_list(routine.children)


def routines_of(root):
    """The routines of a tree in visitor order (the tree may itself be a Routine)."""
    return root.walk(_nodes().Routine)


def abstract_container(root):
    """Model `Container`: one forest per routine, in order."""
    return [abstract(r) for r in routines_of(root)]


def container_sx(forests):
    return "(C " + " ".join(to_sx(f) for f in forests) + ")"


def to_sx(forest):
    return "(" + " ".join("(%s %d %s)" % (k, c, to_sx(ch)[1:-1]) if ch else "(%s %d)" % (k, c)
                          for k, c, ch in forest) + ")"


def lean_term(forest):
    """Lean `Forest` term (uses the short names opened in Gen/Directives.lean)."""
    if not forest:
        return "nil"
    (k, c, ch), rest = forest[0], forest[1:]
    kind = "(%s %d)" % (k, c) if k in NUMBERED else k
    if k == "ompSingle":
        kind = "(ompSingle %s)" % ("true" if c else "false")
    return "(cons %s %s %s)" % (kind, lean_term(ch), lean_term(rest))


def size(forest):
    return sum(1 + size(ch) for _, _, ch in forest)


def kinds_in(forest, acc=None):
    acc = set() if acc is None else acc
    for k, _, ch in forest:
        acc.add(k)
        kinds_in(ch, acc)
    return acc


# ---------------------------------------------------------------- direct construction
def build_container(forests):
    """Real PSyIR Container (module) with one routine per forest, by direct node construction."""
    n = _nodes()
    from psyclone.psyir.symbols import SymbolTable
    return n.Container.create("m", SymbolTable(), [build(f, "s%d" % i) for i, f in enumerate(forests)])


def build(forest, name="s"):
    """Real PSyIR Routine for a model forest, by direct node construction (no transformations)."""
    n = _nodes()
    from psyclone.psyir.symbols import DataSymbol, INTEGER_TYPE, REAL_TYPE, ArrayType
    routine = n.Routine(name)
    tab = routine.symbol_table
    arr = DataSymbol("a", ArrayType(REAL_TYPE, [10]))
    tab.add(arr)
    ivars = []

    def var(depth):
        while len(ivars) <= depth:
            sym = DataSymbol("i%d" % len(ivars), INTEGER_TYPE)
            tab.add(sym)
            ivars.append(sym)
        return ivars[depth]

    def lit(v):
        return n.Literal(str(v), INTEGER_TYPE)

    def fill(sched, fs, depth):
        for f in fs:
            mk(sched, f, depth)

    def mk(sched, f, depth):
        """Create the node for f as the last child of sched, then fill its body (top-down, so that
        every node is attached to a scope when it is created)."""
        k, c, ch = f
        col = c if c else None
        if k == "stmt":
            sched.addchild(n.Assignment.create(n.ArrayReference.create(arr, [lit(1)]),
                                               n.Literal("1.0", REAL_TYPE)))
            return
        if k == "codeBlock":
            sched.addchild(_code_block())
            return
        if k == "block":
            node = n.IfBlock.create(n.BinaryOperation.create(n.BinaryOperation.Operator.GT,
                                                             n.ArrayReference.create(arr, [lit(1)]),
                                                             n.Literal("0.0", REAL_TYPE)), [])
            sched.addchild(node)
            fill(node.if_body, ch, depth)
            return
        if k == "loop":
            stop = lit(10) if c == 0 or c > depth else n.Reference(var(depth - c))
            node = n.Loop.create(var(depth), lit(1), stop, lit(1), [])
            sched.addchild(node)
            fill(node.loop_body, ch, depth + 1)
            return
        if k == "astmt":
            sched.addchild(n.Assignment.create(
                n.ArrayReference.create(arr, [lit(1)]),
                n.BinaryOperation.create(n.BinaryOperation.Operator.ADD, n.ArrayReference.create(arr, [lit(1)]),
                                         n.Literal("1.0", REAL_TYPE))))
            return
        if k == "ompTaskwait":
            sched.addchild(n.OMPTaskwaitDirective())
            return
        if k == "ompDeclareTarget":
            sched.addchild(n.OMPDeclareTargetDirective())
            return
        if k == "accRoutine":
            sched.addchild(n.ACCRoutineDirective())
            return
        if k == "accUpdate":
            from psyclone.core import Signature
            sched.addchild(n.ACCUpdateDirective([Signature("a")], "host"))
            return
        if k == "accEnterData":
            sched.addchild(n.ACCEnterDataDirective())
            return
        if k == "accData":
            node = n.ACCDataDirective(parent=sched)
            sched.children.append(node)
        else:
            node = {"ompParallel": lambda: n.OMPParallelDirective.create(),
                    "ompDo": lambda: n.OMPDoDirective(collapse=col),
                    "ompParallelDo": lambda: n.OMPParallelDoDirective(collapse=col),
                    "ompLoop": lambda: n.OMPLoopDirective(collapse=col),
                    "ompSingle": lambda: n.OMPSingleDirective(nowait=bool(c)),
                    "ompTeamsDPD": lambda: n.OMPTeamsDistributeParallelDoDirective(collapse=col),
                    "ompTask": lambda: n.DynamicOMPTaskDirective(),
                    "ompAtomic": lambda: n.OMPAtomicDirective(),
                    "ompSimd": lambda: n.OMPSimdDirective(),
                    "accAtomic": lambda: n.ACCAtomicDirective(),
                    "ompMaster": lambda: n.OMPMasterDirective(),
                    "ompTaskloop": lambda: n.OMPTaskloopDirective(),
                    "ompTarget": lambda: n.OMPTargetDirective(),
                    "accParallel": lambda: n.ACCParallelDirective(),
                    "accKernels": lambda: n.ACCKernelsDirective(),
                    "accLoop": lambda: n.ACCLoopDirective(collapse=col)}[k]()
            sched.addchild(node)
        fill(node.dir_body, ch, depth)

    fill(routine, forest, 0)
    return routine


_CB = []


def _code_block():
    """A fresh statement CodeBlock (`write(*,*) 1`), as the Fortran frontend creates it."""
    n = _nodes()
    if not _CB:
        _, routine = parse("subroutine cb()\n  write(*,*) 1\nend subroutine cb\n")
        _CB.append(routine.walk(n.CodeBlock)[0])
    return _CB[0].copy()


# ---------------------------------------------------------------- real outcomes
def validate_all(routine):
    """Run validate_global_constraints of every node of the tree (a routine or a whole container) in
    visitor (pre-)order."""
    from psyclone.errors import GenerationError
    n = _nodes()
    try:
        for node in routine.walk(n.Node):
            node.validate_global_constraints()
    except GenerationError:
        return "genError"
    except Exception as err:  # pylint: disable=broad-except
        return "crash:" + type(err).__name__
    return "accept"


def writer_outcome(root):
    """('accept', code) | ('genError', msg) | ('crash:<Type>', msg) for FortranWriter()(root)."""
    from psyclone.errors import GenerationError
    from psyclone.psyir.backend.fortran import FortranWriter
    from psyclone.psyir.backend.visitor import VisitorError
    try:
        return "accept", FortranWriter()(root)
    except (GenerationError, VisitorError) as err:
        # VisitorError: the visitor wraps ANY exception of the lowering step ("Failed to lower ...",
        # e.g. the GenerationError of ACCEnterDataDirective without compute regions): a clean refusal
        return "genError", str(err)[:300]
    except Exception as err:  # pylint: disable=broad-except
        return "crash:" + type(err).__name__, str(err)[:300]


def gfortran(code):
    """(ok, first error lines).  Full compile to an object: the OpenMP/OpenACC nesting diagnostics
    of gcc are issued by the middle end, -fsyntax-only does not run them."""
    exe = shutil.which("gfortran")
    if not exe:
        raise common.Infra("gfortran not found")
    d = tempfile.mkdtemp(prefix="c10gf")
    try:
        src = os.path.join(d, "x.f90")
        with open(src, "w") as f:
            f.write(code)
        try:
            p = subprocess.run([exe, "-fopenmp", "-fopenacc", "-c", "-J", d, "-o", os.path.join(d, "x.o"), src],
                               capture_output=True, text=True, timeout=120)
        except subprocess.TimeoutExpired as err:
            raise common.Infra("gfortran timeout: %s" % err)
        errs = [ln for ln in p.stderr.splitlines() if ln.startswith("Error") or "Error:" in ln]
        return p.returncode == 0, errs[:3]
    finally:
        shutil.rmtree(d, ignore_errors=True)


# ---------------------------------------------------------------- program generator
def gen_program(rng):
    """Small subroutine: 2..4 top-level items (loop nests of depth 1..3, perfect or not, some
    triangular; statements; if-blocks holding a nest)."""
    return gen_routine(rng, "s")


def gen_module(rng, nroutines=None):
    """Module with 1..3 subroutines (each as gen_program); a later routine sometimes calls an earlier
    one at its top level."""
    nr = nroutines or rng.choice([1, 2, 2, 2, 3])
    names = ["r%d" % i for i in range(nr)]
    subs = []
    for i, name in enumerate(names):
        subs.append(gen_routine(rng, name, callees=names[:i] if rng.random() < 0.3 else ()))
    body = "\n".join("  " + ln for sub in subs for ln in sub.rstrip("\n").split("\n"))
    return "module m\n  implicit none\ncontains\n%s\nend module m\n" % body


def gen_routine(rng, name, callees=()):
    lines = []
    counter = [0]

    def stmt(vs, ind):
        if rng.random() < 0.06:
            lines.append("%swrite(*,*) n" % ind)          # kept as a CodeBlock by the frontend
            return
        idx = [vs[i] if i < len(vs) else "1" for i in range(3)]
        rng.shuffle(idx)
        arr = rng.choice("ab")
        src = arr if rng.random() < 0.2 else "c"      # `x = x + k` is an atomic-form statement
        lines.append("%s%s(%s) = %s(%s) + %d.0" % (ind, arr, ",".join(idx), src, ",".join(idx), rng.randint(1, 9)))

    def nest(depth, vs, ind):
        counter[0] += 1
        v = "i%d_%d" % (len(vs) + 1, counter[0] % 3)
        v = "ijk"[len(vs)] + str(counter[0] % 3)
        hi = "n"
        if vs and rng.random() < 0.15:
            hi = rng.choice(vs)
        lines.append("%sdo %s = 1, %s" % (ind, v, hi))
        inner = vs + [v]
        if depth > 1:
            if rng.random() < 0.25:
                stmt(inner, ind + "  ")
            nest(depth - 1, inner, ind + "  ")
            if rng.random() < 0.25:
                stmt(inner, ind + "  ")
            if rng.random() < 0.1:
                nest(depth - 1, inner, ind + "  ")
        elif rng.random() < 0.04:
            pass                                        # empty loop body
        else:
            for _ in range(rng.choice([1, 1, 2])):
                stmt(inner, ind + "  ")
        lines.append("%send do" % ind)

    for _ in range(rng.randint(2, 4)):
        r = rng.random()
        if r < 0.65:
            nest(rng.choice([1, 2, 2, 2, 3]), [], "  ")
        elif r < 0.85:
            stmt([], "  ")
        else:
            lines.append("  if (n > 2) then")
            nest(rng.choice([1, 2]), [], "    ")
            lines.append("  end if")
    if callees:
        lines.insert(rng.choice([0, len(lines)]), "  call %s(a, b, c, n)" % rng.choice(list(callees)))
    decl = ", ".join("%s%d" % (c, i) for c in "ijk" for i in range(3))
    return ("subroutine %s(a, b, c, n)\n  integer, intent(in) :: n\n"
            "  real, intent(inout) :: a(n,n,n), b(n,n,n)\n  real, intent(in) :: c(n,n,n)\n"
            "  integer :: %s\n%s\nend subroutine %s\n" % (name, decl, "\n".join(lines), name))


def parse(src):
    from psyclone.psyir.frontend.fortran import FortranReader
    n = _nodes()
    root = FortranReader().psyir_from_source(src)
    return root, root.walk(n.Routine)[0]


# ---------------------------------------------------------------- histories
LOOP_OPS = ("ompDo", "ompParallelDo", "ompTeamsDPD", "ompLoop", "ompTaskloop", "ompTask", "accLoop")
ROUTINE_OPS = ("accEnterData", "ompDeclareTarget", "accRoutine")
REGION_OPS = ("ompParallel", "ompSingle", "ompMaster", "ompTarget", "accParallel", "accKernels", "accData")


def path_of(node, routine):
    p = []
    while node is not routine:
        p.append(node.position)
        node = node.parent
    return list(reversed(p))


def resolve(routine, path):
    node = routine
    for i in path:
        node = node.children[i]
    return node


FAMILY = {"omp": [k for k in LOOP_OPS + REGION_OPS if k.startswith("omp")],
          "acc": [k for k in LOOP_OPS + REGION_OPS if k.startswith("acc")],
          "mixed": list(LOOP_OPS + REGION_OPS)}


def gen_op(rng, routine, family="mixed", p_routine=0.035):
    """One random operation on the current tree (paths are child indices from the routine).
    family restricts the directive API; part of the region operations are 'guided': they wrap the
    top-level statement that holds a randomly chosen directive or loop."""
    n = _nodes()
    allowed = FAMILY[family]
    if rng.random() < 0.3:
        # 'repair' operation: give an orphaned directive the enclosing region it needs
        cands = []
        for d in routine.walk(n.Directive):
            if isinstance(d, n.OMPTaskloopDirective) and not d.ancestor(n.OMPSerialDirective):
                cands.append((d, rng.choice(["ompSingle", "ompMaster"]), False))
            elif isinstance(d, n.DynamicOMPTaskDirective) and not d.ancestor(n.OMPSingleDirective):
                cands.append((d, "ompSingle", False))
            elif isinstance(d, (n.OMPDoDirective, n.OMPSerialDirective, n.OMPLoopDirective)) and \
                    not isinstance(d, n.OMPParallelDirective) and not d.ancestor(n.OMPParallelDirective):
                cands.append((d, rng.choice(["ompParallel", "ompParallel", "ompTarget"])
                              if isinstance(d, n.OMPLoopDirective) else "ompParallel", True))
            elif isinstance(d, n.ACCLoopDirective) and \
                    not d.ancestor((n.ACCParallelDirective, n.ACCKernelsDirective)):
                cands.append((d, rng.choice(["accParallel", "accKernels"]), True))
        if cands:
            node, op, top = rng.choice(cands)
            if top and rng.random() < 0.7:
                while node.parent is not routine:
                    node = node.parent
            return {"op": op, "path": path_of(node.parent, routine), "range": [node.position, node.position + 1],
                    "nowait": False}
    if rng.random() < p_routine - 0.035:
        cands = [k for k in ROUTINE_OPS if family == "mixed" or k.startswith(family)]
        if cands:
            return {"op": rng.choice(cands)}
    r = rng.random()
    if r < 0.45:
        loops = routine.walk(n.Loop)
        if not loops:
            return None
        op = rng.choice([k for k in allowed if k in LOOP_OPS])
        col = None if op in ("ompTaskloop", "ompTask") else rng.choice([None, None, None, 2, 2, 3])
        return {"op": op, "path": path_of(rng.choice(loops), routine), "collapse": col}
    if r < 0.93:
        op = rng.choice([k for k in allowed if k in REGION_OPS])
        targets = routine.walk((n.Directive, n.Loop))
        if targets and rng.random() < 0.5:
            node = rng.choice(targets)
            if rng.random() < 0.6:
                while node.parent is not routine:
                    node = node.parent
            return {"op": op, "path": path_of(node.parent, routine), "range": [node.position, node.position + 1],
                    "nowait": op == "ompSingle" and rng.random() < 0.15}
        scheds = [s for s in routine.walk(n.Schedule) if s.children]
        sched = rng.choice(scheds)
        lo = rng.randrange(len(sched.children))
        hi = lo + 1 if rng.random() < 0.7 else rng.randint(lo + 1, len(sched.children))
        return {"op": op, "path": path_of(sched, routine), "range": [lo, hi],
                "nowait": op == "ompSingle" and rng.random() < 0.15}
    if r < 0.965:
        cands = [k for k in ROUTINE_OPS if family == "mixed" or k.startswith(family)]
        return {"op": rng.choice(cands)} if cands else None
    if r < 0.98 and family != "omp":
        scheds = [s for s in routine.walk(n.Schedule) if s.children]
        return {"op": "accUpdateTrans", "path": path_of(rng.choice(scheds), routine)}
    pars = routine.walk(n.OMPParallelDirective)
    if not pars:
        return None
    return {"op": "ompTaskwaitTrans", "path": path_of(rng.choice(pars), routine)}


def apply_op(routine, op):
    """Apply one operation with the real transformation.  Returns 'applied' | 'refused' |
    'error:<Type>' (an exception other than TransformationError; tree may be unchanged)."""
    from psyclone import transformations as T
    from psyclone.psyir import transformations as PT
    from psyclone.psyir.transformations import TransformationError
    name = op["op"]
    try:
        if name in LOOP_OPS:
            node = resolve(routine, op["path"])
            opts = {"force": True}
            if op.get("collapse"):
                opts["collapse"] = op["collapse"]
            if name == "ompDo":
                PT.OMPLoopTrans(omp_directive="do").apply(node, opts)
            elif name == "ompParallelDo":
                PT.OMPLoopTrans(omp_directive="paralleldo").apply(node, opts)
            elif name == "ompLoop":
                PT.OMPLoopTrans(omp_directive="loop").apply(node, opts)
            elif name == "ompTeamsDPD":
                PT.OMPLoopTrans(omp_directive="teamsdistributeparalleldo").apply(node, opts)
            elif name == "ompTask":
                PT.OMPTaskTrans().apply(node, opts)
            elif name == "ompTaskloop":
                T.OMPTaskloopTrans().apply(node, opts)
            else:
                T.ACCLoopTrans().apply(node, opts)
        elif name in REGION_OPS:
            sched = resolve(routine, op["path"])
            lo, hi = op["range"]
            nodes = sched.children[lo:hi]
            if name == "ompSingle" and op.get("nowait"):
                T.OMPSingleTrans(nowait=True).apply(nodes)
                return "applied"
            trans = {"ompParallel": T.OMPParallelTrans, "ompSingle": T.OMPSingleTrans,
                     "ompMaster": T.OMPMasterTrans, "ompTarget": PT.OMPTargetTrans,
                     "accParallel": T.ACCParallelTrans, "accKernels": PT.ACCKernelsTrans,
                     "accData": T.ACCDataTrans}[name]()
            trans.apply(nodes)
        elif name == "accEnterData":
            T.ACCEnterDataTrans().apply(routine)
        elif name == "ompDeclareTarget":
            T.OMPDeclareTargetTrans().apply(routine)
        elif name == "accRoutine":
            T.ACCRoutineTrans().apply(routine)
        elif name == "accUpdateTrans":
            PT.ACCUpdateTrans().apply(resolve(routine, op["path"]))
        elif name == "ompTaskwaitTrans":
            PT.OMPTaskwaitTrans().apply(resolve(routine, op["path"]))
        else:
            raise ValueError(name)
    except TransformationError:
        return "refused"
    except Exception as err:  # pylint: disable=broad-except
        return "error:" + type(err).__name__
    return "applied"


def run_history(src, ops):
    """Re-run a stored history; an operation acts on routine number op["routine"] (default 0) of the
    parsed file.  Returns (root, first routine, statuses)."""
    root, routine = parse(src)
    routines = routines_of(root)
    statuses = [apply_op(routines[op.get("routine", 0)], op) for op in ops]
    return root, routine, statuses


# ---------------------------------------------------------------- operations of the Lean model
def abs_path(node, routine):
    """Sibling indices of the statement-level nodes from the routine down to `node` (inclusive)."""
    p = []
    while node is not routine:
        p.append(node.position)
        sched = node.parent
        if sched is routine:
            break
        node = sched.parent
    return list(reversed(p))


def sched_abs_path(sched, routine):
    return [] if sched is routine else abs_path(sched.parent, routine)


def model_op(routine, op):
    """The operation in the vocabulary of C10.Op (to be computed BEFORE the real transformation is
    applied); None for transformations that insert stand-alone directives (see leaf_inserts)."""
    name = op["op"]
    if name in LOOP_OPS:
        node = resolve(routine, op["path"])
        return ["loopDir", name, op.get("collapse") or 0, sched_abs_path(node.parent, routine), node.position]
    if name in REGION_OPS:
        sched = resolve(routine, op["path"])
        lo, hi = op["range"]
        return ["region", name, 1 if op.get("nowait") else 0, sched_abs_path(sched, routine), lo, hi - lo]
    return None


def leaf_inserts(before, after, path=()):
    """Stand-alone directive insertions (in application order) that turn forest `before` into
    `after`; None if the difference is anything else."""
    ops, j = [], 0
    for i, (k, c, ch) in enumerate(after):
        if j < len(before) and before[j][0] == k and before[j][1] == c:
            sub = leaf_inserts(before[j][2], ch, tuple(path) + (i,))
            if sub is None:
                return None
            ops += sub
            j += 1
        elif k in ("ompTaskwait", "ompDeclareTarget", "accEnterData", "accUpdate", "accRoutine") and not ch:
            ops.append(["leaf", k, 0, list(path), i])
        else:
            return None
    return ops if j == len(before) else None


def op_sx(mop):
    head, kind, num, path = mop[0], mop[1], mop[2], mop[3]
    return "(%s %s %d (%s) %s)" % (head, kind, num, " ".join(map(str, path)), " ".join(map(str, mop[4:])))
