"""C08 — `DependencyTools.can_loop_be_parallelised` vs. the Lean model `C08.canParallelise` (verdict and message
classes, `test_all_variables=True`), each real call under a watchdog (termination), and the PROPERTY ITSELF on
every loop the real code reports parallelisable: per-iteration dynamic read/write sets (Lean `execT` through the
driver, sequential execution from the program's init store) must satisfy Bernstein's conditions pairwise, except
for scalars every iteration unconditionally writes before reading (`C08.privScalar`)."""
import glob
import json
import os
import signal

import common
import minif
from common import sx, parse_sx
from props import c08_gen, c08_psykal

WATCHDOG_S = 8     # first timeout; later calls of the same run get WATCHDOG_AFTER_S (normal calls take < 0.5 s)
WATCHDOG_AFTER_S = 3
_timeouts = [0]
CAP = 12          # iterations traced per loop


class _Timeout(Exception):
    pass


def _alarm(*_):
    raise _Timeout()


def real_verdict(loop):
    """('ok', verdict, sorted [(code, var)]) | ('timeout',) | ('raise', class name)"""
    from psyclone.psyir.tools import DependencyTools
    dt = DependencyTools()
    old = signal.signal(signal.SIGALRM, _alarm)
    signal.setitimer(signal.ITIMER_REAL, WATCHDOG_AFTER_S if _timeouts[0] else WATCHDOG_S)
    try:
        res = dt.can_loop_be_parallelised(loop, test_all_variables=True)
        msgs = sorted((int(m.code), m.var_names[0].lower()) for m in dt.get_all_messages())
        res1 = dt.can_loop_be_parallelised(loop)          # default mode: stops at the first refused variable
        msgs1 = [(int(m.code), m.var_names[0].lower()) for m in dt.get_all_messages()]
        return ("ok", bool(res), msgs, bool(res1), msgs1)
    except _Timeout:
        _timeouts[0] += 1
        return ("timeout",)
    except Exception as err:      # the analysis refused (SymPy could not solve, unsupported LHS, ...)
        return ("raise", type(err).__name__)
    finally:
        signal.setitimer(signal.ITIMER_REAL, 0)
        signal.signal(signal.SIGALRM, old)


def real_partitions(loop, names, cap=6):
    """the real `_partition` on up to `cap` (write, other) access pairs of the loop's arrays:
    [(lvars ids, write subscripts, other subscripts, [[sorted var ids], [positions]] ...)]"""
    from psyclone.core import VariablesAccessInfo
    from psyclone.psyir.nodes import Loop
    from psyclone.psyir.tools import DependencyTools
    va = VariablesAccessInfo(loop)
    loop_vars = [lp.variable.name for lp in loop.walk(Loop)]
    lv = [names.id(v) for v in loop_vars]
    out = []
    for sig in va.all_signatures:
        info = va[sig]
        if str(sig) in loop_vars or not info.is_array():
            continue
        for w in info.all_write_accesses:
            for o in info.all_accesses:
                if len(out) >= cap:
                    return out
                try:
                    ws = [c08_gen.export_expr(w.component_indices[i], names) for i in w.component_indices.iterate()]
                    os_ = [c08_gen.export_expr(o.component_indices[i], names) for i in o.component_indices.iterate()]
                except minif.Unsupported:
                    continue
                parts = DependencyTools._partition(w.component_indices, o.component_indices, loop_vars)
                real = [[sorted(names.id(v) for v in vs), [ix[1] for ix in subs]] for vs, subs in parts]
                out.append((lv, ws, os_, real))
    return out


def conflicts(traces, exempt, arrays=()):
    """Bernstein between all pairs of iterations.  Returns None or (k, k', (x, i, j), kind): the first conflict on
    an array element if there is one (the clearest witness), else the first conflict on a scalar."""
    fp = []
    for t in traces:
        w = {tuple(e[1:]) for e in t if e[0] == 1}
        r = {tuple(e[1:]) for e in t if e[0] == 0}
        fp.append((w, r))
    first_scalar = None
    for a in range(len(fp)):
        for b in range(len(fp)):
            if a == b:
                continue
            for loc in sorted(fp[a][0]):
                if loc[0] in exempt and loc[1] == 0 and loc[2] == 0:
                    continue
                kind = "write-write" if loc in fp[b][0] else "write-read" if loc in fp[b][1] else None
                if kind is None:
                    continue
                if loc[0] in arrays:
                    return (a, b, loc, kind)
                if first_scalar is None:
                    first_scalar = (a, b, loc, kind)
    return first_scalar


def model_and_traces(exports):
    lines = []
    for ex in exports:
        lines.append(sx(["par", ex["loop"], ex["dnames"], ex["order"]]))
        lines.append(sx(["trace", ex["prefix"], ex["loop"], CAP]))
        lines.append(sx(["sigok", ex["sigtab"], ex["loop"]]))
    out = common.driver("C08", lines)
    res = []
    for k in range(len(exports)):
        p, t, so = out[3 * k], out[3 * k + 1], out[3 * k + 2]
        if not p.startswith("(") or not t.startswith("(") or so not in ("0", "1"):
            raise common.Infra(f"C08 driver: {p[:80]} / {t[:80]} / {so[:80]}")
        par = parse_sx(p)
        # outside the calibrated fragment also when the signatures are not a bijection / overlap (C08.sigTabOk)
        res.append({"par": bool(par[0]), "frag": bool(par[1]) and so == "1", "sigok": so == "1",
                    "msgs": sorted((m[0], m[1]) for m in par[2]),
                    "priv": list(par[3]), "first": [(m[0], m[1]) for m in par[4]], "traces": parse_sx(t)})
    return res


def evaluate(src):
    """Everything about one program: export, real verdict, model verdict, dynamic conflict."""
    try:
        ex, loop = c08_gen.export_case(src)
    except minif.Unsupported as err:
        return {"skip": "export: " + str(err)}
    real = real_verdict(loop)
    mod = model_and_traces([ex])[0]
    return judge(src, ex, real, mod)


def judge(src, ex, real, mod):
    ids = {v: k for k, v in ex["names"].items()}
    out = {"source": src, "real": list(real), "model": {"par": mod["par"], "frag": mod["frag"],
                                                        "msgs": [[c, ids.get(x, x)] for c, x in mod["msgs"]]}}
    if real[0] == "timeout":
        out["failure"] = {"kind": "non-termination", "observed": f"no answer within {WATCHDOG_S} s",
                          "expected": "the analysis answers for every loop"}
        return out
    if real[0] == "raise":
        out["refused"] = real[1]
        return out
    mm = sorted((c, ids.get(x, str(x))) for c, x in mod["msgs"])
    m1 = [(c, ids.get(x, str(x))) for c, x in mod["first"]]
    out["model"]["first"] = [list(x) for x in m1]
    out["agree"] = ((real[1] == mod["par"]) and (list(real[2]) == mm)
                    and (real[3] == mod["par"]) and ([tuple(x) for x in real[4]] == m1))
    if real[1] and mod.get("sigok", True):
        cf = conflicts(mod["traces"], set(mod["priv"]), set(c08_gen.BodyInfo(ex["loop"]).subs))
        if cf:
            a, b, loc, kind = cf
            classes = c08_gen.classify(ex["loop"], loc[0])      # labels; attribution also needs the model to agree
            out["failure"] = {"kind": "loop-carried-dependence", "iterations": [a, b],
                              "location": [ids.get(loc[0], loc[0]), loc[1], loc[2]], "conflict": kind,
                              "observed": "reported parallelisable",
                              "expected": "no location written by one iteration and touched by another",
                              "classes": classes}
    return out


def corpus_sources():
    out = []
    for path in sorted(glob.glob(os.path.join(common.ROOT, "corpus", "C08", "*.json"))):
        try:
            out.append((os.path.basename(path), json.load(open(path))["source"]))
        except (OSError, KeyError, ValueError):
            continue
    return out


def wrap(body_lines):
    """program around a bare loop (used for the witnesses of the findings)"""
    import random
    rng = random.Random(7)
    return "\n".join(c08_gen.HEADER + c08_gen.gen_init(rng) + ["  " + ln for ln in body_lines] + ["end program p"]) + "\n"


def run(chk):
    chk.cov["rule"] = ("programs = init block + one analysed loop `do i` (flavours: affine / integer division / MOD / index "
                       "arrays / d_<var> names / loop nests / scalar patterns / stale subscripts / structure members (`cfg%off`, "
                       "`pp(i)%x`, `g%a(i)` as scalars, array signatures and in subscripts) / mixed; bodies of 1-3 "
                       "statements, optional IF and inner `do j`); every generated loop writes an array element or a scalar, "
                       "so the real analysis runs at least one pairwise array test or one scalar test: all judged cases "
                       "are non-trivial except loops the real analysis refuses with an exception; distinct by source text")
    chk.assumptions += [
        "model in FIXED mode: fixes/C08-dvar-loop, C08-integer-division, C08-symbolic-coefficient, C08-stale-subscript, "
        "C08-inner-variable-subscript (on a tree without them the check reports the failing inputs of these classes)",
        "MiniF semantics (integer stores, unbounded arrays) stands for Fortran on the generated programs; a structure "
        "member signature (`cfg%off`, `pp%x`, `g%a`) is a MiniF variable of its own with the flattened subscripts "
        "(distinct signatures never alias; checked precondition C08.sigTabOk: no whole-structure access next to a "
        "member access)",
        "outside the exported subset, refused by the exporter and counted (distribution.export_refused): WHILE loops, "
        "calls, code blocks, whole-array / whole-structure references, array sections, rank > 2",
        "PSyKAl family: the LFRic/GOcean domain rules are computed by the harness from kernel metadata (GH_INC, "
        "reduction built-in, stencil offsets); coloured LFRic loops are not examined (the generic analysis raises "
        "KeyError on them at HEAD, PSyclone TODO #1648)",
        "exemption = C08.privScalar (statically: first access on every path is an unconditional write; a DO statement "
        "writes its own variable unconditionally)",
        "iterations traced sequentially from the program's init store, at most %d per loop" % CAP,
        "loops on which the real analysis raises (SymPy cannot solve / unsupported LHS) are counted, not judged"]
    chk.cov["trusted_base"] = ["Lean 4.33.0 kernel", "axioms propext/Classical.choice/Quot.sound only (audited)",
                               "MiniF semantics + PSyIR->MiniF exporter (harness/minif.py, validated against gfortran by "
                               "minif_selftest)", "SymPy/fparser2 (outside the claim; their effect is compared, not proved)",
                               "harness correspondence + Bernstein evaluation (harness/props/c08*.py)"]
    chk.lean()
    n = 1500 if chk.tier == "thorough" else 260
    sources = [(name, s, "corpus") for name, s in corpus_sources()]
    fam = c08_gen.nest2_family()
    if chk.tier != "thorough":       # quick: all write/read members + half of the write/write members (by seed parity)
        fam = [f for q, f in enumerate(fam) if f[0].endswith("read") or (q // 2) % 2 == chk.seed % 2]
    sources += [(name, c08_gen.wrap_loop(chk.rng, lines), "nest2-family") for name, lines in fam]
    fam = c08_gen.free2_family()
    if chk.tier != "thorough":
        fam = [f for q, f in enumerate(fam) if "-read" in f[0] or "-r1-" in f[0] or (q // 4) % 2 == chk.seed % 2]
    sources += [(name, c08_gen.wrap_loop(chk.rng, lines), "free2-family") for name, lines in fam]
    fam = c08_gen.member_family()
    if chk.tier != "thorough":       # quick: every member whose loop modifies the signature it uses + a quarter of the rest
        fam = [f for q, f in enumerate(fam) if "-same-" in f[0] or q % 4 == chk.seed % 4]
    sources += [(name, c08_gen.wrap_loop(chk.rng, lines, structs=True), "member-family") for name, lines in fam]
    for q in range(n):
        s, fl = c08_gen.gen_source(chk.rng)
        sources.append((f"gen{q}", s, fl))
    dist = {"parallelisable": 0, "not": 0, "refused": 0, "timeout": 0, "out_of_fragment": 0, "conflicts_known": 0}
    flav, codes = {}, {}
    prepared = []
    part_cases = []
    export_refused = [0]
    for name, src, fl in sources:
        try:
            ex, loop = c08_gen.export_case(src)
        except minif.Unsupported:      # checked precondition of the correspondence (WHILE, calls, whole arrays/structures)
            export_refused[0] += 1
            continue
        prepared.append((name, src, fl, ex, real_verdict(loop)))
        try:
            for lv, ws, os_, real in real_partitions(loop, ex["namesobj"]):
                part_cases.append((src, lv, ws, os_, real))
        except Exception as err:     # the real _partition raised: a disagreement with the total model
            chk.correspondence_broken("_partition raised " + type(err).__name__, {"source": src}, None, str(err))
    models = model_and_traces([p[3] for p in prepared])
    # `_partition` (literal while loop, fuel len+1) vs the real static method on (write, other) access pairs
    pouts = common.driver("C08", [sx(["partw", lv, ws, os_]) for _, lv, ws, os_, _ in part_cases])
    nbad = 0
    for (src, lv, ws, os_, real), po in zip(part_cases, pouts):
        modelp = None if not po.startswith("(") else [[sorted(q[0]), list(q[1])] for q in parse_sx(po)]
        if modelp != real:
            nbad += 1
            if nbad <= 3:
                chk.correspondence_broken("_partition differs from C08.partitionW", {"source": src, "subs": [ws, os_]},
                                          po, real)
    chk.cov["partition_pairs_compared"] = len(part_cases)
    known = {e["id"]: e for e in common.known_findings("C08")}
    reported = set()
    for (name, src, fl, ex, real), mod in zip(prepared, models):
        res = judge(src, ex, real, mod)
        flav[fl] = flav.get(fl, 0) + 1
        if real[0] == "timeout":
            dist["timeout"] += 1
            chk.case({"source": src}, nontrivial=True, agreed=False)
            if "non-termination" not in reported:
                reported.add("non-termination")
                chk.violation({"kind": "non-termination", "source": src, "observed": res["failure"]["observed"],
                               "expected": res["failure"]["expected"]})
            continue
        if real[0] == "raise":
            dist["refused"] += 1
            chk.case({"source": src}, nontrivial=False, agreed=True)
            continue
        dist["parallelisable" if real[1] else "not"] += 1
        for c, _ in real[2]:
            codes[c] = codes.get(c, 0) + 1
        compared = mod["frag"]
        if not compared:
            dist["out_of_fragment"] += 1
        agreed = res["agree"] or not compared
        chk.case({"source": src, "verdict": real[1], "messages": real[2]}, nontrivial=True, agreed=agreed)
        fail = res.get("failure")
        if fail:
            cls = [c for c in fail["classes"] if c in known]
            if cls and mod["par"]:
                dist["conflicts_known"] += 1
            else:
                key = (fail["conflict"], tuple(fail["classes"]))
                if key not in reported and len(reported) < 6:
                    reported.add(key)
                    chk.violation(dict(fail, source=src, model=res["model"], real=res["real"]))
        if compared and not res["agree"]:
            chk.correspondence_broken("can_loop_be_parallelised differs from C08.canParallelise", {"source": src},
                                      res["model"], res["real"])
    chk.cov["distribution"] = dict(dist, flavours=flav, message_codes=codes, export_refused=export_refused[0])
    # real PSy-layer loops (LFRic / GOcean kernels and built-ins): answers, domain rule, GOcean model correspondence
    chk.cov["psykal_family"] = c08_psykal.run_family(chk)
    # known findings: replay the witnesses against the real code
    for e in known.values():
        src = wrap(e["witness"]["loop"])
        res = evaluate(src)
        f = res.get("failure")
        if f and (e["id"] in f.get("classes", []) or e["witness"].get("any_class")):
            chk.known(e["what"])


def _new_failure(res):
    """the failure of `res` unless it belongs to a known finding (classifier accepts it and the model agrees)"""
    f = res.get("failure")
    if not f:
        return None
    known = {e["id"] for e in common.known_findings("C08")}
    if f["kind"] == "loop-carried-dependence" and res["model"]["par"] and set(f.get("classes", [])) & known:
        print("(this input fails the property, but belongs to known finding", sorted(set(f["classes"]) & known), ")")
        return None
    return f


def replay(payload):
    if payload.get("kind") == "psykal":
        return c08_psykal.replay(payload)
    brk = payload.get("broken") or []
    if payload.get("source") is None and brk and isinstance(brk[0], dict) and \
            (brk[0].get("case") or {}).get("kind") == "psykal":
        return c08_psykal.replay(brk[0]["case"])
    src = payload.get("source")
    if src is None:      # a broken correspondence without a failing input: re-run the disagreeing case
        try:
            src = payload["broken"][0]["case"]["source"]
        except (KeyError, IndexError, TypeError):
            print("replay file holds no input (broken proof obligation):", payload.get("broken"))
            return 1
        res = evaluate(src)
        print(src)
        print("real:", res.get("real"), "\nmodel:", res.get("model"))
        if _new_failure(res):
            print("property FAILS on this input:", res["failure"])
            return 1
        if res["model"]["frag"] and res.get("agree") is False:
            print("observed: real verdict/messages differ from the model | expected: agreement (no input found on which "
                  "the property itself fails)")
            return 1
        print("real code and model agree on this input")
        return 0
    res = evaluate(src)
    print(src)
    print("real:", res.get("real"), "\nmodel:", res.get("model"))
    f = _new_failure(res)
    if f:
        print("observed:", f["observed"], "| expected:", f["expected"],
              "|", {k: v for k, v in f.items() if k not in ("observed", "expected")})
        if payload.get("kind") in (None, f["kind"]):
            return 1
    print("property holds on this input")
    return 0
