"""C26 — a rejected transformation leaves the code unchanged.

1. Lean: Props/C26.lean (generic protocol theorems + OMPLoopTrans, ArrayReductionBaseTrans,
   ArrayAssignment2LoopsTrans(verbose), LoopTiling2DTrans instances).
2. Correspondence of the four modelled transformations against the real `apply` on generated targets
   (outcome, abstract final state) + the property itself on every such case.
3. The generic differential sweep (props/c26_sweep.py): exploration over every Transformation subclass x
   targets x options; a refusal (TransformationError) that changed the snapshot is a failing input.
4. Known findings replayed; fixed-defect witnesses (corpus/C26) run first."""
import collections
import glob
import json
import os
import random
import shutil
import time

import common
from common import driver
from props import c26_models as M
from props import c26_sweep as S

MODELLED = ["AlgTrans", "LFRicAlgTrans", "OMPTaskTrans", "GOceanExtractTrans", "LFRicExtractTrans",
            "KernelModuleInlineTrans", "Sign2CodeTrans", "CreateNemoPSyTrans", "LoopTiling2DTrans", "ChunkLoopTrans (as step of tiling)", "LoopSwapTrans (as step of tiling)",
            "OMPLoopTrans", "GOceanOMPLoopTrans", "Dynamo0p3OMPLoopTrans", "OMPParallelLoopTrans",
            "Sum2LoopTrans", "Product2LoopTrans", "Maxval2LoopTrans", "Minval2LoopTrans",
            "ArrayAssignment2LoopsTrans"]
OMP_FAMILY = ["OMPLoopTrans", "GOceanOMPLoopTrans", "Dynamo0p3OMPLoopTrans"]
REDUCTIONS = {"SUM": "Sum2LoopTrans", "PRODUCT": "Product2LoopTrans", "MAXVAL": "Maxval2LoopTrans",
              "MINVAL": "Minval2LoopTrans"}

# extra programs for the modelled transformations (reductions whose nested conversion is refused, …)
EXTRA = {
    "red": """
subroutine red(a, b, idx, s, t, n)
  integer, intent(in) :: n
  real, intent(inout) :: a(n), b(n, n), s, t
  integer :: idx(5)
  s = s + sum(a(idx(1:3)))
  s = sum(a(idx(1:3)))
  s = s + sum(a)
  t = s * maxval(b(:, 1)) + t
  t = minval(a(2:n)) + s
  s = product(a(:) + b(:, 2))
  s = s * product(a(idx(2:4)))
  a(1) = a(1) + sum(b)
  a(1) = a(1) + sum(b(idx(1:2), :))
end subroutine red
""",
    "misc": """
subroutine misc(a, b, n, flag)
  integer, intent(in) :: n
  logical, intent(in) :: flag
  real, intent(inout) :: a(n), b(n)
  integer :: i, j
  real :: t, u
  do i = 1, n
    if (flag) then
      t = 2.0
    end if
    u = 3.0
    a(i) = t + u
  end do
  if (flag) then
    do i = 1, n
      b(i) = a(i)
    end do
  else
    b(1) = 0.0
  end if
  do i = 1, n
    do j = 1, n
      if (a(i) > 0.0) then
        if (b(j) > 0.0) then
          u = 1.0
        end if
      end if
    end do
    t = abs(a(i)) + max(u, b(i))
    call sub(t)
    b(i) = sum(a) + t
  end do
  b(:) = a(:) + t
  do while (t > 0.0)
    t = t - 1.0
  end do
end subroutine misc
""",
    "a2lfam": """
subroutine a2lfam(a, b, c, d, idx, n)
  use ext_mod, only: extvar
  integer, intent(in) :: n
  real, intent(inout) :: a(n), b(n), c(n, n), d(n, n)
  integer :: idx(5), i
  character(len=4) :: s4(3)
  a(:) = b(:) * 2.0
  c(:, :) = d(:, :) + c(:, :)
  a(2:10) = a(1:9) + b(2:10)
  a(1:9) = b(1:9) + a(2:10)
  c(1:9:2, 1) = b(1:5)
  a(1:n:2) = b(1:n)
  a(:) = matmul(d, b)
  a(idx(1:3)) = b(1:3)
  s4(:) = "abcd"
  a(:) = b(:) * extvar
  a(:) = [(real(i), i = 1, n)]
  c(:, 1) = d(:, :)
  a(1) = b(1)
  i = 3
  write(*, *) a(1)
end subroutine a2lfam
""",
    "inlclash": """
module work_mod
  implicit none
contains
  subroutine bump(x)
    use data_mod, only: tmp, val, cnt
    integer, intent(inout) :: x
    x = x + 1 + tmp + val + cnt
  end subroutine bump
  subroutine driver(a)
    use data_mod, only: tmp, cnt
    integer, intent(inout) :: a
    integer :: val
    val = 5
    if (a > 0) then
      call bump(a)
      WRITE(*,*) "near", vAL
    end if
    a = a + val + tmp + cnt
  end subroutine driver
end module work_mod
""",
    "tile": """
subroutine tile(a, b, n, m)
  integer, intent(in) :: n, m
  real, intent(inout) :: a(n, m), b(n, m)
  integer :: i, j, k, jj
  do j = 1, m
    do i = 1, n
      a(i, j) = b(i, j)
    end do
  end do
  do j = m, 1, -1
    do i = 1, n, 2
      a(i, j) = 0.0
    end do
  end do
  do j = 1, m
    do i = j, n
      b(i, j) = a(i, j)
    end do
  end do
  do j = 1, m, k
    do i = 1, n
      b(i, j) = 1.0
    end do
  end do
  do j = 1, m
    do i = 1, n
      jj = j
      n2: do k = 1, 2
        a(i, j) = a(i, j) + jj
      end do n2
    end do
  end do
  do j = 1, m
    do i = 1, n
      call ext(a(i, j))
    end do
  end do
  do j = 1, m
    do i = 1, n, 64
      a(i, j) = 2.0
    end do
  end do
  do j = 1, m
    a(1, j) = 0.0
    do i = 1, n
      a(i, j) = 3.0
    end do
  end do
  do j = 1, m
    do i = 1, n
      a(i, j) = 3.0
      j = j + 0
    end do
  end do
end subroutine tile
""",
}


def _steps_source():
    """systematic family of 2-deep nests with literal non-unit steps: inner step x outer step"""
    lines = ["subroutine steps(a, n, m)", "  integer, intent(in) :: n, m", "  real, intent(inout) :: a(n, m)",
             "  integer :: i, j"]
    for outer in STEP_OUTER:
        for inner in STEP_INNER:
            oh = f"do j = 1, m, {outer}" if outer > 0 else f"do j = m, 1, {outer}"
            ih = f"do i = 1, n, {inner}" if inner > 0 else f"do i = n, 1, {inner}"
            lines += [f"  {oh}", f"    {ih}", f"      a(i, j) = {abs(outer)}.0 + {abs(inner)}.0", "    end do", "  end do"]
    lines.append("end subroutine steps")
    return "\n".join(lines) + "\n"


STEP_INNER = [1, 3, 8, 33, -8, 40]
STEP_OUTER = [1, 3, 8, -3]
STEP_SIZES = [None, 2, 4, 8, 32, 40]
EXTRA["steps"] = _steps_source()


def gen():
    """translator: protocol skeletons of every apply() of the live tree -> Gen/AtomicSkel.lean"""
    from props import c26_skel
    return {"PsyVerif/Gen/AtomicSkel.lean": c26_skel.generate(S.all_transformations())}


def _spec_of(name):
    if name in EXTRA:
        return {"kind": "minif", "name": name, "source": EXTRA[name]}
    return {"kind": "generic", "name": name}


# ---------------------------------------------------------------------------------------------
# classification of a refusal-with-mutation
def classify(rec, findings):
    """id of the known finding whose class contains this failing input, else None"""
    for f in findings:
        c = f.get("classifier_data", {})
        if rec["trans"] not in c.get("trans", []):
            continue
        opt = rec.get("options")
        if c.get("option") and not (isinstance(opt, dict) and opt.get(c["option"])):
            continue
        if c.get("where_contains") and c["where_contains"] not in str(rec.get("where")):
            continue
        diff = json.dumps(rec.get("diff") or {})
        if c.get("diff_contains") and c["diff_contains"] not in diff:
            continue
        return f["id"]
    return None


def payload_of(rec, kind="failing-input"):
    return {"kind": kind, "program": rec["program"], "trans": rec["trans"], "variant": rec.get("variant", ""),
            "target": rec["target"], "options": rec["options"], "target_text": rec.get("target_text", ""),
            "observed": {"outcome": rec["outcome"], "message": rec.get("message", "")[:300],
                         "raised_in": rec.get("phase"), "where": rec.get("where"),
                         "first_difference": rec.get("diff")},
            "expected": "a TransformationError leaves the written code and every symbol table unchanged"}


def rerun(payload):
    """run one stored attempt against the real code with the full snapshot"""
    prog = S.Program(payload["program"], common.REPO)
    tree = prog.fresh()
    cls = S.trans_by_name(payload["trans"])
    return S.attempt(tree, cls, payload.get("variant", ""), payload["target"], payload["options"])


# ---------------------------------------------------------------------------------------------
# correspondence of the modelled transformations
def model_cases(chk, rng, budget_s):
    """yields case dicts (see c26_models) for generated targets of the four modelled transformations"""
    from psyclone.psyir.nodes import Loop, Assignment, IntrinsicCall
    t_end = time.time() + budget_s
    progs = {n: S.Program(_spec_of(n), common.REPO) for n in ["tile", "nests", "red", "arrays", "mix", "hoist"]}
    extra_minif = [S.Program({"kind": "minif", "name": f"gen{i}", "source": S.c26_progs.minif_source(rng, 6)},
                             common.REPO) for i in range(3 if chk.tier == "quick" else 12)]
    tile_opts = [None, {}, {"tilesize": 4}, {"tilesize": 1}, {"tilesize": 2}, {"tilesize": 0}, {"tilesize": -3},
                 {"tilesize": "x"}, {"tilesize": 2.5}, {"tilesize": True}, {"chunksize": 4},
                 {"tilesize": 8, "node-type-check": False}, {"tilesize": 64}]
    chunk_opts = [None, {}, {"chunksize": 4}, {"chunksize": 1}, {"chunksize": 0}, {"chunksize": -3}, {"chunksize": "x"},
                  {"chunksize": 2.5}, {"tilesize": 4}, {"chunksize": 2}, {"chunksize": 4, "force": True}]
    omp_opts = [None, {"reprod": True}, {"reprod": False}, {"reprod": True, "collapse": 2},
                {"reprod": True, "force": True}, {"reprod": True, "sequential": True}, {"collapse": 2}]
    jobs = []
    for prog in [progs["tile"], progs["nests"], progs["hoist"]] + extra_minif:
        tree = prog.fresh()
        loops = [S.path_of(n, tree.root) for n in tree.root.walk(Loop)]
        others = [S.path_of(n, tree.root) for n in S._walk(tree.root) if not isinstance(n, Loop)]
        for p in loops:
            for o in (tile_opts if prog.name in ("tile", "nests") else rng.sample(tile_opts, 4)):
                jobs.append(("tile", prog, p, o))
            for o in rng.sample(chunk_opts, 4):
                jobs.append(("chunk", prog, p, o))
            jobs.append(("swap", prog, p, rng.choice([None, {}])))
            for cname in OMP_FAMILY:
                for o in rng.sample(omp_opts, 3) + [{"reprod": True}]:
                    for v in S.variants(S.trans_by_name(cname)):
                        jobs.append(("omp", prog, cname, v, p, o))
        for p in rng.sample(others, min(6, len(others))):
            jobs.append(("tile", prog, p, rng.choice(tile_opts)))
            jobs.append(("omp", prog, rng.choice(OMP_FAMILY), "", p, {"reprod": True}))
            jobs.append(("omp", prog, rng.choice(OMP_FAMILY), "", p, None))
    for prog in [progs["red"], progs["arrays"], progs["mix"]]:
        tree = prog.fresh()
        for n in tree.root.walk(IntrinsicCall):
            cname = REDUCTIONS.get(n.routine.name.upper())
            p = S.path_of(n, tree.root)
            for c in ([cname] if cname else []) + [rng.choice(list(REDUCTIONS.values()))]:
                jobs.append(("red", prog, c, p))
        for n in tree.root.walk(Assignment):
            for o in (None, {"verbose": True}):
                jobs.append(("a2l", prog, S.path_of(n, tree.root), o))
    rng.shuffle(jobs)
    # systematic family first (never cut by the time budget): every nest of "steps" x every size, for the tiling
    # and for chunking its outer and inner loop -- hits size < |step| <= 32 (default chunk size) in every run
    first = []
    sprog = S.Program(_spec_of("steps"), common.REPO)
    stree = sprog.fresh()
    for n in stree.root.walk(Loop):
        p = S.path_of(n, stree.root)
        outer = isinstance(n.loop_body.children[0], Loop)
        for size in STEP_SIZES:
            if outer:
                first.append(("tile", sprog, p, None if size is None else {"tilesize": size}))
            if size in (None, 4, 8) and (not outer or chk.tier != "quick"):
                first.append(("chunk", sprog, p, None if size is None else {"chunksize": size}))
        if outer:
            first.append(("swap", sprog, p, None))
    # every refusal reason of ArrayAssignment2LoopsTrans x {no options, verbose absent/False/True, another key}
    aprog = S.Program(_spec_of("a2lfam"), common.REPO)
    atree = aprog.fresh()
    for n in atree.root.walk(Assignment):
        apath = S.path_of(n, atree.root)
        for o in ((None, {}, {"verbose": True}, {"allow_string": True}) if chk.tier == "quick" else
                  (None, {}, {"verbose": False}, {"verbose": True}, {"allow_string": True},
                   {"allow_string": True, "verbose": True})):
            first.append(("a2l", aprog, apath, o))
    for spec_e, cname_e in (({"kind": "psy", "api": "gocean1.0", "file": "gocean1p0/single_invoke_two_kernels.f90",
                               "dm": True}, "GOceanExtractTrans"),
                             ({"kind": "psy", "api": "gocean1.0", "file": "gocean1p0/single_invoke.f90",
                               "dm": False}, "GOceanExtractTrans"),
                             ({"kind": "psy", "api": "lfric", "file": "dynamo0p3/1_single_invoke.f90",
                               "dm": True}, "LFRicExtractTrans")):
        if chk.tier == "quick" and spec_e["api"] == "lfric":
            continue
        for kind_e in ("loop", "bad"):
            for drv in (False, True):
                if chk.tier == "quick" and kind_e == "bad" and drv:
                    continue
                first.append(("ext", None, spec_e, cname_e, kind_e, drv))
    for variant in ("first", "same", "different"):
        first.append(("kmi", None, variant))
    mprog = progs["mix"]
    for n in mprog.fresh().root.walk(IntrinsicCall):
        if n.routine.name.upper() in ("SIGN", "ABS", "MAX"):
            first.append(("sign", mprog, S.path_of(n, n.root)))
    for flags in ([1], [0], [1, 1], [1, 0], [0, 1], [1, 1, 0], [1, 0, 1], [1, 1, 1]):
        for cname in ("AlgTrans", "LFRicAlgTrans"):
            first.append(("alg", None, cname, flags, True))
    first.append(("alg", None, "AlgTrans", [1, 1], False))
    jobs = first + jobs
    kind_time = collections.Counter()
    chk.cov["model_case_seconds"] = kind_time
    for k, j in enumerate(jobs):
        if k >= len(first) and time.time() > t_end:
            break
        t_case = time.time()
        try:
            if j[0] in ("tile", "chunk", "swap"):
                c = M.case_tiling(j[1], j[2], j[3], j[0])
            elif j[0] == "ext":
                c = M.case_extract(j[2], j[3], j[4], j[5])
            elif j[0] == "kmi":
                c = M.case_kmi(j[2])
            elif j[0] == "sign":
                c = M.case_sign(j[1], j[2])
            elif j[0] == "alg":
                c = M.case_alg(j[2], j[3], j[4])
            elif j[0] == "omp":
                c = M.case_omp(j[1], j[2], j[3], j[4], j[5])
            elif j[0] == "red":
                c = M.case_reduction(j[1], j[2], j[3])
            else:
                c = M.case_a2l(j[1], j[2], j[3])
        except Exception as err:  # pylint: disable=broad-except
            raise common.Infra(f"model case {j[0]} on {getattr(j[1], 'name', j[2])}: {type(err).__name__}: {err}") from err
        kind_time[j[0]] = round(kind_time[j[0]] + time.time() - t_case, 2)
        if c is not None:
            c["kind"] = j[0]
            c.setdefault("program", j[1].spec if j[1] is not None else None)
            yield c


def attempt_of_case(c):
    """(trans, variant, target, options) of a model case, for replay files"""
    d = c["desc"]
    if c["kind"] in ("tile", "chunk", "swap", "alg", "ext", "kmi", "sign"):
        return d[0], "", ["node", d[1]], d[2]
    if c["kind"] == "omp":
        return d[0], d[1], ["node", d[2]], d[3]
    if c["kind"] == "red":
        return d[0], "", ["node", d[1]], None
    return "ArrayAssignment2LoopsTrans", "", ["node", d[1]], d[2]


# ---------------------------------------------------------------------------------------------
def run(chk):
    quick = chk.tier == "quick"
    rng = chk.rng
    findings = common.known_findings("C26")
    chk.cov["rule"] = (
        "model correspondence: (transformation, target node, options) of the modelled transformations on hand-written "
        "and seeded MiniF programs, non-trivial = target reaches the transformation-specific checks (accepted, or refused "
        "after the node-type check) ; sweep: every concrete Transformation subclass found by introspection x nodes / "
        "consecutive-node lists / pairs of a program x option pool (documented keys x value table, pairs, malformed "
        "option objects) x constructor variants, pruned per (transformation, target class) after uninteresting results; "
        "distinct by canonical JSON")
    chk.assumptions += [
        "snapshot = FortranWriter output (psy.gen for PSy-layer invokes) + every symbol table (symbols, tags, visibility) + "
        "scalar attributes of every node + transformed-kernel schedules; state outside the PSyIR (files written, class-level "
        "counters such as PSyDataTrans._used_kernel_names, attributes of the transformation object) is not part of it",
        "lazily computed PSy-layer tree content (LFRicLoop.start_expr/stop_expr bound children, symbols declared by code "
        "generation) is forced before the baseline snapshot and not counted as a change",
        "only TransformationError counts as a refusal; other exception types that leave the tree mutated are listed in "
        "coverage.other_exceptions_with_mutation",
        "OMPLoopTrans / ArrayReduction / ArrayAssignment2Loops models take the outcome of the real validate() as an oracle "
        "bit: the theorems are about the order of validation and mutation, not about what validate checks",
        "LoopTiling2DTrans model: validate of LoopTiling2D/Chunk/Swap modelled on plain Loop nests without structure "
        "accesses, calls or CodeBlocks in loop bounds; well-formed tag dictionary (no symbol with two tags)"]
    chk.cov["trusted_base"] = [
        "Lean 4.33.0 kernel", "axioms propext/Classical.choice/Quot.sound only (audited)",
        "harness/props/c26_models.py (abstraction of real targets and results)",
        "harness/props/c26_sweep.py snapshot function (what counts as 'the code and its symbol tables')"]
    t0 = time.time()
    chk.lean(gen=gen)
    chk.cov["timing_s"] = {"lean_build_and_audit": round(time.time() - t0, 1)}
    cwd = os.getcwd()
    scratch = S.scratch_dir()
    try:
        _run(chk, quick, rng, findings)
    finally:
        os.chdir(cwd)
        shutil.rmtree(scratch, ignore_errors=True)


def _run(chk, quick, rng, findings):
    t_start = time.time()
    reported = set()

    def report(rec, source):
        fid = classify(rec, findings)
        if fid is not None:
            return fid
        key = (rec["trans"], rec.get("where"), json.dumps(rec.get("diff"), sort_keys=True)[:80])
        if key not in reported and len(reported) < 6:
            reported.add(key)
            chk.violation(dict(payload_of(rec), found_by=source))
        return None

    # -- corpus: witnesses of defects (fixed ones must now be refused without change) ------------------
    n_corpus = 0
    for path in sorted(glob.glob(os.path.join(common.ROOT, "corpus", "C26", "*.json"))):
        w = json.load(open(path))
        res = rerun(w)
        n_corpus += 1
        chk.case({"corpus": os.path.basename(path), "outcome": res["outcome"]}, nontrivial=True, agreed=True)
        if res["outcome"] == "refused" and res["changed"]:
            rec = dict(w, outcome=res["outcome"], message=res["message"], phase=res.get("phase"),
                       where=res.get("where"), diff=res.get("diff"))
            report(rec, "corpus/" + os.path.basename(path))
    # -- correspondence of the modelled transformations -----------------------------------------------
    cases = list(model_cases(chk, rng, 10 if quick else 300))
    outs = driver("C26", [c["line"] for c in cases])
    dist = collections.Counter()
    for c, mo in zip(cases, outs):
        agreed = (mo == c["impl"])
        dist[c["kind"] + (":refused" if c["refused"] else ":accepted")] += 1
        nontriv = not c["refused"] or c["kind"] != "omp" or c["line"].split()[-1].startswith("1")
        chk.case({"kind": c["kind"], "program": c["program"].get("name"), "desc": c["desc"], "result": c["impl"]},
                 nontrivial=nontriv, agreed=agreed)
        bad = c["refused"] and c["changed"]
        if bad:
            trans, variant, target, opts = attempt_of_case(c)
            res = S.attempt(S.Program(c["program"], common.REPO).fresh(), S.trans_by_name(trans), variant, target, opts)
            rec = {"program": c["program"], "trans": trans, "variant": variant, "target": target, "options": opts,
                   "outcome": res["outcome"], "message": res["message"], "phase": res.get("phase"),
                   "where": res.get("where"), "diff": res.get("diff")}
            if res["outcome"] == "refused" and res["changed"]:
                if report(rec, "model-correspondence") is not None:
                    continue     # known finding: the committed model reproduces it iff it agreed
        if not agreed:
            chk.correspondence_broken(f"{c['kind']} model differs from the real apply()", c["desc"] + [c["line"]],
                                      mo, c["impl"])
    chk.cov["model_distribution"] = dict(dist)
    chk.cov["timing_s"]["corpus_and_models"] = round(time.time() - t_start, 1)
    # -- the sweep (exploration) ----------------------------------------------------------------------
    budget = 45 if quick else max(600, 1320 - (time.time() - t_start))
    specs = S.program_specs(rng, 2 if quick else 6, nstmts=3 if quick else 5)
    specs += [_spec_of(n) for n in EXTRA]
    if quick:
        generic = [s for s in specs if s["kind"] in ("generic", "alg")]
        small = [s for s in specs if s["kind"] == "minif"]
        psy = [s for s in specs if s["kind"] == "psy"]
        extra = [s for s in small if s["name"] in EXTRA]
        gen = [s for s in small if s["name"] not in EXTRA]
        specs = extra + rng.sample(gen, 1) + rng.sample(generic, 1) + rng.sample(psy, 1)
    else:
        rng.shuffle(specs)
    changed = S.changed_classes()
    chk.cov["changed_since_fingerprint"] = [c.__name__ for c in changed]
    stats = collections.Counter()
    late = collections.Counter()
    other, programs_done, attempts = {}, [], 0
    classes = list(S.all_transformations())
    from props import c26_skel
    live_safe = {c.__name__ for c in classes if c26_skel.is_safe(c26_skel.skeleton(c))}
    safe_names = live_safe & set(c26_skel.EXPECTED_SAFE)
    t0 = time.time()
    hist_budget = budget * (0.12 if quick else 0.25)      # two-step sweep: programs with a history
    budget -= hist_budget
    seeds_of_history = []
    for i, spec in enumerate(specs):
        left = budget - (time.time() - t0)
        if left < 3:
            break
        share = left / (len(specs) - i)
        prog = S.Program(spec, common.REPO)
        try:
            sw = S.Sweep(prog, rng, time.time() + share, stats)
        except Exception as err:  # pylint: disable=broad-except
            raise common.Infra(f"cannot build program {prog.name}: {type(err).__name__}: {err}") from err
        sw.safe_skeletons = safe_names
        order = [c for c in classes if c not in changed]
        rng.shuffle(order)
        if changed:      # change-directed budget: changed classes first, unpruned, every option
            final = sw.deadline
            sw.deadline = time.time() + 0.6 * share
            sw.run(list(changed), prune_after=None, keep=1.0, max_opts=None)
            sw.deadline = final
        sw.run(order, prune_after=(2 if quick else 5), keep=(0.03 if quick else 0.15),
               max_opts=(6 if quick else None))
        attempts += sw.n
        programs_done.append({"program": prog.name, "attempts": sw.n, "complete": not sw.out_of_time()})
        late.update(sw.late)
        for nc in sw.nonconforming[:3]:
            chk.correspondence_broken(
                "protocol skeleton says no mutation precedes a refusal, but the monitor saw one", nc,
                "safe skeleton (Gen/AtomicSkel.lean)", nc["events"])
        if "pre" not in spec:
            for cname, (v, t, o) in sw.accepted.items():
                seeds_of_history.append(dict(spec, pre=[[cname, v, t, o]]))
        for rec in sw.findings:
            chk.case({"sweep": rec["trans"], "program": prog.name, "target": rec["target"], "options": rec["options"]},
                     nontrivial=True, agreed=True)
            report(rec, "sweep")
        for rec in sw.other:
            key = f"{rec['trans']}: {rec['outcome'][6:]}: {rec['message'][:70]}"
            other.setdefault(key, {"program": prog.name, "target": rec["target"], "options": rec["options"]})
    # -- two-step sweep: an accepted transformation first, then every transformation on the result -----
    rng.shuffle(seeds_of_history)
    n_hist = 3 if quick else 24
    t1 = time.time()
    hist_done = []
    for i, spec in enumerate(seeds_of_history[:n_hist]):
        left = hist_budget - (time.time() - t1)
        if left < 2:
            break
        prog = S.Program(spec, common.REPO)
        try:
            sw = S.Sweep(prog, rng, time.time() + left / (min(n_hist, len(seeds_of_history)) - i), stats)
        except Exception:  # pylint: disable=broad-except
            continue          # the history is not reproducible on a fresh tree: skip it
        order = list(classes)
        rng.shuffle(order)
        sw.safe_skeletons = safe_names
        sw.run(order, prune_after=2, keep=0.03, max_opts=(4 if quick else 12))
        attempts += sw.n
        hist_done.append({"program": prog.name, "after": spec["pre"][0][0], "attempts": sw.n})
        late.update(sw.late)
        for rec in sw.findings:
            chk.case({"sweep": rec["trans"], "program": prog.name, "pre": spec["pre"], "target": rec["target"],
                      "options": rec["options"]}, nontrivial=True, agreed=True)
            report(rec, "history-sweep")
        for rec in sw.other:
            key = f"{rec['trans']}: {rec['outcome'][6:]}: {rec['message'][:70]}"
            other.setdefault(key, {"program": prog.name, "pre": spec["pre"], "target": rec["target"],
                                   "options": rec["options"]})
    chk.cov["traces_validated_against_impl"] += stats.get("monitored", 0)
    chk.cov["evaluations"] += attempts
    chk.cov["history_sweep"] = hist_done
    chk.cov["exploration_only"] = {
        "what": "generic differential sweep (not proof): transformations covered only by it are all concrete "
                "Transformation subclasses except those under 'proved_for'",
        "transformations_swept": [c.__name__ for c in classes],
        "proved_for": {"hand_written_models": MODELLED,
                       "safe_protocol_skeleton (translator c26_skel.py + C26_safe_skeleton_atomic)": sorted(safe_names)},
        "skeleton_no_longer_safe": sorted(set(c26_skel.EXPECTED_SAFE) - live_safe),
        "sweep_only": sorted(c.__name__ for c in classes
                             if c.__name__ not in safe_names and c.__name__ not in MODELLED),
        "attempts": attempts, "outcomes": dict(stats), "programs": programs_done,
        "refusals_raised_after_validate": {f"{k[0]} @ {k[1]}": v for k, v in sorted(late.items())},
    }
    # witnesses of exceptions that are NOT TransformationError but leave the tree modified (outside the property)
    for path in sorted(glob.glob(os.path.join(common.ROOT, "corpus", "C26", "other", "*.json"))):
        w = json.load(open(path))
        res = rerun(w)
        if res["outcome"].startswith("error") and res["changed"]:
            other.setdefault(f"{w['trans']}: {res['outcome'][6:]}: {res['message'][:70]}",
                             {"program": w["program"].get("name") or w["program"].get("file"),
                              "target": w["target"], "options": w["options"], "what": w.get("what", ""),
                              "witness": "corpus/C26/other/" + os.path.basename(path)})
    chk.cov["other_exceptions_with_mutation"] = other
    chk.cov["corpus_witnesses"] = n_corpus
    chk.cov["timing_s"]["sweep"] = round(time.time() - t0, 1)
    # -- known findings --------------------------------------------------------------------------------
    for f in findings:
        res = rerun(f["witness"])
        if res["outcome"] == "refused" and res["changed"]:
            chk.known(f["what"])


def replay(payload):
    cwd = os.getcwd()
    scratch = S.scratch_dir()
    try:
        if "trans" not in payload:
            print("replay file describes a broken proof obligation / correspondence, not an input:")
            print(json.dumps(payload.get("broken"), indent=1)[:3000])
            return 1
        res = rerun(payload)
        print("program:", payload["program"].get("name") or payload["program"].get("file"))
        print("transformation:", payload["trans"], "variant:", repr(payload.get("variant", "")),
              "options:", payload["options"])
        print("target:", payload["target"], payload.get("target_text", ""))
        print("observed:", res["outcome"], "| changed:", res["changed"], "|", res.get("message", "")[:200])
        if res.get("diff"):
            print("first difference of the snapshot:", res["diff"])
        print("expected: a TransformationError leaves the written code and every symbol table unchanged")
        return 1 if (res["outcome"] == "refused" and res["changed"]) else 0
    finally:
        os.chdir(cwd)
        shutil.rmtree(scratch, ignore_errors=True)
