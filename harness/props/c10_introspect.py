"""C10 translator, part 2: the catalogue of directive CLASSES and of the transformations that create
them, obtained from the live /repo on every run by introspection:

* every (transitive) subclass of psyclone.psyir.nodes.Directive in every importable psyclone module,
  with the class that defines its validate_global_constraints (MRO owner), whether it is one of the
  model's kinds (c10_real._exact_kind), an abstract base, or an API-specific subclass of a modelled one;
* every Transformation subclass, with the Directive classes it creates: (a) observed by applying a
  default-constructed instance (and every `omp_directive` flavour) to the nodes of probe programs,
  (b) named in the source of the class (constructor call or class attribute).
A new or changed class changes the generated Lean lists and breaks the pinned theorems of Props/C10."""
import ast
import importlib
import inspect
import pkgutil
import textwrap

import common  # noqa: F401
from props import c10_real as R

PROBE = ("module m\ncontains\nsubroutine s(a, n)\n  integer, intent(in) :: n\n  real, intent(inout) :: a(n,n)\n"
         "  integer :: i, j\n  do i = 1, n\n    do j = 1, n\n      a(j,i) = 3.0\n    end do\n  end do\n"
         "  a(1,1) = a(1,1) + 1.0\nend subroutine s\nend module m\n")
# contexts some transformations need before they accept anything
# transformations applicable to generic PSyIR (the API-specific ones need an Invoke: source only)
GENERIC = ("psyclone.transformations", "psyclone.psyir.transformations")
CONTEXTS = (None, "ompParallel", "ompSingleInParallel", "accParallel")


def _all_subclasses(cls):
    out = []
    for sub in cls.__subclasses__():
        out.append(sub)
        out += _all_subclasses(sub)
    return out


def load_all():
    import psyclone
    for mod in pkgutil.walk_packages(psyclone.__path__, "psyclone."):
        if ".tests" in mod.name:
            continue
        try:
            importlib.import_module(mod.name)
        except Exception:  # pylint: disable=broad-except
            pass           # optional dependencies (e.g. graphviz front ends)


_MEMO = {}


def directive_classes():
    if "dc" not in _MEMO:
        _MEMO["dc"] = _directive_classes()
    return _MEMO["dc"]


def _directive_classes():
    """[(class name, owner of validate_global_constraints, role, kind)] sorted by name; role is
    'kind' (an exact model kind), 'abstract' (never instantiated by a transformation: a base class),
    'subclass:<kind>' (API-specific subclass of a modelled class, same checks)."""
    from psyclone.psyir.nodes import Directive
    load_all()
    out = []
    for cls in sorted(set(_all_subclasses(Directive)), key=lambda c: c.__name__):
        owner = [k for k in cls.__mro__ if "validate_global_constraints" in k.__dict__][0].__name__
        kind = kind_of_class(cls)
        if kind is not None and R._exact_kind(_blank(cls)) == kind:
            role = "kind"
        elif kind is not None:
            role = "subclass"
        else:
            role = "abstract"
        out.append((cls.__name__, owner, role, kind or "-"))
    return out


def _blank(cls):
    return cls.__new__(cls)


def kind_of_class(cls):
    """model kind of the nearest modelled class in the MRO (None for pure base classes)"""
    for k in cls.__mro__:
        try:
            kind = R._exact_kind(_blank(k))
        except TypeError:
            kind = None
        if kind is not None:
            # a base class that has modelled subclasses but is itself one (OMPParallelDirective…) is fine;
            # pure bases (RegionDirective, OMPRegionDirective, …) never match _exact_kind
            return kind
    return None


def _directive_types(root):
    n = R._nodes()
    return {type(d).__name__ for d in root.walk(n.Directive)}


_CTX = {}


def _prepare(ctx):
    if ctx not in _CTX:
        _CTX[ctx] = _prepare_uncached(ctx)
    return _CTX[ctx]


def _prepare_uncached(ctx):
    from psyclone import transformations as T
    n = R._nodes()
    root, routine = R.parse(PROBE)
    if ctx == "ompParallel":
        T.OMPParallelTrans().apply(routine.children[:])
    elif ctx == "ompSingleInParallel":
        T.OMPSingleTrans().apply(routine.children[:])
        T.OMPParallelTrans().apply(routine.children[:])
    elif ctx == "accParallel":
        T.ACCParallelTrans().apply(routine.children[:])
    return root, routine, n


def _instances(tcls):
    """default-constructed instance(s); every loop-directive flavour of OMPLoopTrans-like classes"""
    out = []
    try:
        out.append(tcls())
    except Exception:  # pylint: disable=broad-except
        return out
    try:
        flavours = inspect.signature(tcls.__init__).parameters
    except (TypeError, ValueError):
        flavours = {}
    if "omp_directive" in flavours:
        from psyclone.psyir.transformations.omp_loop_trans import MAP_STR_TO_LOOP_DIRECTIVES
        for name in MAP_STR_TO_LOOP_DIRECTIVES:
            try:
                out.append(tcls(omp_directive=name))
            except Exception:  # pylint: disable=broad-except
                pass
    if "nowait" in flavours:
        try:
            out.append(tcls(nowait=True))
        except Exception:  # pylint: disable=broad-except
            pass
    return out


def observed_creations(tcls):
    """Directive class names that appear when the transformation is applied to some node (or node
    list) of the probe program in one of the contexts."""
    created = set()
    for trans in _instances(tcls):
        for ctx in CONTEXTS:
            root0, _, n = _prepare(ctx)
            kinds = (n.Routine, n.Schedule, n.Loop, n.Assignment, n.Directive)
            ntargets = len(root0.walk(kinds))
            for i in range(ntargets):
                for as_list in (False, True):
                    node = root0.walk(kinds)[i]
                    if as_list and isinstance(node, (n.Routine, n.Schedule)):
                        continue
                    try:                      # cheap filter on the shared tree; apply only on a copy
                        trans.validate([node] if as_list else node, {"force": True})
                    except Exception:  # pylint: disable=broad-except
                        continue
                    root = root0.copy()
                    node = root.walk(kinds)[i]
                    before = _directive_types(root)
                    try:
                        trans.apply([node] if as_list else node, {"force": True})
                    except Exception:  # pylint: disable=broad-except
                        continue
                    created |= _directive_types(root) - before
    return created


def creators():
    """[(transformation class name, sorted directive class names it creates)] for every Transformation
    subclass that creates a Directive (observed or named in its source)."""
    from psyclone.psyGen import Transformation
    load_all()
    dnames = {c[0] for c in directive_classes()}
    out = []
    own = {}
    tclasses = sorted(set(_all_subclasses(Transformation)), key=lambda c: c.__name__)
    for tcls in tclasses:
        made = set()
        try:
            tree = ast.parse(textwrap.dedent(inspect.getsource(tcls)))
        except (OSError, TypeError, SyntaxError):
            tree = None
        # constructor calls `XDirective(...)` / `XDirective.create(...)` anywhere in the class body
        for call in (ast.walk(tree) if tree else ()):
            if isinstance(call, ast.Call):
                f = call.func
                if isinstance(f, ast.Attribute) and f.attr == "create":
                    f = f.value
                name = f.id if isinstance(f, ast.Name) else f.attr if isinstance(f, ast.Attribute) else None
                if name in dnames:
                    made.add(name)
        if not inspect.isabstract(tcls) and tcls.__module__.startswith(GENERIC):
            made |= observed_creations(tcls)
        own[tcls] = made
    for tcls in tclasses:
        # a subclass (e.g. the API-specific versions) creates what the classes it inherits from create
        made = set()
        for base in tcls.__mro__:
            made |= own.get(base, set())
        if made:
            out.append((tcls.__name__, sorted(made)))
    return out


LEAN_KIND = {k: ("(%s 0)" % k if k in R.LOOPDIRS else "(ompSingle false)" if k == "ompSingle" else k)
             for k in R.KINDS}


def lean_text():
    """Lean definitions appended to PsyVerif/Gen/Directives.lean"""
    cls = directive_classes()
    crs = creators()
    kind_of = {c[0]: c[3] for c in cls}
    t = ["/-! Directive classes of the working tree (name, class defining validate_global_constraints, role, model",
         "kind) and the transformations that create directives (observed + named in source). -/",
         "def directiveClasses : List (String × String × String × Option Kind) := ["]
    t.append(",\n".join('  ("%s", "%s", "%s", %s)' % (name, owner, role, "none" if kind == "-" else "some " + LEAN_KIND[kind])
                        for name, owner, role, kind in cls))
    t.append("]\n")
    t.append("def creators : List (String × List String) := [")
    t.append(",\n".join('  ("%s", [%s])' % (name, ", ".join('"%s"' % d for d in made)) for name, made in crs))
    t.append("]\n")
    t.append("/-- model kinds of the directives some transformation creates -/")
    t.append("def createdKinds : List (String × Option Kind) := [")
    made_all = sorted({d for _, made in crs for d in made})
    t.append(",\n".join('  ("%s", %s)' % (d, "none" if kind_of.get(d, "-") == "-" else "some " + LEAN_KIND[kind_of[d]])
                        for d in made_all))
    t.append("]\n")
    return "\n".join(t)


if __name__ == "__main__":
    print(lean_text())
