"""C26 — real-code side of the correspondence for the transformations modelled in Lean
(Model/Atomic.lean, Model/AtomicTiling.lean): build the abstract input from a real target, run the real
`apply`, abstract the result, and give the protocol line for the driver.

Each `case_*` returns None (target outside the model's domain) or a dict
  {"line": protocol line, "impl": canonical real result (same syntax as the driver's answer),
   "changed": the real snapshot changed, "refused": bool, "desc": …}."""
import contextlib
import io

from common import sx
from props import c26_sweep as S

MODE = 1      # 1 = the committed model follows the FIXED code (/repo fix commits 50629ec, ef452d1 + fixes/C26-arrayreduction-tmp-after-validate.patch)


def common_repo():
    import common
    return common.REPO


def _apply(trans, args, options):
    from psyclone.psyir.transformations import TransformationError
    try:
        with contextlib.redirect_stdout(io.StringIO()):
            trans.apply(*args, options=options)
        return "accepted"
    except TransformationError:
        return "refused"
    except Exception as err:  # pylint: disable=broad-except
        return "error:" + type(err).__name__


def _validate(trans, args, options):
    from psyclone.psyir.transformations import TransformationError
    try:
        trans.validate(*args, options=options)
        return True
    except TransformationError:
        return False
    except Exception:  # pylint: disable=broad-except
        return None


# ---------------------------------------------------------------------------------------------
# OMPLoopTrans family
def _omp_state(tree, path):
    from psyclone.psyir.nodes import Routine, Directive
    node = S.resolve(tree.root, path)
    rt = node.ancestor(Routine, include_self=True)
    tags = rt.symbol_table.get_tags() if rt is not None else {}
    return ("omp_thread_index" in tags, "omp_num_threads" in tags)


def case_omp(prog, cname, variant, path, optspec):
    """state = (th_idx tag, nthreads tag, wrapped); validate outcome measured on a separate copy."""
    from psyclone.configuration import Config
    from psyclone.psyir.nodes import Node, Routine, Directive
    cls = S.trans_by_name(cname)
    opts = S.real_options(optspec)
    t0 = prog.fresh()
    node = S.resolve(t0.root, path)
    if not isinstance(node, Node) or node.ancestor(Routine) is None or isinstance(opts, (str, list)):
        return None
    valid = _validate(S.make_trans(cls, variant, t0), (node,), opts)
    if valid is None:
        return None
    reprod = bool((opts or {}).get("reprod", Config.get().reproducible_reductions))
    tree = prog.fresh()
    before = S.snapshot(tree)
    th, nt = _omp_state(tree, path)
    node = S.resolve(tree.root, path)
    parent, pos = node.parent, node.position
    out = _apply(S.make_trans(cls, variant, tree), (node,), opts)
    if out.startswith("error"):
        return None
    after = S.snapshot(tree)
    try:
        wrapped = isinstance(parent.children[pos], Directive) and not isinstance(node, Directive) \
            or (isinstance(node, Directive) and parent.children[pos] is not node)
        th2, nt2 = _omp_state(tree, S.path_of(parent, tree.root))
    except Exception:  # pylint: disable=broad-except
        return None
    return {"line": sx(["omp", MODE, reprod, th, nt, valid]),
            "impl": sx([1 if out == "accepted" else 0, th2, nt2, wrapped]),
            "changed": before != after, "refused": out == "refused",
            "desc": [cname, variant, path, optspec]}


# ---------------------------------------------------------------------------------------------
# ArrayReductionBaseTrans
def case_reduction(prog, cname, path):
    from psyclone.psyir.nodes import Assignment, IntrinsicCall, Reference, Routine
    cls = S.trans_by_name(cname)
    t0 = prog.fresh()
    node = S.resolve(t0.root, path)
    if not isinstance(node, IntrinsicCall):
        return None
    valid = _validate(cls(), (node,), None)
    if valid is None:
        return None
    increment, a2l = False, True
    if valid:
        asg = node.ancestor(Assignment)
        lhs_sym = asg.lhs.symbol
        increment = any(r.symbol is lhs_sym for r in asg.rhs.walk(Reference))
        a2l = _apply(cls(), (node,), None) == "accepted"     # the nested validate is only observable by running
    tree = prog.fresh()
    before = S.snapshot(tree)
    node = S.resolve(tree.root, path)
    rt = node.ancestor(Routine)
    if rt is None or node.ancestor(Assignment) is None:
        return None
    names0 = set(rt.symbol_table.symbols_dict)
    stmt_parent, stmt_pos = node.ancestor(Assignment).parent, node.ancestor(Assignment).position
    code0 = stmt_parent.children[stmt_pos].debug_string()
    out = _apply(cls(), (node,), None)
    if out.startswith("error"):
        return None
    after = S.snapshot(tree)
    new = [n for n in rt.symbol_table.symbols_dict if n not in names0]
    tmp = any(n.startswith("tmp_var") for n in new)
    idx = any(n.startswith("idx") for n in new)
    same_stmt = stmt_parent.children[stmt_pos].debug_string() == code0
    tree_state = 3 if out == "accepted" else (0 if same_stmt else 1)
    return {"line": sx(["red", MODE, increment, valid, a2l]),
            "impl": sx([1 if out == "accepted" else 0, tree_state, tmp, idx]),
            "changed": before != after, "refused": out == "refused", "desc": [cname, path]}


# ---------------------------------------------------------------------------------------------
# ArrayAssignment2LoopsTrans with verbose
STRUCTURAL = ("The supplied node should be a PSyIR Assignment", "should be in a scope",
              "should be a Reference that contains an array accessor", "at least one of its dimensions being a Range",
              "varying numbers of ranges")


def case_a2l(prog, path, optspec):
    """`optspec` is None or a dict; the model's `verbose` input is what the caller asked for
    (options["verbose"], absent = False); c1/c2 = outcome of the real validate without `verbose`"""
    from psyclone.psyir.nodes import Assignment
    from psyclone.psyir.transformations import ArrayAssignment2LoopsTrans, TransformationError
    if optspec is not None and not isinstance(optspec, dict):
        return None
    verbose = bool((optspec or {}).get("verbose", False))
    quiet = {k: v for k, v in (optspec or {}).items() if k != "verbose"}
    t0 = prog.fresh()
    node = S.resolve(t0.root, path)
    if not isinstance(node, Assignment):
        return None
    c1 = c2 = True
    try:
        ArrayAssignment2LoopsTrans().validate(node, options=dict(quiet, verbose=False))
    except TransformationError as err:
        msg = str(err.value)
        if any(s in msg for s in STRUCTURAL):
            c1 = False
        else:
            c2 = False
    except Exception:  # pylint: disable=broad-except
        return None
    tree = prog.fresh()
    before = S.snapshot(tree)
    node = S.resolve(tree.root, path)
    parent, pos = node.parent, node.position
    had_comment = bool(node.preceding_comment)
    out = _apply(ArrayAssignment2LoopsTrans(), (node,), None if optspec is None else dict(optspec))
    if out.startswith("error") or had_comment:
        return None
    after = S.snapshot(tree)
    comment = bool(node.preceding_comment)
    loops = parent.children[pos] is not node
    return {"line": sx(["a2l", verbose, c1, c2]),
            "impl": sx([1 if out == "accepted" else 0, comment, loops]),
            "changed": before != after, "refused": out == "refused",
            "desc": ["ArrayAssignment2LoopsTrans", path, optspec]}


# ---------------------------------------------------------------------------------------------
# LoopTiling2DTrans: export of a loop nest
class Ids:
    def __init__(self, routine):
        self.ids = {}
        for s in routine.symbol_table.symbols:
            self.of(s)

    def of(self, sym):
        key = id(sym)
        if key not in self.ids:
            self.ids[key] = len(self.ids)
        return self.ids[key]

    @property
    def bound(self):
        return len(self.ids)


class OutsideModel(Exception):
    pass


def _refs(expr, ids):
    from psyclone.psyir.nodes import Reference, Call, CodeBlock, StructureReference
    if expr.walk((Call, CodeBlock, StructureReference)):
        raise OutsideModel("call / CodeBlock / structure access in a loop bound")
    out = []
    for r in expr.walk(Reference):
        i = ids.of(r.symbol)
        if i not in out:
            out.append(i)
    return out


def export_stmts(stmts, ids, table):
    """first-child/next-sibling S-expression of a statement list"""
    from psyclone.core import VariablesAccessInfo
    from psyclone.psyir.nodes import Loop, Literal, CodeBlock, Call
    from psyclone.psyir.symbols import ScalarType
    if not stmts:
        return []
    st, rest = stmts[0], stmts[1:]
    nxt = export_stmts(rest, ids, table)
    if isinstance(st, Loop):
        if type(st) is not Loop or len(st.children) != 4:
            raise OutsideModel("not a plain Loop")
        step = st.step_expr
        if isinstance(step, Literal) and step.datatype.intrinsic is ScalarType.Intrinsic.INTEGER:
            stp = ["lit", int(step.value)]
        else:
            stp = ["expr"] + _refs(step, ids)
        body_tab = st.loop_body.symbol_table
        hdr = [ids.of(st.variable), _refs(st.start_expr, ids), _refs(st.stop_expr, ids), stp,
               "chunked" in st.annotations, bool(body_tab and not body_tab.is_empty())]
        return ["D", hdr, export_stmts(list(st.loop_body.children), ids, table), nxt]
    written = []
    vai = VariablesAccessInfo(st)
    for sig in vai.all_signatures:
        if vai[sig].is_written():
            if len(sig) > 1:
                raise OutsideModel("structure member written")
            try:
                sym = st.scope.symbol_table.lookup(sig.var_name)
            except KeyError as err:
                raise OutsideModel("unresolved name") from err
            i = ids.of(sym)
            if i not in written:
                written.append(i)
    cb = bool(st.walk(CodeBlock))
    impure = any(not c.is_pure for c in st.walk(Call))
    return ["L", written, cb, impure, nxt]


def export_tags(routine, ids):
    out = []
    names = {s.name: s for s in routine.symbol_table.symbols}
    for tag, sym in routine.symbol_table.get_tags().items():
        for suffix, odd in (("_el_inner", 0), ("_out_var", 1)):
            if tag.endswith(suffix) and tag[:-len(suffix)] in names:
                out.append([2 * ids.of(names[tag[:-len(suffix)]]) + odd, ids.of(sym)])
    return out


def opt_model(optspec, key="tilesize"):
    """options spec -> model (size, extraKey) or None when outside the model (non-dict options)"""
    if optspec is None:
        return "absent", False
    if not isinstance(optspec, dict):
        return None
    extra = any(k != key for k in optspec)
    if key not in optspec:
        return "absent", extra
    v = optspec[key]
    return (["int", int(v)] if isinstance(v, int) else "other"), extra


TILE_KINDS = {"tile": ("LoopTiling2DTrans", "tilesize"), "chunk": ("ChunkLoopTrans", "chunksize"),
              "swap": ("LoopSwapTrans", None)}


def case_tiling(prog, path, optspec, kind="tile"):
    from psyclone.psyir.nodes import Loop, Routine
    cname, key = TILE_KINDS[kind]
    trans_cls = S.trans_by_name(cname)
    if key is None:
        if optspec not in (None, {}):
            return None
        om = ("absent", False)
    else:
        om = opt_model(optspec, key)
    if om is None:
        return None
    tree = prog.fresh()
    node = S.resolve(tree.root, path)
    rt = node.ancestor(Routine) if hasattr(node, "ancestor") else None
    if type(node) is not Loop or rt is None:
        return None
    ids = Ids(rt)
    try:
        nest = export_stmts([node], ids, rt.symbol_table)
        tags = export_tags(rt, ids)
    except OutsideModel:
        return None
    bound = ids.bound
    before = S.snapshot(tree)
    parent, pos = node.parent, node.position
    out = _apply(trans_cls(), (node,), S.real_options(optspec))
    if out.startswith("error"):
        return None
    after = S.snapshot(tree)
    for s in rt.symbol_table.symbols:     # new symbols get the next ids in creation order
        ids.of(s)
    try:
        nest2 = export_stmts([parent.children[pos]], ids, rt.symbol_table)
    except OutsideModel:
        return None
    return {"line": sx([kind, ["opt", om[0], om[1]], ["tab", bound, tags], nest]),
            "impl": sx([1 if out == "accepted" else 0, ids.bound, nest2]),
            "changed": before != after, "refused": out == "refused",
            "desc": [cname, path, optspec]}


# ---------------------------------------------------------------------------------------------
# AlgTrans / LFRicAlgTrans: one nested transformation per `call invoke(...)`
def alg_source(flags):
    """a program with one invoke per flag; flag 0 gives an invoke the nested transformation refuses"""
    lines = ["program algk", "  use kind_params_mod", "  use field_mod", "  use compute_cu_mod, only: compute_cu",
             "  implicit none", "  type(r2d_field) :: cu_fld, p_fld, u_fld"]
    for f in flags:
        lines.append("  call invoke(compute_cu(cu_fld, p_fld, u_fld))" if f else "  call invoke(3)")
    lines.append("end program algk")
    return "\n".join(lines) + "\n"


def case_alg(cname, flags, on_root):
    from psyclone.domain.common.algorithm import AlgorithmInvokeCall
    from psyclone.psyir.nodes import Call
    prog = S.Program({"kind": "minif", "name": "algk", "source": alg_source(flags)}, "")
    tree = prog.fresh()
    before = S.snapshot(tree)
    target = tree.root if on_root else tree.root.children[0]      # a node with a parent is refused by validate
    path = [] if on_root else [0]
    calls = [c for c in tree.root.walk(Call)]
    out = _apply(S.trans_by_name(cname)(), (target,), None)
    if out.startswith("error"):
        return None
    after = S.snapshot(tree)
    raised = [isinstance(c, AlgorithmInvokeCall) for c in tree.root.walk(Call)]
    if len(raised) != len(flags):
        return None
    return {"line": sx(["alg", MODE, on_root, list(flags)]),
            "impl": sx([1 if out == "accepted" else 0, raised]),
            "changed": before != after, "refused": out == "refused", "desc": [cname, path, None],
            "program": prog.spec}


# ---------------------------------------------------------------------------------------------
# GOceanExtractTrans / LFRicExtractTrans: region-name counter, driver file
def case_extract(spec, cname, path_kind, create_driver):
    """target = first loop of the invoke (`path_kind` "loop") or a non-schedule node ("bad": get_node_list refuses)"""
    import os
    from psyclone.psyir.nodes import Loop, ExtractNode
    from psyclone.psyir.transformations.psy_data_trans import PSyDataTrans
    prog = S.Program(spec, common_repo())
    cls = S.trans_by_name(cname)
    opts = {"create_driver": True} if create_driver else None
    t0 = prog.fresh()
    loop0 = t0.root.walk(Loop)[0]
    target0 = loop0 if path_kind == "loop" else loop0.children[0]
    nodes_ok = True
    try:
        cls().get_node_list(target0)
    except Exception:  # pylint: disable=broad-except
        nodes_ok = False
    valid = _validate(cls(), ([target0] if nodes_ok else target0,), opts) if nodes_ok else False
    if valid is None:
        return None
    tree = prog.fresh()
    loop = tree.root.walk(Loop)[0]
    target = loop if path_kind == "loop" else loop.children[0]
    path = S.path_of(target, tree.root)
    before = S.snapshot(tree)
    total0 = sum(PSyDataTrans._used_kernel_names.values())
    files0 = set(os.listdir("."))
    out = _apply(cls(), (target,), opts)
    if out.startswith("error"):
        return None
    after = S.snapshot(tree)
    total1 = sum(PSyDataTrans._used_kernel_names.values())
    driver = any(f.startswith("driver-") for f in set(os.listdir(".")) - files0)
    region = bool(tree.root.walk(ExtractNode))
    return {"line": sx(["ext", MODE, create_driver, nodes_ok, valid, total0]),
            "impl": sx([1 if out == "accepted" else 0, total1, driver, region]),
            "changed": before != after, "refused": out == "refused", "desc": [cname, path, opts],
            "program": spec}


# ---------------------------------------------------------------------------------------------
# KernelModuleInlineTrans
def case_kmi(variant):
    """variant: "first" (no routine of that name yet), "same" (second call, first copy untouched),
    "different" (second call, first inlined copy transformed by ACCRoutineTrans meanwhile)"""
    from psyclone.psyGen import CodedKern
    from psyclone.psyir.backend.fortran import FortranWriter
    spec = {"kind": "psy", "api": "gocean1.0", "file": "gocean1p0/single_invoke_two_identical_kernels.f90",
            "dm": False}
    base = S.Program(spec, common_repo()).fresh()
    kerns = base.root.walk(CodedKern)
    p1, p2 = S.path_of(kerns[0], base.root), S.path_of(kerns[1], base.root)
    pre = {"first": [], "same": [["KernelModuleInlineTrans", "", ["node", p1], None]],
           "different": [["KernelModuleInlineTrans", "", ["node", p1], None],
                         ["ACCRoutineTrans", "", ["node", p1], None]]}[variant]
    spec2 = dict(spec, pre=pre) if pre else spec
    prog = S.Program(spec2, common_repo())
    path = p1 if variant == "first" else p2
    tree = prog.fresh()
    kern = S.resolve(tree.root, path)
    valid = _validate(S.trans_by_name("KernelModuleInlineTrans")(), (kern,), None)
    if valid is None:
        return None
    tree = prog.fresh()
    kern = S.resolve(tree.root, path)
    before = S.snapshot(tree)
    ks0 = FortranWriter()(kern.get_kernel_schedule())
    out = _apply(S.trans_by_name("KernelModuleInlineTrans")(), (kern,), None)
    if out.startswith("error"):
        return None
    after = S.snapshot(tree)
    try:
        prepared = FortranWriter()(kern.get_kernel_schedule()) != ks0
    except Exception:  # pylint: disable=broad-except
        prepared = True
    return {"line": sx(["kmi", variant != "first", variant != "different", valid]),
            "impl": sx([1 if out == "accepted" else 0, prepared, out == "accepted"]),
            "changed": before != after, "refused": out == "refused",
            "desc": ["KernelModuleInlineTrans", path, None], "program": spec2}


# ---------------------------------------------------------------------------------------------
# Sign2CodeTrans
def case_sign(prog, path):
    from psyclone.psyir.nodes import Routine
    cls = S.trans_by_name("Sign2CodeTrans")
    t0 = prog.fresh()
    node = S.resolve(t0.root, path)
    valid = _validate(cls(), (node,), None)
    if valid is None:
        return None
    tree = prog.fresh()
    node = S.resolve(tree.root, path)
    rt = node.ancestor(Routine) if hasattr(node, "ancestor") else None
    if rt is None:
        return None
    names0 = set(rt.symbol_table.symbols_dict)
    before = S.snapshot(tree)
    out = _apply(cls(), (node,), None)
    if out.startswith("error"):
        return None
    after = S.snapshot(tree)
    new = [n for n in rt.symbol_table.symbols_dict if n not in names0]
    expanded = any(n.startswith("res_abs") or n.startswith("tmp_abs") for n in new)
    finished = any(n.startswith("tmp_sign") for n in new) and before != after
    return {"line": sx(["sign", valid]), "impl": sx([1 if out == "accepted" else 0, expanded, finished]),
            "changed": before != after, "refused": out == "refused", "desc": ["Sign2CodeTrans", path, None]}
