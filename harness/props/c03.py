"""C03 — Re-writing is stable after one round trip.

Property on the real code: for bundled Fortran files the reader accepts (quick: the known witnesses +
a seeded sample; thorough: all) and for generated programs (optionally after a history of symbol-adding
transformations): w1 = write(read(src)), w2 = write(read(w1)), require w1 == w2 (and that w1 can be
read back at all).  Tie to the Lean model (`Decls.readItems`, `Decls.writeUnit[Pinned]`): the symbol
tables the writer declares from are exported; the model's prediction of the symbol order after
re-reading and of stable / unstable is compared with what the real reader and writer do."""
import difflib
import glob
import os
import random
import re

import common
from common import driver, sx, parse_sx
from props import c04_real as R
from props import c04
from props import c03_stmts as S
from props import c03_gen

WITNESS_ACCESS = [
    "src/psyclone/tests/test_files/dynamo0p3/infrastructure/field/field_mod.f90",
    "src/psyclone/tests/test_files/dynamo0p3/infrastructure/field/field_mod.F90",
    "src/psyclone/tests/test_files/dynamo0p3/infrastructure/field/r_bl_field_mod.f90",
    "src/psyclone/tests/test_files/dynamo0p3/infrastructure/field/r_bl_field_mod.F90",
    "src/psyclone/tests/test_files/dynamo0p3/infrastructure/field/r_phys_field_mod.f90",
    "src/psyclone/tests/test_files/dynamo0p3/infrastructure/field/r_phys_field_mod.F90",
    "src/psyclone/tests/test_files/dynamo0p3/infrastructure/field/r_solver_field_mod.f90",
    "src/psyclone/tests/test_files/dynamo0p3/infrastructure/field/r_solver_field_mod.F90",
    "src/psyclone/tests/test_files/dynamo0p3/infrastructure/field/r_tran_field_mod.f90",
    "src/psyclone/tests/test_files/dynamo0p3/infrastructure/field/r_tran_field_mod.F90",
    "src/psyclone/tests/test_files/dynamo0p3/infrastructure/function_space/function_space_mod.f90",
    "src/psyclone/tests/test_files/dynamo0p3/infrastructure/function_space/function_space_mod.F90",
]
WITNESS_FORWARD = ["src/psyclone/tests/test_files/dynamo0p3/infrastructure/utilities/constants_mod.f90"]
# bundled files with ALLOCATE options / named intrinsic arguments: always part of the quick sample
NAMED_ARG_FILES = ["src/psyclone/tests/test_files/dynamo0p3/infrastructure/mesh/mesh_colouring_mod.F90",
                   "src/psyclone/tests/test_files/dynamo0p3/infrastructure/mesh/mesh_colouring_mod.f90"]

ACCESS_SRC = """module am
  use ext_mod, only: ev2, ev1, ek1
  implicit none
  private
  public :: ev2, ev1, ek1
contains
  subroutine s(q)
    real :: q
    q = ev1 + ev2
  end subroutine s
end module am
"""


def writer_sorts_access():
    """probe the live writer: does gen_access_stmts sort the names?"""
    from psyclone.psyir.symbols import SymbolTable, RoutineSymbol, Symbol
    from psyclone.psyir.backend.fortran import FortranWriter
    t = SymbolTable()
    for n in ("zz_b", "aa_a"):
        t.add(RoutineSymbol(n, visibility=Symbol.Visibility.PRIVATE))
    return "aa_a, zz_b" in FortranWriter().gen_access_stmts(t)


def round_trip(src):
    """-> (status, w1, w2, detail)"""
    from psyclone.psyir.frontend.fortran import FortranReader
    from psyclone.psyir.backend.fortran import FortranWriter
    try:
        p1 = FortranReader().psyir_from_source(src)
        w1 = FortranWriter()(p1)
    except Exception as e:
        return "not-accepted", None, None, f"{type(e).__name__}"
    try:
        p2 = FortranReader().psyir_from_source(w1)
    except Exception as e:
        return "w1-unreadable", w1, None, f"{type(e).__name__}: {str(e)[:300]}"
    try:
        w2 = FortranWriter()(p2)
    except Exception as e:
        return "w2-refused", w1, None, f"{type(e).__name__}: {str(e)[:300]}"
    return ("stable" if w1 == w2 else "unstable"), w1, w2, ""


def diff_lines(w1, w2):
    a, b = w1.split("\n"), w2.split("\n")
    rem = [ln[1:] for ln in difflib.ndiff(a, b) if ln.startswith("- ")]
    add = [ln[1:] for ln in difflib.ndiff(a, b) if ln.startswith("+ ")]
    return rem, add


ACC = re.compile(r"^\s*(public|private)\s*::\s*(.*)$", re.I)


def only_access_order(w1, w2):
    """the two texts differ only in the order of the names of access statements"""
    a, b = w1.split("\n"), w2.split("\n")
    if len(a) != len(b):
        return False
    some = False
    for x, y in zip(a, b):
        if x == y:
            continue
        mx, my = ACC.match(x), ACC.match(y)
        if not (mx and my and mx.group(1).lower() == my.group(1).lower()):
            return False
        if sorted(n.strip() for n in mx.group(2).split(",")) != sorted(n.strip() for n in my.group(2).split(",")):
            return False
        some = True
    return some


WILD_FINDING = "C03-access-wildcard-name"


def wildcard_access_class(src, w1, w2):
    """w1 and w2 are equal except for their access statements, and every name that is listed by only one of
    them is a name the source never declares nor lists in an access statement, in a module with a wildcard `use`
    (an unresolved symbol: whether pass 1 lists it depends on Python's set order in process_access_statements)"""
    if not w2:
        return False
    a = [ln for ln in w1.split("\n") if not ACC.match(ln)]
    b = [ln for ln in w2.split("\n") if not ACC.match(ln)]
    if a != b:
        return False

    def names(w):
        return {(m.group(1).lower(), n.strip().lower()) for ln in w.split("\n") for m in [ACC.match(ln)] if m
                for n in m.group(2).split(",")}
    diff = names(w1) ^ names(w2)
    if not diff or not re.search(r"^\s*use\s+\w+\s*$", src, re.I | re.M):
        return False
    listed = {n for _p, n in names(src)}
    for _p, n in diff:
        if n in listed or re.search(r"::[^\n!]*\b" + re.escape(n) + r"\b\s*(\(|=|,|$)", src, re.I | re.M) and \
                not re.search(r"\(\s*[^)]*\b" + re.escape(n) + r"\b[^(]*\)", src, re.I):
            return False
    return True


def forward_reference(w1_src):
    """the first written text declares something before a declaration it reads (C04 defect):
    evaluated on the symbol tables the writer used"""
    from psyclone.psyir.frontend.fortran import FortranReader
    try:
        psyir = FortranReader().psyir_from_source(w1_src)
        _text, seen = R.write_capture(psyir)
    except Exception:
        return False
    for unit, ids, rows, ism in seen:
        if any(b[2] for b in c04.monotone_breaks(rows)):
            return True
    return False


def classify_unstable(src, w1, w2, sorts):
    if only_access_order(w1, w2) and not sorts:
        return "C03-access-order"
    if w2 and w1 != w2 and w1.lower() == w2.lower() and re.search(r"result\s*\(\s*\w*[A-Z]", w1):
        return "C03-result-name-case"
    if not w2 and re.search(r"(public|private)\s*::.*_psyclone_internal_", w1):
        return "C03-generic-interface-type-name"
    if w2 and "dimension()" in w1:
        return "C03-lower-bound-only-dimension"
    if wildcard_access_class(src, w1, w2):
        return WILD_FINDING
    from psyclone.psyir.frontend.fortran import FortranReader
    try:
        psyir = FortranReader().psyir_from_source(src)
        _t, seen = R.write_capture(psyir)
        if any(b[2] for _u, _i, rows, _m in seen for b in c04.monotone_breaks(rows)):
            return "C03-forward-reference"
    except Exception:
        pass
    return None


def bundled_files():
    files = []
    for root in ("src/psyclone/tests/test_files", "examples"):
        for dp, _dn, fn in os.walk(os.path.join(common.REPO, root)):
            for f in fn:
                if f.endswith((".f90", ".F90")):
                    files.append(os.path.relpath(os.path.join(dp, f), common.REPO))
    return sorted(files)


def check_files(chk, files, sorts, known_ids):
    dist = {}
    for rel in files:
        path = os.path.join(common.REPO, rel)
        if not os.path.exists(path):
            continue
        src = open(path, errors="replace").read()
        st, w1, w2, detail = round_trip(src)
        dist[st] = dist.get(st, 0) + 1
        if st == "not-accepted":
            continue
        chk.case({"file": rel, "status": st}, nontrivial=True, agreed=True)
        if st == "stable":
            continue
        payload = {"file": rel, "observed": st + " " + detail, "expected": "w1 == w2", "kind": "bundled-file"}
        if st == "unstable":
            rem, add = diff_lines(w1, w2)
            payload["diff_removed"], payload["diff_added"] = rem[:20], add[:20]
        if st in ("unstable", "w1-unreadable", "w2-refused"):
            cl = classify_unstable(src, w1, w2 or "", sorts)
            if cl and cl in known_ids:
                dist["known:" + cl] = dist.get("known:" + cl, 0) + 1
                continue
        chk.violation(payload)
        break
    return dist


# ---------------------------------------------------------------- generated programs + model tie
def heads_of(text):
    lines = text.split("\n")
    heads, depth = [], 0
    for i, ln in enumerate(lines):
        low = ln.strip().lower()
        if low.startswith(("interface", "abstract interface")):
            depth += 1
        elif low.startswith("end interface"):
            depth -= 1
        elif depth == 0 and low.startswith(("module ", "subroutine ", "program ")):
            heads.append((i, low))
    return heads


def complete_units(text, seen):
    """fill args / contained routines of the exported units from the written headers"""
    heads = heads_of(text)
    if len(heads) != len(seen):
        return None
    out = []
    for k, ((unit, ids, rows, ism), (_i, low)) in enumerate(zip(seen, heads)):
        unit = list(unit)
        if ism:
            rnames = [re.match(r"\w+\s+(\w+)", h[1]).group(1) for h in heads[k + 1:]]
            unit[7] = [ids[r] for r in rnames if r in ids]
        else:
            m = re.search(r"\((.*)\)", low)
            args = [a.strip() for a in m.group(1).split(",")] if m and m.group(1).strip() else []
            if any(a not in ids for a in args):
                return None
            unit[5] = [ids[a] for a in args]
        out.append((unit, ids, rows, ism))
    return out


KEEP = {"cont0", "cont1", "imp", "iface", "param", "arg", "dtype", "other"}


def table_seq(rows):
    return [(n, c04.tag(c)) for (n, c, _r, _p, _i, _x) in rows if c04.tag(c) in KEEP]


def check_generated(chk, n, sorts, known_ids):
    from psyclone.psyir.frontend.fortran import FortranReader
    dist, feats = {}, {}
    cmd_rt = "roundtrip" if sorts else "roundtrippinned"
    jobs = []
    sources = [(ACCESS_SRC, 0, False)]
    for f in sorted(glob.glob(os.path.join(common.ROOT, "corpus", "C03", "*.f90"))):
        sources.append((open(f).read(), 0, False))
    for i in range(n):
        g = R.Gen(chk.rng, risky=(i % 6 == 5), named_args=(i % 3 != 2)).build()
        for ft in g.features:
            feats[ft] = feats.get(ft, 0) + 1
        sources.append((g.source(), chk.rng.randrange(2 ** 31), i % 2 == 1))
    for src, hs, wh in sources:
        try:
            psyir = FortranReader().psyir_from_source(src)
            hist = R.apply_history(psyir, random.Random(hs)) if wh else []
            w1, seen1 = R.write_capture(psyir)
        except Exception as e:
            dist["not-accepted"] = dist.get("not-accepted", 0) + 1
            continue
        payload = {"src": src, "hist": hist, "hist_seed": hs, "with_hist": wh, "kind": "generated", "w1": w1}
        try:
            p2 = FortranReader().psyir_from_source(w1)
            w2, seen2 = R.write_capture(p2)
        except Exception as e:
            dist["w1-unreadable"] = dist.get("w1-unreadable", 0) + 1
            fwd = any(b[2] for _u, _i, rows, _m in seen1 for b in c04.monotone_breaks(rows))
            if fwd and "C03-forward-reference" in known_ids:
                dist["known:C03-forward-reference"] = dist.get("known:C03-forward-reference", 0) + 1
                continue
            chk.violation(dict(payload, observed=f"written text is not accepted back: {type(e).__name__}: "
                               f"{str(e)[:300]}", expected="w1 is readable and w2 == w1"))
            return dist, feats
        st = "stable" if w1 == w2 else "unstable"
        dist[st] = dist.get(st, 0) + 1
        for t in hist:
            dist["trans:" + t] = dist.get("trans:" + t, 0) + 1
        u1 = complete_units(w1, seen1)
        jobs.append([payload, st, w1, w2, u1, seen2, None])
        if st == "unstable":
            rem, add = diff_lines(w1, w2)
            cl = "C03-access-order" if (only_access_order(w1, w2) and not sorts) else (
                "C03-forward-reference" if any(b[2] for _u, _i, rows, _m in seen1
                                               for b in c04.monotone_breaks(rows)) else None)
            if cl is None and wildcard_access_class(src, w1, w2):
                cl = WILD_FINDING
            if not (cl and cl in known_ids):
                chk.violation(dict(payload, observed="w2 differs from w1", diff_removed=rem[:20],
                                   diff_added=add[:20], expected="w1 == w2"))
                return dist, feats
            dist["known:" + cl] = dist.get("known:" + cl, 0) + 1
            jobs[-1][6] = cl
    # model tie
    lines, idx = [], []
    for j, (payload, st, w1, w2, u1, seen2, _cl) in enumerate(jobs):
        if u1 is None or len(u1) != len(seen2):
            dist["tie-skipped"] = dist.get("tie-skipped", 0) + 1
            continue
        for k, (unit, ids, rows, ism) in enumerate(u1):
            lines.append(sx(["reread", unit]))
            lines.append(sx([cmd_rt, unit]))
            idx.append((j, k))
    outs = driver("C03", lines)
    verdicts = {}
    for q, (j, k) in enumerate(idx):
        payload, st, w1, w2, u1, seen2, _cl = jobs[j]
        unit, ids, rows, ism = u1[k]
        inv = {v: kk for kk, v in ids.items()}
        rr = parse_sx(outs[2 * q])
        verdict = outs[2 * q + 1]
        verdicts.setdefault(j, []).append(verdict)
        real_seq = table_seq(seen2[k][2])
        if rr[0] == "ok":
            model_seq = [(inv[e[0]], e[1] if isinstance(e[1], str) else "imp") for e in rr[1:]
                         if (e[1] if isinstance(e[1], str) else "imp") in KEEP]
        else:
            model_seq = None
        if not ism and model_seq is not None:
            # the table captured at the second write is the merged routine scope: merge() adds the
            # container symbols first
            def cfirst(seq):
                return [x for x in seq if x[1].startswith("cont")] + [x for x in seq if not x[1].startswith("cont")]
            model_seq, real_seq = cfirst(model_seq), cfirst(real_seq)
        agreed = (model_seq == real_seq)
        if not agreed and model_seq is not None and "C03-forward-reference" in known_ids and (
                any(b[2] for b in c04.monotone_breaks(rows)) or any(b[2] for b in c04.monotone_breaks(seen2[k][2]))):
            # the written text has a forward reference (known finding C03-forward-reference, outside `cleanText`):
            # the reader's placeholder keeps a different class tag; the ORDER of the names is still compared
            agreed = [n for n, _t in model_seq] == [n for n, _t in real_seq]
            dist["tie-names-only:forward-reference"] = dist.get("tie-names-only:forward-reference", 0) + 1
        chk.case({"kind": "reread", "unit": unit, "real": real_seq}, nontrivial=len(real_seq) >= 3, agreed=agreed)
        if not agreed:
            chk.correspondence_broken("symbol order after re-reading differs from Decls.readItems",
                                      {"src": payload["src"], "hist": payload["hist"], "w1": w1}, model_seq, real_seq)
    for j, vs in verdicts.items():
        payload, st, w1, w2, u1, seen2, cl = jobs[j]
        if cl in ("C03-access-order", WILD_FINDING):
            # pass 1 of the pinned code depends on Python's set order for wildcard-imported names
            continue
        mstable = all(v == "same" for v in vs)
        if (st == "stable") != mstable:
            chk.correspondence_broken("stable/unstable verdict differs from Decls.roundTrip",
                                      {"src": payload["src"], "hist": payload["hist"]}, vs, st)
    return dist, feats


# ---------------------------------------------------------------- statements and expressions
SIGN_FINDING = "C03-sign-before-mul"


def round_trip_nodes(src, nodes=None):
    """round_trip + node-type histogram of the first PSyIR"""
    from psyclone.psyir.frontend.fortran import FortranReader
    from psyclone.psyir.backend.fortran import FortranWriter
    try:
        p1 = FortranReader().psyir_from_source(src)
        w1 = FortranWriter()(p1)
    except Exception as e:
        return "not-accepted", None, None, f"{type(e).__name__}"
    if nodes is not None:
        S.node_types(p1, nodes)
    try:
        p2 = FortranReader().psyir_from_source(w1)
    except Exception as e:
        return "w1-unreadable", w1, None, f"{type(e).__name__}: {str(e)[:300]}"
    try:
        w2 = FortranWriter()(p2)
    except Exception as e:
        return "w2-refused", w1, None, f"{type(e).__name__}: {str(e)[:300]}"
    return ("stable" if w1 == w2 else "unstable"), w1, w2, ""


class Isolator:
    """runs packed programs; an unstable / unreadable program is split until the smallest failing one is found"""

    def __init__(self, make, nodes, limit=12):
        self.make, self.nodes, self.limit = make, nodes, limit
        self.stable, self.failed, self.rejected, self.programs = [], [], [], 0

    def run(self, members, count=True):
        if not members or len(self.failed) >= self.limit:
            return False
        src, marks = self.make(members)
        self.programs += 1
        st, w1, w2, detail = round_trip_nodes(src, self.nodes if count else None)
        if st == "stable":
            self.stable += [(m, marks, w1) for m in members]
            return False
        if len(members) == 1:
            if st == "not-accepted":
                self.rejected.append(members[0])
                return False
            self.failed.append((members, st, src, marks, w1, w2, detail))
            return True
        mid = len(members) // 2
        a = self.run(members[:mid], False)
        b = self.run(members[mid:], False)
        if not (a or b) and st != "not-accepted" and len(self.failed) < self.limit:
            # only the combination fails: the group is the failing input
            self.failed.append((members, st, src, marks, w1, w2, detail))
            return True
        return a or b


def fail_payload(kind, members, st, src, w1, w2, detail, extra):
    payload = dict(extra, src=src, kind=kind, w1=w1, with_hist=False,
                   observed=("w2 differs from w1" if st == "unstable" else f"{st}: {detail}"),
                   expected="w1 is readable and w2 == w1")
    if st == "unstable":
        rem, add = diff_lines(w1, w2)
        payload["diff_removed"], payload["diff_added"] = rem[:20], add[:20]
    return payload


def op_make(members):
    p = S.Prog()
    for j, case, ctx in members:
        p.add(case, ctx, j)
    return p.source(), p.marks


def check_operators(chk, thorough, known_ids, nodes):
    cases = S.operator_shapes() + S.random_shapes(chk.rng, 400 if thorough else 80)
    members = []
    for j, c in enumerate(cases):
        pool = S.CONTEXTS_L if c.cls == "L" else S.CONTEXTS_N
        ctxs = pool if thorough else [pool[(j + chk.seed) % len(pool)]]
        for ctx in ctxs:
            members.append((j, c, ctx))
    dist = {"shapes": len(cases), "statements": 2 * len(members)}
    # model predictions for every expression the reader will build (the shape itself and what the position makes of it)
    effs = [S.effective(c, ctx) for _j, c, ctx in members]
    flat = sorted({e for es in effs for e in es})
    mt = dict(zip(flat, S.model_texts(flat)))
    model = [mt[c.expr] for c in cases]

    def predicted_unstable(k):
        # also: the model's grammar rejects the source (`a + -b`): the reader probably does too
        return (S.tokens_of(members[k][1].expr) is not None and mt[members[k][1].expr] is None) or \
            any(mt[e] is not None and mt[e][0] != mt[e][1] for e in effs[k])
    # trees the model predicts to be rewritten differently / to be rejected run alone (they are few)
    risky = [m for k, m in enumerate(members) if predicted_unstable(k)]
    calm = [m for k, m in enumerate(members) if not predicted_unstable(k)]
    dist["run_alone_predicted_unstable_or_rejected"] = len(risky)
    iso = Isolator(op_make, nodes, limit=10 ** 6 if SIGN_FINDING in known_ids else 12)
    for lo in range(0, len(calm), 40):
        iso.run(calm[lo:lo + 40])
    seen_risky = set()
    for m in risky:
        key = (m[0], m[2] if m[2] in ("select", "casevalue", "section") else "")
        if thorough or key not in seen_risky:
            seen_risky.add(key)
            iso.run([m])
    dist["programs"], dist["not-accepted"] = iso.programs, len(iso.rejected)
    pairs = {}
    # tie on the stable ones: written text and verdict
    for (j, c, ctx), marks, w1 in iso.stable:
        k = "/".join(str(x) for x in c.shape[:4])
        pairs[k] = pairs.get(k, 0) + 1
        m = model[j]
        if m is None:
            dist["model-none"] = dist.get("model-none", 0) + 1
            chk.case({"kind": "expr", "expr": c.expr, "ctx": ctx}, nontrivial=True, agreed=True)
            continue
        real = S.canon(S.marked_rhs(w1, marks[j]) or "?")
        agreed = (real == m[0] and m[1] == m[0])
        chk.case({"kind": "expr", "expr": c.expr, "ctx": ctx, "w1": real}, nontrivial=True, agreed=agreed)
        if not agreed:
            chk.correspondence_broken("text of a written expression / stable verdict differs from C02.render∘C02.parse",
                                      {"expr": c.expr, "ctx": ctx, "shape": list(c.shape)}, list(m), [real, "stable"])
    dist["distinct_shapes_stable"] = len(pairs)
    for mem, st, src, marks, w1, w2, detail in iso.failed:
        j, c, ctx = mem[0]
        rem, add = diff_lines(w1, w2) if w2 is not None else ([], [])
        if len(mem) == 1 and SIGN_FINDING in known_ids and S.model_explains(
                st, w1, rem, add, [mt[e] for e in S.effective(c, ctx)]):
            dist["known:" + SIGN_FINDING] = dist.get("known:" + SIGN_FINDING, 0) + 1
            chk.case({"kind": "expr", "expr": c.expr, "ctx": ctx, "status": st}, nontrivial=True, agreed=True)
            continue
        if len(mem) == 1 and model[j] is not None:
            real = [S.canon(S.marked_rhs(w1, marks[j]) or "?"),
                    "unreadable" if w2 is None else S.canon(S.marked_rhs(w2, marks[j]) or "?")]
            if real != list(model[j][:2]):
                chk.correspondence_broken("text of a written expression / stable verdict differs from C02.render∘C02.parse",
                                          {"expr": c.expr, "ctx": ctx, "shape": list(c.shape)}, list(model[j]), real)
        chk.violation(fail_payload("operator-shape", mem, st, src, w1, w2, detail,
                                   {"expr": [x[1].expr for x in mem][:5], "shape": [list(x[1].shape) for x in mem][:5],
                                    "context": [x[2] for x in mem][:5]}))
        break
    return dist


def stmt_make(members):
    return S.stmt_source([m[1] for m in members]), {}


def check_statement_kinds(chk, thorough, nodes):
    dist = {}
    sel = S.select_cases()
    cat = [(n, b, {"statement": n}) for n, b in S.CATALOGUE]
    pool = [(n, b) for n, b in S.CATALOGUE if "comment" not in n]
    nested = []
    for k in range(200 if thorough else 30):
        nested.append(("nested", S.nest(chk.rng, pool, chk.rng.randint(1, 3)), {"statement": "nested"}))
    for name, group, per in (("select-case", sel, 12), ("statement-kind", cat, 8), ("nested", nested, 6)):
        iso = Isolator(stmt_make, nodes)
        for lo in range(0, len(group), per):
            iso.run(group[lo:lo + per])
        dist[name] = {"constructs": len(group), "programs": iso.programs, "stable": len(iso.stable),
                      "not-accepted": [m[2] for m in iso.rejected][:10]}
        for m, _marks, _w1 in iso.stable:
            chk.case({"kind": name, "stmt": m[1]}, nontrivial=True, agreed=True)
        for mem, st, src, marks, w1, w2, detail in iso.failed:
            chk.violation(fail_payload(name, mem, st, src, w1, w2, detail,
                                       {"statements": [x[1] for x in mem][:5], "what": [x[2] for x in mem][:5]}))
            return dist
    return dist


def explained_by_model(exprs, st, w1, w2):
    rem, add = diff_lines(w1, w2) if w2 is not None else ([], [])
    return S.model_explains(st, w1, rem, add, S.model_texts(list(exprs)))


def replay_finding(entry, sorts):
    w = entry["witness"]
    if entry["id"] == SIGN_FINDING:
        for src, exprs in ((w["src"], w["exprs"]), (w["src_unreadable"], w["exprs_unreadable"])):
            st, w1, w2, _ = round_trip(src)
            if st in ("unstable", "w1-unreadable") and explained_by_model(exprs, st, w1, w2):
                return True
        return False
    if "src" in w and not w.get("files"):
        st, w1, w2, _ = round_trip(w["src"])
        return st in ("unstable", "w1-unreadable") and classify_unstable(w["src"], w1, w2 or "", sorts) == entry["id"]
    for rel in w.get("files", [])[:2]:
        path = os.path.join(common.REPO, rel)
        if not os.path.exists(path):
            continue
        st, w1, w2, _ = round_trip(open(path, errors="replace").read())
        if st == "unstable":
            return True
    if "src" in w:
        st, w1, w2, _ = round_trip(w["src"])
        return st == "unstable"
    return False


def run(chk):
    thorough = chk.tier == "thorough"
    chk.cov["rule"] = ("bundled .f90/.F90 files under tests/test_files and examples that the reader accepts (quick: the "
                       "13 known witnesses + a seeded sample of 45; thorough: all 806) and generated modules / "
                       "subroutines (imports, access statements naming imported and wildcard-imported symbols, "
                       "constants with dependencies, derived types, interfaces, unsupported declarations, code blocks; "
                       "half after <=3 accepted symbol-adding transformations, i.e. with inner-scope symbols); "
                       "per case w1 = write(read(src)), w2 = write(read(w1)), w1 == w2; per exported unit the model's "
                       "symbol order after re-reading and its stable/unstable verdict are compared with the real ones. "
                       "PLUS, enumerated systematically: every type-correct (parent operator, child operator, side) "
                       "with and without source parentheses, three-level sign and logical shapes, signed literal "
                       "operands (1001 shapes + seeded random trees), each as an assignment and in a statement / "
                       "declaration position rotating with the seed (thorough: every position); 201 SELECT CASE "
                       "constructs (selector kind x value lists / ranges x DEFAULT position); a 63-entry catalogue of "
                       "statement kinds and random nestings of them; packed programs, the smallest unstable one is "
                       "isolated; written expression text and verdict compared with the model (driver `exprtext`). "
                       "non-trivial = an accepted file / a unit with >= 3 symbols / an accepted statement; distinct by canonical JSON")
    chk.assumptions += ["comments are dropped by the pinned reader (not part of the PSyIR), so comment stability is vacuous",
                        "Python set iteration order in process_access_statements makes pass 1 itself depend on "
                        "PYTHONHASHSEED for wildcard-imported names (classified under C03-access-order)",
                        "the exporter of c04_real.py is trusted",
                        "statement skeletons (keywords, nesting, names) are opaque in the model: their stability is "
                        "decided by the differential run only; expressions in the model are over scalar names and "
                        "integer / logical literals (other operands only in the differential run)"]
    chk.lean(gen=c03_gen.gen)
    sorts = writer_sorts_access()
    chk.cov["writer_sorts_access_names"] = sorts
    known = {e["id"]: e for e in common.known_findings("C03")}
    files = bundled_files()
    if not thorough:
        sample = chk.rng.sample(files, min(45, len(files)))
        files = [f for f in WITNESS_ACCESS + WITNESS_FORWARD + NAMED_ARG_FILES] + sample
    chk.cov["file_distribution"] = check_files(chk, files, sorts, set(known))
    if not chk.violations:
        d, f = check_generated(chk, 300 if thorough else 36, sorts, set(known))
        chk.cov["generated_distribution"], chk.cov["generator_features"] = d, f
    nodes = {}
    if not chk.violations:
        chk.cov["operator_family"] = check_operators(chk, thorough, set(known), nodes)
    if not chk.violations:
        chk.cov["statement_families"] = check_statement_kinds(chk, thorough, nodes)
    chk.cov["psyir_node_types_read"] = dict(sorted(nodes.items()))
    for e in known.values():
        if replay_finding(e, sorts):
            chk.known(e["what"])


def replay(payload):
    if "file" in payload:
        src = open(os.path.join(common.REPO, payload["file"]), errors="replace").read()
        st, w1, w2, detail = round_trip(src)
    else:
        from psyclone.psyir.frontend.fortran import FortranReader
        from psyclone.psyir.backend.fortran import FortranWriter
        psyir = FortranReader().psyir_from_source(payload["src"])
        if payload.get("with_hist"):
            print("history:", R.apply_history(psyir, random.Random(payload["hist_seed"])))
        w1 = FortranWriter()(psyir)
        detail = ""
        try:
            w2 = FortranWriter()(FortranReader().psyir_from_source(w1))
            st = "stable" if w1 == w2 else "unstable"
        except Exception as e:
            st, w2, detail = "w1-unreadable", None, f"{type(e).__name__}: {str(e)[:300]}"
    print("status:", st, detail)
    if st == "unstable":
        rem, add = diff_lines(w1, w2)
        print("only in pass 1:\n" + "\n".join(rem[:30]) + "\nonly in pass 2:\n" + "\n".join(add[:30]))
    if st in ("stable", "not-accepted"):
        return 0
    known = {e["id"] for e in common.known_findings("C03")}
    if payload.get("kind") == "operator-shape" and len(payload.get("expr", [])) == 1 and SIGN_FINDING in known:
        effs = S.effective(S.Case(payload["expr"][0], "N", ()), payload["context"][0])
        if explained_by_model(effs, st, w1, w2):
            print("this instability belongs to the known finding", SIGN_FINDING)
            return 0
    cl = classify_unstable(src if "file" in payload else payload.get("src", w1), w1, w2 or "", writer_sorts_access())
    if cl and cl in known:
        print("this instability belongs to the known finding", cl)
        return 0
    return 1
