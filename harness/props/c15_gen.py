"""C15 — generator of Fortran programs (routines in a module, local parameters used as kinds, array
bounds and initial values, imported symbols, calls, nested loops/ifs) and of the post-parse tweaks
that give inner scopes (loop / if bodies) their own symbols, as transformations do, and that give
symbols MIXED-CASE names through the symbol-table API (`rename_symbol(sym, "tmpVal")`,
`new_symbol("iCell")`): the Fortran frontend lower-cases every name, so mixed-case spellings — kept by
the symbols while every table is keyed by the lower-cased name — only ever come from the API."""

# spellings: how a lower-case name is turned into a name with another key AND upper-case letters
STYLES = 4


def respell(name, style):
    """a new mixed-case name for the symbol called `name` (its normalised form differs from that of
    `name`: rename_symbol refuses a name whose key is already in the table, its own included)"""
    if style % STYLES == 0:
        return name + "Val"                       # tmp -> tmpVal
    if style % STYLES == 1:
        return name[:1].upper() + name[1:] + "_X"   # tmp -> Tmp_X
    if style % STYLES == 2:
        return (name + "_u").upper()              # tmp -> TMP_U
    return "my" + name[:1].upper() + name[1:]     # tmp -> myTmp


def gen_program(rng, force_case=None):
    """-> (source text, list of tweaks).  A tweak is ["inner", k, name, with_kind, with_bound]:
    declare an array `name` in the symbol table of the k-th Schedule that is not a Routine, with a
    kind / bound taken from the enclosing routine, and use it there; or ["ltype", r, name]: define a
    derived type `name` in routine r (module if r < 0) whose components use that scope's parameters as
    kind, array bound and in default initialisers, and declare a scalar and an array of that type;
    ["case", "all" | "some", seed, style]: rename_symbol() every (or a seeded half of the) renamable
    symbol(s) of every table to a mixed-case spelling; ["apisym", r, style]: new_symbol() a mixed-case
    integer and a mixed-case real in routine r and use them in a new loop at the end of its body."""
    use_import = rng.random() < 0.75
    wildcard = rng.random() < 0.25
    nrout = rng.randint(1, 3)
    L = ["module tmod"]
    if use_import:
        L.append("  use ext_mod, only: wp, ext_n, ext_sub")
    if wildcard:
        L.append("  use other_mod")
    L.append("  implicit none")
    L.append("  integer, parameter :: gk = 8, gn = 5")
    L.append("  integer, parameter :: gq = gn * 2")
    L.append("  real(kind=gk), dimension(gn) :: garr")
    if rng.random() < 0.5:
        # container-level derived type; its default initialiser uses a module parameter that nothing else uses
        L.append("  integer, parameter :: g0 = 2")
        L.append("  type :: pt")
        L.append("    integer :: cnt = g0 + 1")
        L.append("    real, dimension(3) :: xs")
        L.append("  end type pt")
        L.append("  type(pt) :: gp")
        has_type = True
    else:
        has_type = False
    L.append("contains")
    nsched = 0
    tweaks = []
    for r in range(nrout):
        is_func = rng.random() < 0.3
        kinds = ["k", "gk"] + (["wp"] if use_import else [])
        ka = rng.choice(kinds)
        name = f"s{r}"
        if is_func:
            L.append(f"  function {name}(a, n) result(res)")
        else:
            L.append(f"  subroutine {name}(a, n)")
        mval = rng.randint(4, 12)
        if rng.random() < 0.5:
            L.append(f"    integer, parameter :: m = {mval}, k = 8")
        else:
            L.append(f"    integer, parameter :: k = 8")
            L.append(f"    integer, parameter :: m = {mval}")
        L.append("    integer, parameter :: q = m + 2")
        L.append("    integer, intent(in) :: n")
        L.append(f"    real(kind={ka}), dimension(n, gn), intent(inout) :: a")
        L.append("    real(kind=k), dimension(m) :: t")
        L.append("    real(kind=k), dimension(m, q) :: u")
        if rng.random() < 0.5:
            L.append("    real(kind=k), dimension(2:m + 1) :: v")
            has_v = True
        else:
            has_v = False
        if rng.random() < 0.5:
            L.append("    real(kind=gk), dimension(gq) :: w")
        L.append("    real(kind=k) :: x")
        if has_type and rng.random() < 0.6:
            L.append("    type(pt) :: p")
            L.append("    type(pt), dimension(m) :: ps")
            has_p = True
        else:
            has_p = False
        if rng.random() < 0.45:
            # routine-level derived type: default initialisers use a local parameter that nothing else uses
            # (n0) and a literal with a kind; variables of that type.  (Kinds and array bounds that use
            # parameters of the SAME scope are added by the "ltype" tweak: the frontend mishandles them.)
            L.append("    integer, parameter :: n0 = 3")
            L.append("    type :: lt")
            L.append("      integer :: c = n0 + 1")
            L.append("      real(kind=gk) :: w = 2.0_gk")
            L.append("      real(kind=gk), dimension(4) :: ys")
            L.append("    end type lt")
            L.append("    type(lt) :: lp")
            L.append("    type(lt), dimension(m) :: lps")
            has_lt = True
        else:
            has_lt = False
        if is_func:
            L.append("    real(kind=k) :: res")
        L.append("    integer :: i, j")

        def stmt(depth, ind):
            c = rng.random()
            pad = " " * ind
            if c < 0.16 and depth < 3:
                var = "i" if depth % 2 == 0 else "j"
                hi = rng.choice(["m", "q", "n", "gn"])
                out = [f"{pad}do {var} = 1, {hi}"]
                for _ in range(rng.randint(1, 3)):
                    out += stmt(depth + 1, ind + 2)
                out.append(f"{pad}end do")
                return out
            if c < 0.26 and depth < 3:
                out = [f"{pad}if (n > {rng.choice(['q', 'm', 'gn', '3'])}) then"]
                for _ in range(rng.randint(1, 2)):
                    out += stmt(depth + 1, ind + 2)
                if rng.random() < 0.5:
                    out.append(f"{pad}else")
                    out += stmt(depth + 1, ind + 2)
                out.append(f"{pad}end if")
                return out
            if c < 0.36:
                return [f"{pad}t(i) = t(i) + 1.5_k * a(i, 1)"]
            if c < 0.44:
                return [f"{pad}x = real(q, kind=k) + 2.0_{ka}"]
            if c < 0.52:
                return [f"{pad}u(i, j) = garr(j) * 0.5_gk + x"]
            if c < 0.60 and use_import:
                return [f"{pad}call ext_sub(t, ext_n)"]
            if c < 0.66 and r > 0:
                return [f"{pad}call s0(a, n)"] if not first_is_func[0] else [f"{pad}x = s0(a, n)"]
            if c < 0.72 and has_v:
                return [f"{pad}v(i + 1) = t(i) - 1.0_k"]
            if c < 0.80 and has_p:
                return [f"{pad}p%cnt = p%cnt + ps(i)%cnt"] if rng.random() < 0.5 else [f"{pad}ps(j)%xs(1) = p%xs(2)"]
            if c < 0.86 and has_lt:
                return [f"{pad}lp%c = lp%c + lps(i)%c"] if rng.random() < 0.5 else [f"{pad}lp%ys(1) = lp%w + x"]
            if c < 0.92:
                return [f"{pad}a(i, j) = a(i, j) + real(m, kind={ka})"]
            return [f"{pad}x = x + 1.0"]

        if r == 0:
            first_is_func = [is_func]
        body = []
        for _ in range(rng.randint(2, 5)):
            body += stmt(0, 4)
        if is_func:
            body.append("    res = x")
        L += body
        L.append(f"  end function {name}" if is_func else f"  end subroutine {name}")
    L.append("end module tmod")
    src = "\n".join(L) + "\n"
    ntw = rng.choice([0, 0, 1, 1, 2, 3])
    for t in range(ntw):
        tweaks.append(["inner", rng.randrange(64), f"tmp{t}", rng.random() < 0.7, rng.random() < 0.8])
    # derived types DEFINED in a routine (index >= 0) or in the module (-1) whose components have a kind, an
    # array bound and default initialisers that use parameters of that very scope, plus variables of the type
    for t in range(rng.choice([0, 1, 1, 2])):
        tweaks.append(["ltype", rng.choice([-1, 0, 0, 1, 2]), f"gt{t}"])
    tweaks += case_tweaks(rng, force_case)
    return src, tweaks


def case_tweaks(rng, force=None):
    """the tweaks that introduce mixed-case names (applied after all the others)"""
    out = []
    c = rng.random()
    if force == "all" or (force is None and c < 0.35):
        if rng.random() < 0.6 or force == "all":
            out.append(["apisym", rng.randrange(3), rng.randrange(STYLES)])
        out.append(["case", "all", 0, rng.randrange(STYLES)])
    elif force is None and c < 0.7:
        if rng.random() < 0.5:
            out.append(["apisym", rng.randrange(3), rng.randrange(STYLES)])
        out.append(["case", "some", rng.randrange(1 << 30), rng.randrange(STYLES)])
    return out
